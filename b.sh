#!/bin/bash
# dev helper: rebuild vcheck (+csvq-verif) quickly
export GOFLAGS=-mod=mod GOPROXY=off GOSUMDB=off GOTOOLCHAIN=local
cd /verif/harness && cat go.sum.base /repo/go.sum | sort -u > go.sum && go build -tags verif -o ../.build/vcheck ./cmd/vcheck && (cd /repo && go build -tags verif -o /verif/.build/csvq-verif .)
