#!/bin/bash
# usage: tools/keep_seeded.sh <ID>  -- copy a confirmed agent deliverable into /verif/seeded/<ID>/
ID=$1; ROOT=${SEED_ROOT:-/tmp/wt}; SUF=${SEED_SUFFIX:-}; SRC=$ROOT/out/$ID; DST=/verif/seeded/$ID$SUF
mkdir -p $DST
cp $SRC/patch.diff $SRC/meta.json $DST/ 2>/dev/null
cp $SRC/demo* $DST/ 2>/dev/null
for f in $SRC/*_test.go $SRC/*.go $SRC/*.sh $SRC/*.md; do [ -f "$f" ] && cp "$f" $DST/; done
cp $SRC/confirm.with.log $DST/confirm.with.log 2>/dev/null
cp $SRC/confirm.without.log $DST/confirm.without.log 2>/dev/null
ls $DST
