#!/bin/bash
# usage: tools/process_seed.sh <ID> <round> [also-check...]  -- confirm an agent deliverable under /tmp/wt/out/<ID>, keep it as
# seeded/<ID>-<round>/ and run the property's quick check (and the named neighbouring checks) against it in scratch worktrees
ID=$1; RND=$2; shift 2
cd "$(dirname "$0")/.." || exit 2
tools/confirm_seeded.sh $ID > /tmp/wt/out/$ID/confirm.log 2>&1
tail -1 /tmp/wt/out/$ID/confirm.log
grep -q "^CONFIRMED $ID" /tmp/wt/out/$ID/confirm.log || exit 1
SEED_SUFFIX=-$RND tools/keep_seeded.sh $ID >/dev/null
python3 - <<PY
import json
p='/verif/seeded/$ID-$RND/meta.json'; m=json.load(open(p)); m['round']=$RND
m['confirmed']='suite passes with the patch; demonstration fails with it and passes without it; patch applies to /repo HEAD (tools/confirm_seeded.sh, logs confirm.*.log)'
json.dump(m,open(p,'w'),indent=1)
PY
[ $# -gt 0 ] && echo "$@" > seeded/$ID-$RND/also
(for c in $ID "$@"; do echo "/verif/seeded/$ID-$RND/patch.diff $c quick"; done) | xargs -P 3 -L 1 tools/try_mutant_iso.sh
