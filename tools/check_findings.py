#!/usr/bin/env python3
# lists `fix:` commits of /repo that known_findings.json does not record (and recorded shas that do not exist)
import json, subprocess
log = subprocess.run(['git','-C','/repo','log','--format=%h %s'],capture_output=True,text=True).stdout.splitlines()
fixes = {l.split()[0]: l.split(' ',1)[1] for l in log if l.split(' ',1)[1].startswith('fix:')}
d = json.load(open('/verif/known_findings.json'))
rec = {f['commit'] for f in d['findings'] if f['status']=='fixed'}
for s,m in fixes.items():
    if s not in rec: print('MISSING', s, m)
for s in rec:
    if s not in fixes: print('UNKNOWN-SHA', s)
print(len(fixes), 'fix commits,', len(rec), 'recorded')
