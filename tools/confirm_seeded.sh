#!/bin/bash
# usage: tools/confirm_seeded.sh <ID> [demo command]
# Confirms an agent-written seeded defect in the agent's own scratch worktree /tmp/wt/<ID>:
# (a) suite passes with the patch, (b) demo fails with it, (c) demo passes without it,
# (d) the patch applies to the current /repo HEAD.
ID=$1; ROOT=${SEED_ROOT:-/tmp/wt}; DEMO=${2:-"bash $ROOT/out/$ID/demo.sh"}
export GOFLAGS=-mod=mod GOPROXY=off GOSUMDB=off GOTOOLCHAIN=local
WT=$ROOT/$ID
cd $WT || exit 2
[ -f $ROOT/out/$ID/patch.diff ] && [ -f $ROOT/out/$ID/meta.json ] || { echo "deliverables of $ID are not there yet: the worktree is left alone"; echo "NOT CONFIRMED $ID"; exit 2; }
git checkout -q -- . ; git clean -fdq
echo "== demo without patch"; eval "$DEMO" > $ROOT/out/$ID/confirm.without.log 2>&1; RC2=$?; tail -2 $ROOT/out/$ID/confirm.without.log; echo "demo-without rc=$RC2"
git apply $ROOT/out/$ID/patch.diff || { echo "PATCH DOES NOT APPLY"; exit 2; }
echo "== suite with patch"; go build ./... && TMPDIR=$ROOT/out/$ID go test -vet=off -count=1 ./... 2>&1 | grep -v "no test files" | grep -v "^ok" ; SRC=${PIPESTATUS[0]}; echo "suite rc=$SRC"
echo "== demo with patch"; eval "$DEMO" > $ROOT/out/$ID/confirm.with.log 2>&1; RC1=$?; tail -3 $ROOT/out/$ID/confirm.with.log; echo "demo-with rc=$RC1"
git checkout -q -- . ; git clean -fdq
APPLIES=no; (cd /repo && git apply --check $ROOT/out/$ID/patch.diff 2>/dev/null) && APPLIES=yes
echo "applies to /repo HEAD: $APPLIES"
if [ $RC1 -ne 0 ] && [ $RC2 -eq 0 ] && [ $SRC -eq 0 ]; then echo "CONFIRMED $ID"; else echo "NOT CONFIRMED $ID"; fi
