#!/bin/bash
# usage: tools/catch_matrix.sh [tier] [parallel] [dir-glob]
# Runs every kept seeded defect (seeded/*/patch.diff) against the check of its property (plus the checks listed in
# seeded/<dir>/also) with tools/try_mutant_iso.sh (scratch worktrees; /repo is not touched) and writes seeded/CATCH_MATRIX.md.
TIER=${1:-quick}; PAR=${2:-4}; GLOB=${3:-C*}
cd "$(dirname "$0")/.." || exit 2
JOBS=/tmp/mutant-iso/jobs.$$; mkdir -p /tmp/mutant-iso; : > $JOBS
for d in seeded/$GLOB/; do
  id=$(basename $d); prop=${id%%-*}
  checks="$prop"; [ -f $d/also ] && checks="$checks $(cat $d/also)"
  for chk in $checks; do echo "$PWD/$d/patch.diff $chk $TIER" >> $JOBS; done
done
RES=/tmp/mutant-iso/results.$$
xargs -P $PAR -L 1 tools/try_mutant_iso.sh < $JOBS | tee $RES
{
echo "# Seeded defects against the checks ($TIER tier, /repo $(git -C /repo rev-parse --short HEAD), $(date -u +%Y-%m-%dT%H:%MZ))"
echo
echo "Produced by tools/catch_matrix.sh: every patch is applied to a scratch worktree of /repo, the check is built against it and run."
echo
echo "| seeded defect | check | exit | VIOLATION lines | leading signatures |"
echo "|---|---|---|---|---|"
sort $RES | sed -E 's/^([^ ]+) ([^ ]+) exit=([0-9]+) violations=([0-9]+) sigs=(.*)$/| \1 | \2 | \3 | \4 | \5 |/'
} > ${CATCH_OUT:-seeded/CATCH_MATRIX.md}
echo "missed:"; grep ' exit=0 ' $RES
