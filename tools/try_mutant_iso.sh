#!/bin/bash
# usage: tools/try_mutant_iso.sh <patchfile> <ID> [tier] [-R]
# Runs one check against a seeded defect WITHOUT touching /repo: a scratch git worktree of /repo (HEAD) under
# /tmp/mt.<pid>/repo receives the patch, a copy of /verif (sources only) under /tmp/mt.<pid>/verif is built against it
# (VERIF_REPO) and runs the check there. Several of these may run side by side. Log: /tmp/mutant-iso/<name>.<ID>.log
P=$(readlink -f "$1"); ID=$2; TIER=${3:-quick}; REV=${4:-}
NAME=$(basename $(dirname $P)); [ "$NAME" = mutants ] && NAME=$(basename $P .patch)
D=/tmp/mt.$$
mkdir -p $D /tmp/mutant-iso
LOG=/tmp/mutant-iso/$NAME.$ID.log
git -C /repo worktree add -q --detach $D/repo HEAD || exit 2
# seeded/<dir>/pre lists repairs (mutants/fix-*.patch) to be undone first: the seeded defect needs the unrepaired code to be reachable
if [ -f "$(dirname $P)/pre" ]; then
  for pp in $(cat "$(dirname $P)/pre"); do ( cd $D/repo && git apply -R /verif/$pp ) || echo "pre-patch $pp does not apply"; done
fi
( cd $D/repo && git apply $REV "$P" ) || { echo "patch does not apply"; git -C /repo worktree remove --force $D/repo; rm -rf $D; exit 2; }
rsync -a --exclude .git --exclude .build --exclude .work --exclude evidence --exclude replays --exclude seeded --exclude mutants /verif/ $D/verif/
( cd $D/verif && VERIF_REPO=$D/repo ./check $ID $TIER > $LOG 2>&1; echo "exit=$?" >> $LOG )
git -C /repo worktree remove --force $D/repo; git -C /repo worktree prune
rm -rf $D
NV=$(grep -a -c '^VIOLATION' $LOG)
SIGS=$(grep -a -o 'signature "[^"]*"\|signature: .*' $LOG | sed 's/signature[: ]*//; s/"//g' | sort | uniq -c | sort -rn | head -3 | awk '{$1=""; print}' | tr '\n' ';' | cut -c1-160)
echo "$NAME $ID $(tail -1 $LOG) violations=$NV sigs=$SIGS"
