#!/bin/bash
# usage: tools/finalize.sh  -- regenerates every evidence file with the plain registered quick command (default seed,
# no VERIF_* overrides), regenerates MANIFEST.json, validates both against the schemas and cross-checks known_findings.json.
cd "$(dirname "$0")/.." || exit 2
unset VERIF_SEED VERIF_CASES VERIF_WORKERS
rm -rf replays
FAIL=0
for ID in C01 C02 C03 C04 C05 C06 C07 C08 C09 C10 C11 C12 C13 C14 C15 C16 C17 C18 C19 C20; do
  ./check $ID quick > .work/final.$ID.log 2>&1; RC=$?
  V=$(grep -c '^VIOLATION' .work/final.$ID.log)
  echo "$ID exit=$RC violations=$V $(grep -m1 ' quick seed=' .work/final.$ID.log | cut -c1-140)"
  [ $RC -ne 0 ] && FAIL=1
done
python3 tools/gen_manifest.py
python3-vt - <<'PY'
import json, jsonschema, glob
m=json.load(open('MANIFEST.json')); jsonschema.validate(m, json.load(open('/root/.vp/MANIFEST.schema.json'))); print('MANIFEST ok', len(m.get('properties',m.get('claims',[]))))
es=json.load(open('/root/.vp/EVIDENCE.schema.json'))
for f in sorted(glob.glob('evidence/*.json')):
    jsonschema.validate(json.load(open(f)), es)
print('evidence ok', len(glob.glob('evidence/*.json')))
PY
python3 tools/check_findings.py
exit $FAIL
