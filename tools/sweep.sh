#!/bin/bash
# usage: tools/sweep.sh <tier> <seed...>   runs every check at the given seeds on the current tree, prints one line per run
TIER=$1; shift
cd "$(dirname "$0")/.." && ./check build >/dev/null 2>&1
LOG=${SWEEP_LOG_DIR:-/tmp}
for SEED in "$@"; do
  for ID in ${SWEEP_IDS:-C01 C02 C03 C04 C05 C06 C07 C08 C09 C10 C11 C12 C13 C14 C15 C16 C17 C18 C19 C20}; do
    T0=$(date +%s)
    VERIF_SEED=$SEED ./check $ID $TIER > $LOG/sweep.$ID.$SEED.$TIER.log 2>&1; RC=$?
    T1=$(date +%s)
    V=$(grep -c '^VIOLATION' $LOG/sweep.$ID.$SEED.$TIER.log); K=$(grep -c '^KNOWN-FINDING' $LOG/sweep.$ID.$SEED.$TIER.log); I=$(grep -c '^INCONCLUSIVE' $LOG/sweep.$ID.$SEED.$TIER.log)
    echo "$ID seed=$SEED tier=$TIER exit=$RC violations=$V known=$K inconclusive=$I wall=$((T1-T0))s"
  done
done
