#!/bin/bash
# usage: tools/try_mutant.sh <patchfile> <ID> [tier] [-R]
# applies a patch to /repo's working tree, runs the check, restores /repo.
P=$1; ID=$2; TIER=${3:-quick}; REV=${4:-}
cd /repo || exit 2
if ! git diff --quiet; then echo "/repo has uncommitted changes"; exit 2; fi
git apply $REV "$P" || { echo "patch does not apply"; exit 2; }
( cd /verif && ./check $ID $TIER > /tmp/mutant.$ID.log 2>&1; echo "exit=$?" >> /tmp/mutant.$ID.log )
git -C /repo checkout -- . 
( cd /verif && ./b.sh >/dev/null 2>&1 )
git -C /repo clean -fdq lib 2>/dev/null
grep -c '^VIOLATION' /tmp/mutant.$ID.log | sed 's/^/violations printed: /'
grep 'violations with signature\|signature:' /tmp/mutant.$ID.log | sort | uniq -c | sort -rn | head -8
tail -4 /tmp/mutant.$ID.log
