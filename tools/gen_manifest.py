#!/usr/bin/env python3
# Generates /verif/MANIFEST.json from the table below (kept in one place so the
# manifest stays valid while checks are added).
import json, subprocess
V = "/verif"
checks = {
 "C01": ("fault_enumeration", "§5 C01",
   "Generated procedures are run by the real binary undisturbed and once per (top-level position x {failing statement, EXIT, EXIT n, TRIGGER ERROR, failing COMMIT}) and per (statement execution or commit step x {SIGINT, SIGTERM}) with the signal self-delivered exactly at that hook point. The expected state is observed, not modelled: the procedure dumps every table before each COMMIT and at its end; with C = commits the hook trace shows completed, the disk re-read by a fresh process must equal dump C, later-created files must not exist, the untouched file must be byte-identical, and every ROLLBACK must restore the last committed dump.",
   "Termination is enumerated at statement and commit-step granularity (finer points: C10/C11). NULL and empty text coincide in the comparison. Trusts csvq's SELECT * for the dumps (checked by C03/C05).",
   "runtime fault injection (self-delivered signals / injected failing statements at enumerated points) + observation-based state oracle"),
 "C02": ("exploration", "§5 C02",
   "Generated tables with hostile cell texts (delimiters, quotes, line breaks, tabs, colons, edge blanks, backslashes, empty/NULL, non-ASCII, unmappable characters; one named probe class per table; every 12th case 299..420 rows) are written by the real binary in a random dialect (6 formats x 9 encodings x 3 line breaks x enclose-all x without-header x strip-ending-line-break x json-escape x pretty-print) through three paths — query result to --out, CREATE TABLE AS + COMMIT, INSERT..SELECT into an existing file + COMMIT — and re-imported by a fresh csvq process under the same settings; cells must be equal modulo the equivalences the statement names, a refused write must leave nothing behind, and an independent byte-level dialect sniffer compares the file before and after an UPDATE/INSERT.",
   "Refusals are never judged wrong. Restrictions where csvq has no corresponding feature: CREATE TABLE cannot create fixed-length files, JSON files are always UTF-8, pretty-print is a JSON (not JSONL) option, fixed-length positions are byte positions (UTF8/SJIS only). Four read-side defects of the pinned go-text dependency are listed as known findings.",
   "runtime monitor: write/re-import round-trip oracle + byte-level dialect sniffer"),
 "C03": ("exploration", "§5 C03",
   "Generated SELECT queries (tables, derived tables, CTEs incl. recursive and multiply-referenced ones, CROSS/INNER/LEFT/RIGHT/FULL joins with ON / USING / NATURAL, LATERAL, nested; WHERE with comparisons, logic, IS NULL, BETWEEN, IN list/subquery, EXISTS and scalar subqueries incl. correlated; select lists with *, t.*, arithmetic, CASE) are executed in-process by the real pipeline and compared with an independent nested-loop relational evaluator: bag equality of typed rows, sequence equality for single-source queries. Plus two metamorphic oracles that need no reference: ternary-logic partition over predicates with built-in functions, and the outer-join identities. Every 8th case runs the parallel filter/join paths (160..320 rows, --cpu 2..8).",
   "Judged on integer / non-numeric text / NULL cells where the coercion ladder is unambiguous. Nested joins are parenthesised explicitly (csvq's grammar groups `a CROSS JOIN b INNER JOIN c ON …` to the right, which the manual does not pin down; not judged).",
   "runtime monitor: differential check against an independent relational evaluator + metamorphic (TLP, join identities) oracles"),
 "C04": ("exploration", "§5 C04",
   "Generated tables carry a unique id per row; the buckets csvq forms are read off as id sets (LISTAGG(id) under GROUP BY and OVER (PARTITION BY), representatives for DISTINCT and the set operators) and judged pairwise against an independent three-valued equality relation (same / different / unspecified), with and without --strict-equal, on key pools that contain csvq's internal key separators split differently across columns, numbers in several spellings, datetimes, boolean words and NULLs, incl. planted tuples whose concatenations coincide; every aggregate is recomputed over the rows of its bucket. Every 8th case runs the parallel group path (200..700 rows, --cpu 2..8).",
   "Trusts the harness equality relation as a reading of the manual; pairs the manual leaves open (boolean word vs 0/1, 1 vs 1.0, one instant in two layouts, NaN) are not judged.",
   "runtime monitor: pairwise bucket-membership oracle via unique row ids + aggregate recomputation"),
 "C05": ("exploration", "§5 C05",
   "Histories of 3..12 data-changing statements (INSERT in three forms, UPDATE/DELETE single- and multi-table, REPLACE USING on unique and on duplicate-holding key columns, ALTER ADD/DROP/RENAME with every position clause) run statement by statement in one real transaction over a CSV file, a TSV file and a temporary table (and, every 10th case, two statements on the STDIN table); after EVERY statement SELECT * of every table (cells, row order, column order) and the reported affected-row count are compared with an executable table model, and after COMMIT the reloaded files are compared. Every 6th case runs the parallel paths (160..700 rows, --cpu 2..8) twice.",
   "Generated statements write string literals, NULL or copies of cells, and predicates stay in the region where the reference ladder is specified. Unspecified forms (duplicate keys inside a replacement set, multiply-matched joined updates) are not generated.",
   "runtime monitor: executable reference model compared after every step of a history"),
 "C06": ("exploration", "§5 C06",
   "Every operator result on every ordered pair of a ~165-value pool (all value classes of the quantifier) is produced by the real evaluator, through three operand carriers, and checked online against the algebraic laws of the statement, an independent coercion ladder written from the manual, and the documented expansions on sampled triples. Exhaustive over the pool for pairs; sampled for triples.",
   "Trusts the harness reference ladder (refval.go) as a faithful reading of the manual; spellings the manual does not pin down are checked against the laws only.",
   "runtime monitor: algebraic-law and reference-model oracle over executed operator evaluations"),
 "C07": ("exploration", "§5 C07",
   "Generated tables with a unique id per row are sorted and cut by the real query pipeline (incl. the parallel path, --cpu 2..8 on 160..700 rows); an online oracle checks permutation-ness, absence of adjacent inversions under an independent comparator, equality with a reference sort for total orders, and exact LIMIT/OFFSET/PERCENT/WITH TIES arithmetic at boundary parameters.",
   "Trusts the harness comparator (numbers, datetimes, upper-cased trimmed text, NULL position defaults from the manual). Negative limits/offsets judged as 0, PERCENT>100 as 100.",
   "runtime monitor: sortedness/permutation/cut oracle over executed queries with unique row ids"),
 "C08": ("fault_enumeration", "§5 C08",
   "The complete product statement kind (10) x failure kind (7) x failing row k (5) x table state (never loaded / SELECTed / FOR UPDATE / already dirty / temporary) x size (5 rows, 200 rows with --cpu 4) is walked (3500 combinations, ~1500 valid and really failing). Each runs in one real in-process transaction: typed snapshot of every table, the failing statement, snapshot again, no file or control file left by a failed CREATE TABLE, then COMMIT and reload from disk; cancellation is injected by cancelling the statement's context at the k-th worker-hook hit.",
   "Failures are produced by the data (division by zero at row k, short VALUES row, two-row sub-query, user function TRIGGER ERROR at its k-th call, duplicate join partner, unknown field) or by the cancellation hook; combinations that do not fail are counted as trivial.",
   "runtime fault injection (data-driven failures at row k, hook-driven cancellation) + before/after state monitor"),
 "C09": ("exploration", "§5 C09",
   "(a) Stress: 12 client loops of real csvq processes run increment / FOR UPDATE / ROLLBACK / read / short-timeout transactions on one table with delays injected inside the lock protocol; offline monitors over the merged hook trace and the results check hold-interval overlap, conservation, exactly-once, timeout-changes-nothing and (porcupine) linearizability. (b) Systematic schedules: 2..3 real processes run under a step controller that serialises every hook point of acquisition, commit and release through FIFOs; two-role schedules are enumerated as bit strings over the first 14 decision points, three-role ones explored with bounded random preemption; after each step the believed-holder set must be compatible and at the end the table must reflect every committed writer.",
   "Observed schedules only: bounded decision depth, step cap and a wall-clock watchdog (firing = inconclusive). Either protection layer (lock files or flock) may exclude; only real overlaps / lost updates are judged.",
   "runtime monitors over recorded event logs (interval overlap, conservation, exactly-once, porcupine linearizability) + controlled-schedule enumeration through hook points"),
 "C10": ("fault_enumeration", "§5 C10",
   "For each generated transaction the real binary is traced once, then killed (SIGKILL to itself from a hook) at EVERY hook point reached between the start of COMMIT and process exit, each on a fresh copy of the directory; after each death every pre-existing table must exist with complete old or complete new bytes and be usable after removing the control files. Thorough adds a walk over every file-system syscall of the commit with strace kill injection.",
   "Crash = process death at hook/syscall granularity; no torn write(2), no power-loss reordering (csvq never fsyncs; the property speaks of the process dying). Old/new bytes are taken from the initial files and from an undisturbed run of the same transaction.",
   "runtime fault injection at hook points + directory/bytes monitor"),
 "C11": ("fault_enumeration", "§5 C11",
   "A tracing run lists every hook point a procedure reaches (statement starts, loads, every lock-acquisition, commit and close step of lib/file, transaction commit/rollback steps); the real binary is re-run with SIGINT/SIGTERM/SIGQUIT self-delivered exactly at each point, plus error/EXIT endings, lock timeouts against orphan lock files and against a live competing holder, and signals while waiting in the lock retry loop. A directory monitor then requires: no .lock/.rlock/.temp file, no table outside the last completed COMMIT, and for read-only procedures no change in bytes or mtime.",
   "Signal delivery is enumerated at hook-point granularity; SIGKILL is C10's. Quick samples up to 36 points per procedure (all statement starts get all three signals), thorough walks all.",
   "runtime fault injection at enumerated hook points + directory snapshot monitor"),
 "C12": ("exploration", "§5 C12",
   "The real binary executes each generated program with --cpu 1 and then with --cpu 2,3,4,8,16 twice each under seeded scheduling jitter in the worker goroutines; stdout and all files must be byte-identical. The hook trace proves that sections really ran on several goroutines and counts the distinct worker-arrival orders produced.",
   "Determinism is only observed on the schedules produced (jitter widens them; distinct arrival signatures are reported). Programs are --quiet.",
   "runtime monitor: differential execution across --cpu values/schedules with injected scheduling jitter"),
 "C13": ("exploration", "§5 C13",
   "The race-detector build (go build -race -tags verif) of the real csvq binary executes programs that split loading, filtering, joining, grouping, sorting, analytic functions, user functions, cursors and DML over 4..16 goroutines, with seeded scheduling jitter, repeated; every DATA RACE report with a csvq frame is a violation (deduplicated by the pair of top csvq frames).",
   "Only races on accesses performed in these runs are visible, and the detector keeps a bounded access history; held = no report on the executions observed.",
   "compiler sanitizer: Go race detector over stress workloads with injected scheduling jitter"),
 "C17": ("exploration", "§5 C17",
   "Generated tables (ties, NULLs, single-row and many partitions; every 8th case 200..900 rows with --cpu 2..8) and random analytic expressions (ranking functions, NTILE, LAG/LEAD with offsets/defaults/IGNORE NULLS, FIRST/LAST/NTH_VALUE with random ROWS frames and IGNORE NULLS, aggregates and a user-defined aggregate with OVER and random frames) are evaluated by the real pipeline; an independent evaluator partitions, orders and applies each definition to every row's frame; other columns and the row count must be unchanged.",
   "Unspecified corners are generated only where they cannot influence the verdict: the default frame of an ordered clause without windowing clause, the offset semantics of LAG/LEAD IGNORE NULLS beyond 1, PERCENT_RANK of a single-row partition.",
   "runtime monitor: differential check against an independent per-partition/per-frame evaluator"),
 "C14": ("exploration", "§5 C14",
   "Three monitors over real evaluations. (1) Poison-on-discard: a build-tag switch makes value.Discard overwrite the object with a sentinel and never re-issue it; every built-in function (table enumerated at run time) is called with every single and every pair of a 30-value typed operand pool (plus sampled triples) held in variables, and every result, variable, table cell and cursor row is checked for the sentinel; double discards are recorded. (2) A reflection digest of the parsed syntax tree before/after execution. (3) With the shipped recycling allocator, the same expression is evaluated repeatedly through literals, variables, table cells of a cached table, a loop, a function body, a prepared statement and a re-executed parsed statement; results must repeat and variables / the cached table / cursor rows must be unchanged. Plus statement families around cached tables (sub-queries, CTEs, COUNT(*) forms).",
   "Volatile functions (NOW, RAND, CALL, …) are excluded from the equality monitors only. Internal failures seen on the way are counted and left to C19.",
   "runtime monitors: poison-on-discard sanitizer hook, syntax-tree digest, repeat-evaluation oracle"),
 "C15": ("exploration", "§5 C15",
   "Generated procedures (nested IF/ELSEIF/CASE/WHILE blocks, shadowing and same-block re-declarations over a three-name alphabet, loops controlled by variables the body shadows, DISPOSE, use after block end, BREAK/CONTINUE/EXIT, functions with defaults, recursion and mutual calls, RETURN inside loops, block-local cursors and temporary tables) are executed by the real processor, 150+ per harness process so pooled scope objects are recycled; an independent reference interpreter with block-scoped environments must produce the same PRINT trace and the same error/no-error outcome. Every 8th case also calls a generated function from a query over 200..700 rows with --cpu 2..8 and compares every row.",
   "Function bodies only use parameters, locals and never-shadowed globals (caller-local visibility is not specified) and do not assign globals (no defined result under parallel invocation). Values are small integers.",
   "runtime monitor: differential check of execution traces against a reference interpreter"),
 "C16": ("exploration", "§5 C16",
   "Histories of 8..40 cursor operations on two cursors (DECLARE/OPEN/FETCH with every position keyword and boundary offsets/CLOSE/DISPOSE/WHILE..IN/status expressions) interleaved with DML, ALTER, COMMIT and ROLLBACK on the underlying table run statement by statement in one real transaction; a cursor model whose snapshot is taken by a SELECT at OPEN time is compared after every operation: fetched values, IS OPEN / IS IN RANGE / COUNT, rows visited by WHILE..IN and error/no-error.",
   "Variables after an out-of-range FETCH are not judged; non-integer offsets only watched for internal failures.",
   "runtime monitor: state-machine model compared after every operation of a history"),
 "C18": ("exploration", "§5 C18",
   "150 000 (quick) / 6 000 000 (thorough) program texts — random bytes, token soups from the parser's own keyword table, seeds mined at run time from the manual, parser_test.go and testdata, outputs of the C03/C05/C14/C15 generators, hostile string/identifier literals and unary-sign chains, all mutated at byte, token and slice level — are parsed in the four quoting/prepared modes. Online monitors: no panic, no hang (per-case watchdog, journalled input), syntax-error positions inside the input; every value expression of every tree that parsed is printed, re-parsed, printed again (idempotence) and, when closed, evaluated in both forms (same value).",
   "Seeded deterministic mutation, no coverage feedback. Lines are counted with CRLF, LF and lone CR as breaks (as csvq's scanner does).",
   "fuzzing with online monitors (totality, error-position, print/parse round-trip and value-preservation oracles)"),
 "C19": ("exploration", "§5 C19",
   "Three fuzzing workloads with online monitors. Loader fuzz (in-process, journalled inputs, worker sub-processes): mutated and random byte strings x format function x encoding x no_header x without_null x ALLOW_UNEVEN_FIELDS x JSON query; oracle: documented error or rectangular table. Program fuzz (in-process + sampled through the real binary): every built-in, aggregate and analytic function (tables enumerated at run time) and LIMIT/OFFSET/PERCENT/WITH TIES/frame clauses with boundary arguments, deep nesting, recursion limits. File-system states through the real binary: missing/unreadable/read-only files and directories (child run as uid 65534), directory in place of a file, removed working directory, --repository/--out pointing nowhere, ENOSPC/EIO injected into writes with strace, invalid option values. Violations: Fatal Error / panic / runtime dump, undocumented exit status, death by signal, hang (watchdog), non-rectangular table.",
   "Error texts are not judged, only exit status and internal-failure markers. A watchdog hang is reported with the worker's goroutine dump.",
   "fuzzing and fault injection (strace errno injection, permission states) with online monitors"),
 "C20": ("exploration", "§5 C20",
   "Transaction A is an in-process processor executing one statement per call without auto-commit (exactly what the interactive shell does); B is a real csvq process that rewrites a unique version stamp in every row and commits. For every generated history of A (plain SELECTs incl. through sub-query / CTE / self-join, FOR UPDATE, INSERT/UPDATE/DELETE, COMMIT, ROLLBACK) EVERY subset of at most two gaps between A's statements receives a commit of B. A model of A's working copy (load at first access, the documented reload at the first data-changing or FOR UPDATE access, reload after COMMIT/ROLLBACK, own changes on top) is compared with every result A reads; B must be excluded (exit 8, file unchanged) while A holds the table, and after A's COMMIT the file equals A's copy.",
   "B runs to completion inside a gap. Exhaustive over gap subsets of size <= 2 per history.",
   "runtime monitor: version-stamp oracle over controlled two-process interleavings (exhaustive gap enumeration per history)"),
}
# workloads added while testing the checks against nine rounds of independently seeded defects (DESIGN.md §10.4)
extra = {
 "C01": " Terminations are also reached through EXECUTE, a sourced file, nested blocks and a function; a marker statement behind a terminating statement must never run; a third of the signal runs repeat the signal once the first has been taken; a non-canonically spelled untouched file is named as target of statements that change nothing; header-less tables are emptied before COMMIT (a refused COMMIT is judged like any other ending).",
 "C02": " Hand-written fixed-length files (header line, no header line, single line) are updated in place; every 24th case has 1500..2500 rows.",
 "C03": " Clustered join keys (whole worker chunks without a match), JOIN LATERAL in its inner/outer forms, multi-column USING / NATURAL outer joins, NATURAL joins without a common column, chains in which a NATURAL / USING join follows another (compared with their spelling through ON conditions).",
 "C04": " DISTINCT inside aggregates, two analytic functions over one partitioning (one ordering inside OVER), set operators with an empty operand.",
 "C05": " Statements wrapped in IF / WHILE / function blocks, UPDATE with a sub-query over the updated table, two-target UPDATE, multi-column DROP in any order, tables of 22..32 columns with more than twenty columns dropped at once, defaults with a side effect.",
 "C07": " Integer keys beyond 2^53, ORDER BY behind DISTINCT / analytic functions / GROUP BY / sub-queries, cut queries nested in cut queries, row-count x percentage pairs that are exact only when multiplied first.",
 "C08": " Column-list failures after a successful sub-select, rejected ALTER TABLE SET of ten attributes (committed bytes compared with a control transaction), rejected rows that hold table cells / variables, every other case under poison-on-discard, statements that name their table twice, cancellation at hook hits spread over the whole statement.",
 "C09": " Read-then-write, FOR UPDATE through a join, EXECUTE / SOURCE inside a hold and FOR UPDATE over a set operation as transaction kinds and schedule scenarios; syscall delays (strace delay_exit) in a third of the stress rounds; racing creators of one table (49 pairs of hold points); a separate probe for single statements whose WITH clause reads their target (known finding).",
 "C10": " Symbolic-link tables, a stale temp file next to a table, and a syscall-granularity walk for the first three (and all stale-temp) transactions also in the quick tier; the rename refused (EPERM) with a kill at every later write; transactions whose new contents cannot be written in the table's format (only the previous contents are admissible, at the end and at every crash point).",
 "C11": " Racing lock acquisitions (100 role/point pairs), --out after CHDIR, table paths differing only in letter case, part of the procedure preloaded from ./csvqrc, repeated signals, the publishing rename refused by strace (from the first / from the second rename on).",
 "C12": " LATERAL statements and a repeated --cpu 1 run.",
 "C13": " Every built-in scalar function raced per row, statements in which all workers touch the same few shared elements, RAND(), user aggregates with a scalar parameter.",
 "C14": " Cells selected before and after the expression and the expression inside WHERE; rows derived from a table (materialised view, open cursor, variable) before an UPDATE; integer operands of analytic functions, FETCH and LIMIT as literals of one tree executed twice and as variables.",
 "C15": " Cursor loops with RETURN inside, two-variable declarations, shadowing functions declared and disposed in inner blocks.",
 "C16": " Same-named cursors in nested blocks, one FETCH statement executed repeatedly, REPLACE among the table changes, cursors declared for prepared statements.",
 "C17": " A user aggregate with a row-dependent parameter, number spellings mixed in the ordering column.",
 "C18": " Quoted qualifiers, sub-queries assembled from every clause form (evaluated both ways over small tables), characters in the code-point range of the parser's token numbers, spaced unary chains, quoted function names and names behind sigils, windowing clauses in every frame form with the whole column evaluated both ways.",
 "C19": " Relational operators over empty / disjoint / clustered operands, boundary operands of every statement kind, every output format with values that are awkward to lay out, unknown and outer names in every clause, structured JSON / JSON Lines documents (nested, empty, scalar where an array is expected) read through walking queries.",
 "C20": " FOR UPDATE over joins, alternative spellings of the table path, JSON files read through several JSON queries, REPLACE and a second row under an existing key among A's statements.",
}
# rounds 11 and 12
extra2 = {
 "C01": " COMMIT / ROLLBACK inside a block that shadows a changed temporary table; session output options set by the procedure.",
 "C02": " Header-less CSV/TSV files and CRLF fixed-length files updated in place keep their line break; a COMMIT retried after a refused COMMIT in one session writes what the same changes write in one go.",
 "C03": " Recursive CTEs whose iterations repeat rows, BETWEEN with column bounds (NULL for some rows), the qualifier of alias.* in upper case.",
 "C04": " Datetime texts in different layouts that denote one instant are one value (sessions run in UTC), also under a datetime format of the session's own; ALL set operators by bucket counts; aggregates next to DISTINCT aggregates of the same column; aggregates of constants.",
 "C05": " Data-changing statements run from functions called once per row by a parallel query; one table under two aliases as targets (known finding).",
 "C06": " The comparison laws under datetime formats the session adds (also digits-only formats); INTEGER(x) against INTEGER(FLOAT(x)).",
 "C07": " Cut queries as operands of IN / NOT IN / ANY.",
 "C08": " Statements cancelled at the N-th poll of their context (first, second, middle and the last polls), two-target UPDATE / DELETE, tables of thousands of rows.",
 "C09": " Stress rounds with slow holders (holds above one second, releases stretched between close and unlink); processes inserting into the table they read the next number from.",
 "C11": " SIGHUP at every hook point, a standard-output reader that goes away (broken pipe), the N-th open refused (EMFILE/ENOSPC/EACCES/ENAMETOOLONG), tables whose file names leave no room for control-file names.",
 "C12": " Amounts whose sums are inexact in binary (SUM/AVG/STDEV over tables, groups, partitions, frames); tables made of equally long sorted runs.",
 "C14": " Two readings of one aggregate around another (DISTINCT / ordered) aggregate in one statement; read-only statements in front of a change inside a nested block are transparent.",
 "C15": " Expressions evaluated through queries, functions declared inside functions, temporary tables shadowing outer ones, functions whose locals carry names the calling query uses.",
 "C16": " Offsets at the integer bounds; cursors opened in nested blocks that shadow names of the cursor's query.",
 "C17": " Frame offsets up to the largest integer, DISTINCT aggregates over frames, nested analytic functions executed repeatedly, functions differing in the case of a literal.",
 "C18": " Statements laid out with comments over CR / LF / CRLF line breaks: the error position equals the one of the comment-free layout.",
 "C19": " One file reached through every table-object form in one transaction, tables without columns as operands and whole rows where one value is expected, repeated names in name lists, window frames that hold no row, wildcard patterns and a data-changing statement called from a data-changing statement under a watchdog (the latter a known finding).",
 "C20": " Statements evaluated by several goroutines that load a table through a sub-query (B commits at the moment a second load would start); describing commands (SHOW FIELDS / SHOW TABLES) in A's histories.",
}
extra3 = {
 "C03": " Columns addressed by number (table.N) behind USING / NATURAL joins.",
 "C04": " Key triples around the escape character of the key serialisation.",
 "C05": " REPLACE keys given as numbers of the other kind.",
 "C06": " The same texts compared again after the session's datetime format was replaced.",
 "C07": " Words among words that read as booleans.",
 "C14": " Values read after overflowing integer arithmetic.",
 "C15": " A function shadowing an aggregate of the same name and back.",
 "C16": " Positions given as floats beyond every integer; a WHILE IN loop whose body closes or disposes its cursor.",
 "C17": " Datetimes in a format of the session as ORDER BY / PARTITION BY keys of OVER.",
 "C18": " Runs of blanks and non-ASCII blanks in literals of composite expressions.",
}
# round 13 (second half) and round 14
extra4 = {
 "C02": " Created tables whose extension is written in upper / mixed case; fixed-length files whose positions are found automatically, and fixed-length files whose columns are added, dropped and renamed (the committed file must read back as the table the altering process saw); column names holding line breaks, delimiters and quotes, and column names that are paths into one JSON object (refused or read back alike); a table read through --json-query and updated (known finding); a third of the commit paths run under --color.",
 "C03": " LATERAL joins over a left side without records (fields of both sides, aggregates, as the padded side of an outer join).",
 "C08": " A table read before under import attributes of its own; nine table layouts (fixed-length with found / given / single-line positions, TSV, CRLF CSV, semicolon CSV, LTSV, JSON, JSON Lines) x seventeen failing statements, each transaction compared byte by byte with a control transaction that never ran the failing statement.",
 "C10": " Write-protected tables; tables with a second hard link.",
 "C11": " Procedures over a symbolically linked table (the link target's directory is part of the snapshot).",
 "C12": " Partition keys that are one value object in neighbouring records; prepared statements whose placeholders are evaluated by parallel workers.",
 "C13": " Prepared statements whose placeholders are evaluated by parallel workers.",
 "C19": " A step watchdog of one minute per program / loader input names the program that never ends; after four hangs a run stops restarting hung workers.",
 "C20": " At every fifth gap B arrives first and is slow: it holds the table for update (0.4 s between its change and its COMMIT) at the moment A's statement starts.",
 "C04": " Instants outside 1678..2262 (two of them 2^64 nanoseconds apart); the texts of a session's datetime format are bucketed once before the format is set.",
 "C07": " Instants outside 1678..2262 as sort keys.",
}
for k, add in extra4.items():
    extra3[k] = extra3.get(k, "") + add
for k, add in extra3.items():
    extra2[k] = extra2.get(k, "") + add
for k, add in extra2.items():
    extra[k] = extra.get(k, "") + add
for k, add in extra.items():
    lvl, ref, text, note, tech = checks[k]
    checks[k] = (lvl, ref, text + add, note, tech)
order = ["C%02d" % i for i in range(1, 21)]
na_reason = "(none)"
hooks_commits = subprocess.run(["git", "-C", "/repo", "log", "--format=%h %s"], capture_output=True, text=True).stdout.splitlines()
hook_shas = [l.split()[0] for l in hooks_commits if "verif hooks" in l]
m = {
 "version": 1,
 "setup_cmd": "cd /verif && ./check build",
 "hooks": {
  "guard": "go build tag `verif` (package lib/verifhook: off.go = no-ops, on.go = armed only by VERIF_* environment variables)",
  "enable": "go build -tags verif (csvq binary -> /verif/.build/csvq-verif; harness /verif/harness links /repo through a replace directive and is built with -tags verif; -race variants for C13)",
  "baseline_off_cmd": "cd /repo && GOFLAGS=-mod=mod GOPROXY=off GOSUMDB=off GOTOOLCHAIN=local go test -json -vet=off -count=1 -timeout 25m ./...",
  "source_commits": hook_shas,
  "add_only": True,
 },
 "engines": [{"name": "vcheck", "path": "/verif/harness", "serves_properties": [c for c in order if c in checks],
              "kind_free_text": "Go harness: workload generators, reference models, monitors over hooks/event logs, process and in-process drivers of the real csvq code"}],
 "checks": [],
 "not_applicable": [],
 "notes": "All checks rebuild vcheck and csvq from /repo's working tree (./check). Known findings: /verif/known_findings.json.",
}
for c in order:
    if c in checks:
        lvl, ref, text, note, tech = checks[c]
        m["checks"].append({
          "property_id": c,
          "quick_cmd": "./check %s quick" % c,
          "thorough_cmd": "./check %s thorough" % c,
          "evidence_file": "/verif/evidence/%s.json" % c,
          "replay_cmd_template": "./check %s --replay {path}" % c,
          "engine": "vcheck",
          "level_claimed": {"category": lvl, "text": text, "design_ref": ref},
          "level_note": note,
          "technique": tech,
        })
    else:
        m["not_applicable"].append({"property_id": c, "reason": na_reason})
json.dump(m, open(V + "/MANIFEST.json", "w"), indent=1)
print("checks:", [c["property_id"] for c in m["checks"]])
