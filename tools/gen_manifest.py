#!/usr/bin/env python3
# Generates /verif/MANIFEST.json from the table below (kept in one place so the
# manifest stays valid while checks are added).
import json, subprocess
V = "/verif"
checks = {
 "C01": ("fault_enumeration", "§5 C01",
   "Generated procedures are run by the real binary undisturbed and once per (top-level position x {failing statement, EXIT, EXIT n, TRIGGER ERROR, failing COMMIT}) and per (statement execution or commit step x {SIGINT, SIGTERM}) with the signal self-delivered exactly at that hook point. The expected state is observed, not modelled: the procedure dumps every table before each COMMIT and at its end; with C = commits the hook trace shows completed, the disk re-read by a fresh process must equal dump C, later-created files must not exist, the untouched file must be byte-identical, and every ROLLBACK must restore the last committed dump.",
   "Termination is enumerated at statement and commit-step granularity (finer points: C10/C11). NULL and empty text coincide in the comparison. Trusts csvq's SELECT * for the dumps (checked by C03/C05).",
   "runtime fault injection (self-delivered signals / injected failing statements at enumerated points) + observation-based state oracle"),
 "C03": ("exploration", "§5 C03",
   "Generated SELECT queries (tables, derived tables, CTEs incl. recursive and multiply-referenced ones, CROSS/INNER/LEFT/RIGHT/FULL joins with ON / USING / NATURAL, LATERAL, nested; WHERE with comparisons, logic, IS NULL, BETWEEN, IN list/subquery, EXISTS and scalar subqueries incl. correlated; select lists with *, t.*, arithmetic, CASE) are executed in-process by the real pipeline and compared with an independent nested-loop relational evaluator: bag equality of typed rows, sequence equality for single-source queries. Plus two metamorphic oracles that need no reference: ternary-logic partition over predicates with built-in functions, and the outer-join identities. Every 8th case runs the parallel filter/join paths (160..320 rows, --cpu 2..8).",
   "Judged on integer / non-numeric text / NULL cells where the coercion ladder is unambiguous. Nested joins are parenthesised explicitly (csvq's grammar groups `a CROSS JOIN b INNER JOIN c ON …` to the right, which the manual does not pin down; not judged).",
   "runtime monitor: differential check against an independent relational evaluator + metamorphic (TLP, join identities) oracles"),
 "C04": ("exploration", "§5 C04",
   "Generated tables carry a unique id per row; the buckets csvq forms are read off as id sets (LISTAGG(id) under GROUP BY and OVER (PARTITION BY), representatives for DISTINCT and the set operators) and judged pairwise against an independent three-valued equality relation (same / different / unspecified), with and without --strict-equal, on key pools that contain csvq's internal key separators split differently across columns, numbers in several spellings, datetimes, boolean words and NULLs, incl. planted tuples whose concatenations coincide; every aggregate is recomputed over the rows of its bucket. Every 8th case runs the parallel group path (200..700 rows, --cpu 2..8).",
   "Trusts the harness equality relation as a reading of the manual; pairs the manual leaves open (boolean word vs 0/1, 1 vs 1.0, one instant in two layouts, NaN) are not judged.",
   "runtime monitor: pairwise bucket-membership oracle via unique row ids + aggregate recomputation"),
 "C05": ("exploration", "§5 C05",
   "Histories of 3..12 data-changing statements (INSERT in three forms, UPDATE/DELETE single- and multi-table, REPLACE USING on unique and on duplicate-holding key columns, ALTER ADD/DROP/RENAME with every position clause) run statement by statement in one real transaction over a CSV file, a TSV file and a temporary table; after EVERY statement SELECT * of every table (cells, row order, column order) and the reported affected-row count are compared with an executable table model, and after COMMIT the reloaded files are compared. Every 6th case runs the parallel paths (160..700 rows, --cpu 2..8) twice.",
   "Generated statements write string literals, NULL or copies of cells, and predicates stay in the region where the reference ladder is specified. Unspecified forms (duplicate keys inside a replacement set, multiply-matched joined updates) are not generated.",
   "runtime monitor: executable reference model compared after every step of a history"),
 "C06": ("exploration", "§5 C06",
   "Every operator result on every ordered pair of a ~165-value pool (all value classes of the quantifier) is produced by the real evaluator, through three operand carriers, and checked online against the algebraic laws of the statement, an independent coercion ladder written from the manual, and the documented expansions on sampled triples. Exhaustive over the pool for pairs; sampled for triples.",
   "Trusts the harness reference ladder (refval.go) as a faithful reading of the manual; spellings the manual does not pin down are checked against the laws only.",
   "runtime monitor: algebraic-law and reference-model oracle over executed operator evaluations"),
 "C07": ("exploration", "§5 C07",
   "Generated tables with a unique id per row are sorted and cut by the real query pipeline (incl. the parallel path, --cpu 2..8 on 160..700 rows); an online oracle checks permutation-ness, absence of adjacent inversions under an independent comparator, equality with a reference sort for total orders, and exact LIMIT/OFFSET/PERCENT/WITH TIES arithmetic at boundary parameters.",
   "Trusts the harness comparator (numbers, datetimes, upper-cased trimmed text, NULL position defaults from the manual). Negative limits/offsets judged as 0, PERCENT>100 as 100.",
   "runtime monitor: sortedness/permutation/cut oracle over executed queries with unique row ids"),
 "C08": ("fault_enumeration", "§5 C08",
   "The complete product statement kind (10) x failure kind (7) x failing row k (5) x table state (never loaded / SELECTed / FOR UPDATE / already dirty / temporary) x size (5 rows, 200 rows with --cpu 4) is walked (3500 combinations, ~1500 valid and really failing). Each runs in one real in-process transaction: typed snapshot of every table, the failing statement, snapshot again, no file or control file left by a failed CREATE TABLE, then COMMIT and reload from disk; cancellation is injected by cancelling the statement's context at the k-th worker-hook hit.",
   "Failures are produced by the data (division by zero at row k, short VALUES row, two-row sub-query, user function TRIGGER ERROR at its k-th call, duplicate join partner, unknown field) or by the cancellation hook; combinations that do not fail are counted as trivial.",
   "runtime fault injection (data-driven failures at row k, hook-driven cancellation) + before/after state monitor"),
 "C09": ("exploration", "§5 C09",
   "(a) Stress: 12 client loops of real csvq processes run increment / FOR UPDATE / ROLLBACK / read / short-timeout transactions on one table with delays injected inside the lock protocol; offline monitors over the merged hook trace and the results check hold-interval overlap, conservation, exactly-once, timeout-changes-nothing and (porcupine) linearizability. (b) Systematic schedules: 2..3 real processes run under a step controller that serialises every hook point of acquisition, commit and release through FIFOs; two-role schedules are enumerated as bit strings over the first 14 decision points, three-role ones explored with bounded random preemption; after each step the believed-holder set must be compatible and at the end the table must reflect every committed writer.",
   "Observed schedules only: bounded decision depth, step cap and a wall-clock watchdog (firing = inconclusive). Either protection layer (lock files or flock) may exclude; only real overlaps / lost updates are judged.",
   "runtime monitors over recorded event logs (interval overlap, conservation, exactly-once, porcupine linearizability) + controlled-schedule enumeration through hook points"),
 "C10": ("fault_enumeration", "§5 C10",
   "For each generated transaction the real binary is traced once, then killed (SIGKILL to itself from a hook) at EVERY hook point reached between the start of COMMIT and process exit, each on a fresh copy of the directory; after each death every pre-existing table must exist with complete old or complete new bytes and be usable after removing the control files. Thorough adds a walk over every file-system syscall of the commit with strace kill injection.",
   "Crash = process death at hook/syscall granularity; no torn write(2), no power-loss reordering (csvq never fsyncs; the property speaks of the process dying). Old/new bytes are taken from the initial files and from an undisturbed run of the same transaction.",
   "runtime fault injection at hook points + directory/bytes monitor"),
 "C11": ("fault_enumeration", "§5 C11",
   "A tracing run lists every hook point a procedure reaches (statement starts, loads, every lock-acquisition, commit and close step of lib/file, transaction commit/rollback steps); the real binary is re-run with SIGINT/SIGTERM/SIGQUIT self-delivered exactly at each point, plus error/EXIT endings, lock timeouts against orphan lock files and against a live competing holder, and signals while waiting in the lock retry loop. A directory monitor then requires: no .lock/.rlock/.temp file, no table outside the last completed COMMIT, and for read-only procedures no change in bytes or mtime.",
   "Signal delivery is enumerated at hook-point granularity; SIGKILL is C10's. Quick samples up to 36 points per procedure (all statement starts get all three signals), thorough walks all.",
   "runtime fault injection at enumerated hook points + directory snapshot monitor"),
 "C12": ("exploration", "§5 C12",
   "The real binary executes each generated program with --cpu 1 and then with --cpu 2,3,4,8,16 twice each under seeded scheduling jitter in the worker goroutines; stdout and all files must be byte-identical. The hook trace proves that sections really ran on several goroutines and counts the distinct worker-arrival orders produced.",
   "Determinism is only observed on the schedules produced (jitter widens them; distinct arrival signatures are reported). Programs are --quiet.",
   "runtime monitor: differential execution across --cpu values/schedules with injected scheduling jitter"),
 "C13": ("exploration", "§5 C13",
   "The race-detector build (go build -race -tags verif) of the real csvq binary executes programs that split loading, filtering, joining, grouping, sorting, analytic functions, user functions, cursors and DML over 4..16 goroutines, with seeded scheduling jitter, repeated; every DATA RACE report with a csvq frame is a violation (deduplicated by the pair of top csvq frames).",
   "Only races on accesses performed in these runs are visible, and the detector keeps a bounded access history; held = no report on the executions observed.",
   "compiler sanitizer: Go race detector over stress workloads with injected scheduling jitter"),
 "C17": ("exploration", "§5 C17",
   "Generated tables (ties, NULLs, single-row and many partitions; every 8th case 200..900 rows with --cpu 2..8) and random analytic expressions (ranking functions, NTILE, LAG/LEAD with offsets/defaults/IGNORE NULLS, FIRST/LAST/NTH_VALUE with random ROWS frames and IGNORE NULLS, aggregates and a user-defined aggregate with OVER and random frames) are evaluated by the real pipeline; an independent evaluator partitions, orders and applies each definition to every row's frame; other columns and the row count must be unchanged.",
   "Unspecified corners are generated only where they cannot influence the verdict: the default frame of an ordered clause without windowing clause, the offset semantics of LAG/LEAD IGNORE NULLS beyond 1, PERCENT_RANK of a single-row partition.",
   "runtime monitor: differential check against an independent per-partition/per-frame evaluator"),
 "C14": ("exploration", "§5 C14",
   "Three monitors over real evaluations. (1) Poison-on-discard: a build-tag switch makes value.Discard overwrite the object with a sentinel and never re-issue it; every built-in function (table enumerated at run time) is called with every single and every pair of a 30-value typed operand pool (plus sampled triples) held in variables, and every result, variable, table cell and cursor row is checked for the sentinel; double discards are recorded. (2) A reflection digest of the parsed syntax tree before/after execution. (3) With the shipped recycling allocator, the same expression is evaluated repeatedly through literals, variables, table cells of a cached table, a loop, a function body, a prepared statement and a re-executed parsed statement; results must repeat and variables / the cached table / cursor rows must be unchanged. Plus statement families around cached tables (sub-queries, CTEs, COUNT(*) forms).",
   "Volatile functions (NOW, RAND, CALL, …) are excluded from the equality monitors only. Internal failures seen on the way are counted and left to C19.",
   "runtime monitors: poison-on-discard sanitizer hook, syntax-tree digest, repeat-evaluation oracle"),
 "C15": ("exploration", "§5 C15",
   "Generated procedures (nested IF/ELSEIF/CASE/WHILE blocks, shadowing and same-block re-declarations over a three-name alphabet, loops controlled by variables the body shadows, DISPOSE, use after block end, BREAK/CONTINUE/EXIT, functions with defaults, recursion and mutual calls, RETURN inside loops, block-local cursors and temporary tables) are executed by the real processor, 150+ per harness process so pooled scope objects are recycled; an independent reference interpreter with block-scoped environments must produce the same PRINT trace and the same error/no-error outcome. Every 8th case also calls a generated function from a query over 200..700 rows with --cpu 2..8 and compares every row.",
   "Function bodies only use parameters, locals and never-shadowed globals (caller-local visibility is not specified) and do not assign globals (no defined result under parallel invocation). Values are small integers.",
   "runtime monitor: differential check of execution traces against a reference interpreter"),
 "C16": ("exploration", "§5 C16",
   "Histories of 8..40 cursor operations on two cursors (DECLARE/OPEN/FETCH with every position keyword and boundary offsets/CLOSE/DISPOSE/WHILE..IN/status expressions) interleaved with DML, ALTER, COMMIT and ROLLBACK on the underlying table run statement by statement in one real transaction; a cursor model whose snapshot is taken by a SELECT at OPEN time is compared after every operation: fetched values, IS OPEN / IS IN RANGE / COUNT, rows visited by WHILE..IN and error/no-error.",
   "Variables after an out-of-range FETCH are not judged; non-integer offsets only watched for internal failures.",
   "runtime monitor: state-machine model compared after every operation of a history"),
 "C18": ("exploration", "§5 C18",
   "150 000 (quick) / 6 000 000 (thorough) program texts — random bytes, token soups from the parser's own keyword table, seeds mined at run time from the manual, parser_test.go and testdata, outputs of the C03/C05/C14/C15 generators, hostile string/identifier literals and unary-sign chains, all mutated at byte, token and slice level — are parsed in the four quoting/prepared modes. Online monitors: no panic, no hang (per-case watchdog, journalled input), syntax-error positions inside the input; every value expression of every tree that parsed is printed, re-parsed, printed again (idempotence) and, when closed, evaluated in both forms (same value).",
   "Seeded deterministic mutation, no coverage feedback. Lines are counted with CRLF, LF and lone CR as breaks (as csvq's scanner does).",
   "fuzzing with online monitors (totality, error-position, print/parse round-trip and value-preservation oracles)"),
 "C19": ("exploration", "§5 C19",
   "Three fuzzing workloads with online monitors. Loader fuzz (in-process, journalled inputs, worker sub-processes): mutated and random byte strings x format function x encoding x no_header x without_null x ALLOW_UNEVEN_FIELDS x JSON query; oracle: documented error or rectangular table. Program fuzz (in-process + sampled through the real binary): every built-in, aggregate and analytic function (tables enumerated at run time) and LIMIT/OFFSET/PERCENT/WITH TIES/frame clauses with boundary arguments, deep nesting, recursion limits. File-system states through the real binary: missing/unreadable/read-only files and directories (child run as uid 65534), directory in place of a file, removed working directory, --repository/--out pointing nowhere, ENOSPC/EIO injected into writes with strace, invalid option values. Violations: Fatal Error / panic / runtime dump, undocumented exit status, death by signal, hang (watchdog), non-rectangular table.",
   "Error texts are not judged, only exit status and internal-failure markers. A watchdog hang is reported with the worker's goroutine dump.",
   "fuzzing and fault injection (strace errno injection, permission states) with online monitors"),
}
order = ["C%02d" % i for i in range(1, 21)]
na_reason = "check not built yet in this session (work in progress; see DESIGN.md)"
hooks_commits = subprocess.run(["git", "-C", "/repo", "log", "--format=%h %s"], capture_output=True, text=True).stdout.splitlines()
hook_shas = [l.split()[0] for l in hooks_commits if "verif hooks" in l]
m = {
 "version": 1,
 "setup_cmd": "cd /verif && ./check build",
 "hooks": {
  "guard": "go build tag `verif` (package lib/verifhook: off.go = no-ops, on.go = armed only by VERIF_* environment variables)",
  "enable": "go build -tags verif (csvq binary -> /verif/.build/csvq-verif; harness /verif/harness links /repo through a replace directive and is built with -tags verif; -race variants for C13)",
  "baseline_off_cmd": "cd /repo && GOFLAGS=-mod=mod GOPROXY=off GOSUMDB=off GOTOOLCHAIN=local go test -json -vet=off -count=1 -timeout 25m ./...",
  "source_commits": hook_shas,
  "add_only": True,
 },
 "engines": [{"name": "vcheck", "path": "/verif/harness", "serves_properties": [c for c in order if c in checks],
              "kind_free_text": "Go harness: workload generators, reference models, monitors over hooks/event logs, process and in-process drivers of the real csvq code"}],
 "checks": [],
 "not_applicable": [],
 "notes": "All checks rebuild vcheck and csvq from /repo's working tree (./check). Known findings: /verif/known_findings.json.",
}
for c in order:
    if c in checks:
        lvl, ref, text, note, tech = checks[c]
        m["checks"].append({
          "property_id": c,
          "quick_cmd": "./check %s quick" % c,
          "thorough_cmd": "./check %s thorough" % c,
          "evidence_file": "/verif/evidence/%s.json" % c,
          "replay_cmd_template": "./check %s --replay {path}" % c,
          "engine": "vcheck",
          "level_claimed": {"category": lvl, "text": text, "design_ref": ref},
          "level_note": note,
          "technique": tech,
        })
    else:
        m["not_applicable"].append({"property_id": c, "reason": na_reason})
json.dump(m, open(V + "/MANIFEST.json", "w"), indent=1)
print("checks:", [c["property_id"] for c in m["checks"]])
