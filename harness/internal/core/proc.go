package core

import (
	"bytes"
	"context"
	"crypto/sha256"
	"encoding/hex"
	"fmt"
	"os"
	"os/exec"
	"path/filepath"
	"regexp"
	"sort"
	"strings"
	"syscall"
	"time"
)

var (
	CsvqBin     = filepath.Join(VerifDir, ".build", "csvq-verif")
	CsvqRaceBin = filepath.Join(VerifDir, ".build", "csvq-race")
)

func init() {
	// package-level initialisation order across files is by dependency; recompute to be safe
	CsvqBin = filepath.Join(VerifDir, ".build", "csvq-verif")
	CsvqRaceBin = filepath.Join(VerifDir, ".build", "csvq-race")
}

type ProcResult struct {
	Code     int // exit code, or -1 when signalled
	Signal   int // terminating signal, 0 if none
	Stdout   string
	Stderr   string
	TimedOut bool
	Wall     time.Duration
}

func (r ProcResult) String() string {
	return fmt.Sprintf("code=%d signal=%d timedout=%v stderr=%q", r.Code, r.Signal, r.TimedOut, truncate(r.Stderr, 300))
}

// KilledFromOutside: the child ended by a signal that neither csvq raises against itself nor this run's watchdog sent
// (SIGKILL without a timeout — the OOM killer, a foreign kill — or SIGINT / SIGQUIT / SIGTERM where the case injected none).
// Such a run says nothing about csvq: callers report it as inconclusive.
func (r ProcResult) KilledFromOutside() bool {
	switch r.Signal {
	case 9:
		return !r.TimedOut
	case 2, 3, 15:
		return true
	}
	return false
}

type ProcOpts struct {
	Bin     string
	Dir     string
	Args    []string
	Env     []string // KEY=VALUE additions
	Stdin   []byte
	Timeout time.Duration // watchdog (default 60 s)
	Prefix  []string      // e.g. strace … or setpriv …
	// HeadStdout: the child's standard output is a pipe whose reader takes HeadBytes bytes and goes away (`csvq … | head`):
	// the next write of the child meets a broken pipe (SIGPIPE / EPIPE)
	HeadStdout bool
	HeadBytes  int
}

var homeDir string

// EmptyHome returns a directory without any csvq configuration.
func EmptyHome() string {
	if homeDir == "" {
		homeDir = filepath.Join(VerifDir, ".work", "emptyhome")
		_ = os.MkdirAll(homeDir, 0755)
	}
	return homeDir
}

func BaseEnv() []string {
	return []string{"HOME=" + EmptyHome(), "PATH=/usr/local/bin:/usr/bin:/bin", "LANG=C", "TZ=UTC"}
}

// RunProc runs the real csvq binary (or another program) as a child process.
func RunProc(o ProcOpts) ProcResult {
	bin := o.Bin
	if bin == "" {
		bin = CsvqBin
	}
	to := o.Timeout
	if to == 0 {
		to = 60 * time.Second
	}
	ctx, cancel := context.WithTimeout(context.Background(), to)
	defer cancel()
	argv := append(append([]string{}, o.Prefix...), bin)
	argv = append(argv, o.Args...)
	cmd := exec.CommandContext(ctx, argv[0], argv[1:]...)
	cmd.Dir = o.Dir
	cmd.Env = append(BaseEnv(), o.Env...)
	if o.Stdin != nil {
		cmd.Stdin = bytes.NewReader(o.Stdin)
	}
	var so, se bytes.Buffer
	cmd.Stdout = &so
	cmd.Stderr = &se
	var headDone chan struct{}
	var headPW *os.File
	if o.HeadStdout {
		pr, pw, perr := os.Pipe()
		if perr == nil {
			cmd.Stdout = pw
			headDone = make(chan struct{})
			go func() {
				defer close(headDone)
				buf := make([]byte, 4096)
				left := o.HeadBytes
				for left > 0 {
					n := len(buf)
					if n > left {
						n = left
					}
					k, rerr := pr.Read(buf[:n])
					so.Write(buf[:k])
					left -= k
					if rerr != nil {
						break
					}
				}
				_ = pr.Close()
			}()
			headPW = pw
		}
	}
	cmd.SysProcAttr = &syscall.SysProcAttr{Setpgid: true}
	cmd.Cancel = func() error { return syscall.Kill(-cmd.Process.Pid, syscall.SIGKILL) }
	t0 := time.Now()
	err := cmd.Start()
	if headPW != nil {
		_ = headPW.Close() // the child holds the only write end now
	}
	if err == nil {
		err = cmd.Wait()
	}
	if headDone != nil {
		<-headDone
	}
	res := ProcResult{Stdout: so.String(), Stderr: se.String(), Wall: time.Since(t0)}
	if ctx.Err() == context.DeadlineExceeded {
		res.TimedOut = true
	}
	if err != nil {
		if ee, ok := err.(*exec.ExitError); ok {
			ws := ee.Sys().(syscall.WaitStatus)
			if ws.Signaled() {
				res.Code, res.Signal = -1, int(ws.Signal())
			} else {
				res.Code = ws.ExitStatus()
			}
		} else {
			res.Code = -2
			res.Stderr += "\n[harness] " + err.Error()
		}
	}
	return res
}

// ---- directory snapshots ----------------------------------------------------

type Entry struct {
	Name  string
	Dir   bool
	Size  int64
	Mtime int64
	Mode  uint32
	Sum   string
	Data  []byte `json:"-"`
}

type Snap map[string]Entry

func TakeSnap(dir string) Snap {
	s := Snap{}
	_ = filepath.Walk(dir, func(p string, info os.FileInfo, err error) error {
		if err != nil || p == dir {
			return nil
		}
		rel, _ := filepath.Rel(dir, p)
		e := Entry{Name: rel, Dir: info.IsDir(), Size: info.Size(), Mtime: info.ModTime().UnixNano(), Mode: uint32(info.Mode())}
		if info.Mode()&os.ModeSymlink != 0 {
			// a symbolic link is what it points to: its own time stamp is that of the copy the harness made
			e.Mtime = 0
		}
		if !info.IsDir() && info.Mode().IsRegular() {
			b, _ := os.ReadFile(p)
			h := sha256.Sum256(b)
			e.Sum = hex.EncodeToString(h[:8])
			e.Data = b
		}
		s[rel] = e
		return nil
	})
	return s
}

func (s Snap) Names() []string {
	n := make([]string, 0, len(s))
	for k := range s {
		n = append(n, k)
	}
	sort.Strings(n)
	return n
}

var controlRe = regexp.MustCompile(`^\..+\.(lock|temp|[0-9A-Za-z]{12}\.rlock)$`)

func IsControlFile(name string) bool { return controlRe.MatchString(filepath.Base(name)) }

type SnapDiff struct {
	Created, Removed, Changed, Touched []string
}

func (d SnapDiff) Empty() bool {
	return len(d.Created)+len(d.Removed)+len(d.Changed)+len(d.Touched) == 0
}

func (d SnapDiff) String() string {
	return fmt.Sprintf("created=%v removed=%v changed=%v touched=%v", d.Created, d.Removed, d.Changed, d.Touched)
}

func Diff(a, b Snap) SnapDiff {
	var d SnapDiff
	for _, n := range a.Names() {
		eb, ok := b[n]
		if !ok {
			d.Removed = append(d.Removed, n)
			continue
		}
		ea := a[n]
		if ea.Sum != eb.Sum || ea.Size != eb.Size || ea.Dir != eb.Dir {
			d.Changed = append(d.Changed, n)
		} else if ea.Mtime != eb.Mtime && !ea.Dir {
			d.Touched = append(d.Touched, n)
		}
	}
	for _, n := range b.Names() {
		if _, ok := a[n]; !ok {
			d.Created = append(d.Created, n)
		}
	}
	return d
}

// WriteFiles creates dir and writes the given files into it.
func WriteFiles(dir string, files map[string]string) {
	_ = os.MkdirAll(dir, 0755)
	for n, c := range files {
		_ = os.WriteFile(filepath.Join(dir, n), []byte(c), 0644)
	}
}

// FreshDir creates an empty directory (removing a previous one).
func FreshDir(parent, name string) string {
	d := filepath.Join(parent, name)
	_ = os.RemoveAll(d)
	_ = os.MkdirAll(d, 0755)
	return d
}

// ReadTrace parses a VERIF_TRACE file.
type TraceEv struct {
	Pid    int
	Role   string
	Seq    int64
	T      int64
	Point  string // name#hit
	Name   string
	Hit    int
	Detail string
}

func ReadTrace(path string) []TraceEv {
	b, err := os.ReadFile(path)
	if err != nil {
		return nil
	}
	var evs []TraceEv
	for _, l := range strings.Split(string(b), "\n") {
		f := strings.SplitN(l, " ", 6)
		if len(f) < 5 {
			continue
		}
		var e TraceEv
		fmt.Sscan(f[0], &e.Pid)
		e.Role = f[1]
		fmt.Sscan(f[2], &e.Seq)
		fmt.Sscan(f[3], &e.T)
		e.Point = f[4]
		if i := strings.LastIndex(f[4], "#"); i >= 0 {
			e.Name = f[4][:i]
			fmt.Sscan(f[4][i+1:], &e.Hit)
		}
		if len(f) > 5 {
			e.Detail = f[5]
		}
		evs = append(evs, e)
	}
	return evs
}
