package core

import (
	"crypto/sha256"
	"encoding/hex"
	"hash/fnv"
)

// Rng is a splitmix64 stream. Every case derives its own stream from
// (seed, property, case index) so a case is the same whatever the worker count.
type Rng struct{ s uint64 }

func NewRng(seed uint64) *Rng { return &Rng{s: seed} }

func Derive(seed uint64, label string, idx int) *Rng {
	h := fnv.New64a()
	_, _ = h.Write([]byte(label))
	x := h.Sum64() ^ (seed * 0x9e3779b97f4a7c15) ^ (uint64(idx)+1)*0xbf58476d1ce4e5b9
	r := &Rng{s: x}
	r.U64()
	r.U64()
	return r
}

func (r *Rng) U64() uint64 {
	r.s += 0x9e3779b97f4a7c15
	x := r.s
	x = (x ^ (x >> 30)) * 0xbf58476d1ce4e5b9
	x = (x ^ (x >> 27)) * 0x94d049bb133111eb
	return x ^ (x >> 31)
}

// Intn returns a value in [0,n).
func (r *Rng) Intn(n int) int {
	if n <= 1 {
		return 0
	}
	return int(r.U64() % uint64(n))
}

// Range returns a value in [lo,hi].
func (r *Rng) Range(lo, hi int) int {
	if hi <= lo {
		return lo
	}
	return lo + r.Intn(hi-lo+1)
}

func (r *Rng) Bool() bool { return r.U64()&1 == 1 }

// P returns true with probability pct/100.
func (r *Rng) P(pct int) bool { return r.Intn(100) < pct }

func (r *Rng) Pick(xs []string) string { return xs[r.Intn(len(xs))] }

func (r *Rng) PickInt(xs []int) int { return xs[r.Intn(len(xs))] }

func (r *Rng) Float() float64 { return float64(r.U64()>>11) / float64(1<<53) }

func (r *Rng) Perm(n int) []int {
	p := make([]int, n)
	for i := range p {
		p[i] = i
	}
	for i := n - 1; i > 0; i-- {
		j := r.Intn(i + 1)
		p[i], p[j] = p[j], p[i]
	}
	return p
}

func Digest(parts ...string) string {
	h := sha256.New()
	for _, p := range parts {
		_, _ = h.Write([]byte(p))
		_, _ = h.Write([]byte{0})
	}
	return hex.EncodeToString(h.Sum(nil))[:16]
}
