package core

import (
	"bufio"
	"encoding/json"
	"fmt"
	"os"
	"os/exec"
	"path/filepath"
	"regexp"
	"runtime"
	"sort"
	"strconv"
	"strings"
	"sync"
	"sync/atomic"
	"syscall"
	"time"
)

var VerifDir = func() string {
	if d := os.Getenv("VERIF_DIR"); d != "" {
		return d
	}
	return "/verif"
}()

// Spec describes one property check.
type Spec struct {
	ID       string
	Level    string // exploration | fault_enumeration
	Rule     string
	Quick    int // number of cases per tier (fixed counts, never time budgets)
	Thorough int
	Workers  int // worker sub-processes (default 16)
	// Floor is the minimum number of distinct non-trivial cases a run must
	// reach; below it the run is reported as broken (exit 3), not as held.
	FloorQuick    int
	FloorThorough int
	CaseTimeout   time.Duration // per case watchdog inside the worker (default 120 s)
	HangIsViol    bool          // a reproducible hang is a violation of this property (C18/C19)
	Assumptions   []string
	Fn            func(w *Worker, i int) // executes case i
	Setup         func(w *Worker)        // once per worker process
	Post          func(p *Parent)        // once in the parent after all workers (may add observations)
	Exhaustive    bool
}

var specs = map[string]*Spec{}

func Register(s *Spec) { specs[s.ID] = s }

type rec struct {
	K       string          `json:"k"` // begin | case | viol | sample | count | incon | note
	I       int             `json:"i,omitempty"`
	Digest  string          `json:"d,omitempty"`
	Nontriv bool            `json:"n,omitempty"`
	Sig     string          `json:"sig,omitempty"`
	What    string          `json:"what,omitempty"`
	Key     string          `json:"key,omitempty"`
	N       int64           `json:"cnt,omitempty"`
	Data    json.RawMessage `json:"data,omitempty"`
}

// Worker is the API a check uses while executing cases.
type Worker struct {
	Spec    *Spec
	Tier    string
	Seed    uint64
	Index   int
	Of      int
	Work    string // private scratch directory (removed by the parent)
	out     *bufio.Writer
	outf    *os.File
	mu      sync.Mutex
	cur     int
	samples int
	timer   *time.Timer
	step    *time.Timer
	Replay  bool
}

// Step arms a finer watchdog for one step of the current case (one program of a batch): work that needs milliseconds
// and is still running after d ends the worker like the case watchdog does (exit 97), with the step's label on the
// first line of the dump so that the report names the step. d == 0 disarms it. The verdict never depends on how long a
// step took, only on whether it ended at all within a bound three orders of magnitude above its need.
func (w *Worker) Step(d time.Duration, label string) {
	if w.step != nil {
		w.step.Stop()
		w.step = nil
	}
	if d == 0 {
		return
	}
	i := w.cur
	w.step = time.AfterFunc(d, func() {
		buf := make([]byte, 1<<20)
		n := runtime.Stack(buf, true)
		if len(label) > 600 {
			label = label[:600]
		}
		fmt.Fprintf(os.Stderr, "WATCHDOG case %d: a step was still running after %v: %s\n%s\n", i, d, strings.ReplaceAll(label, "\n", " "), buf[:n])
		os.Exit(97)
	})
}

func (w *Worker) emit(r rec) {
	b, _ := json.Marshal(r)
	w.mu.Lock()
	_, _ = w.out.Write(b)
	_ = w.out.WriteByte('\n')
	_ = w.out.Flush()
	w.mu.Unlock()
}

// Rng returns the deterministic stream of case i (optionally a named sub-stream).
func (w *Worker) Rng(i int, sub string) *Rng { return Derive(w.Seed, w.Spec.ID+"/"+sub, i) }

// Case records that case evaluation finished: digest identifies the case
// content, nontrivial tells whether it met the property's non-triviality rule.
func (w *Worker) Case(digest string, nontrivial bool) {
	w.emit(rec{K: "case", I: w.cur, Digest: digest, Nontriv: nontrivial})
}

// Violation records a violation. sig is the signature matched against
// known_findings.json; replay is everything needed to re-execute the case.
func (w *Worker) Violation(sig, what string, replay interface{}) {
	b, _ := json.Marshal(replay)
	w.emit(rec{K: "viol", I: w.cur, Sig: sig, What: what, Data: b})
	if w.Replay {
		fmt.Printf("  -> violation sig=%s: %s\n", sig, what)
	}
}

func (w *Worker) Inconclusive(what string) { w.emit(rec{K: "incon", I: w.cur, What: what}) }

// Sample records an actual case for the evidence file (only the first few per worker are kept).
func (w *Worker) Sample(v interface{}) {
	if w.samples >= 3 {
		return
	}
	w.samples++
	b, _ := json.Marshal(v)
	w.emit(rec{K: "sample", I: w.cur, Data: b})
}

// Count adds n to a named observation counter (hook hits, parallel sections, …).
func (w *Worker) Count(key string, n int64) {
	if n != 0 {
		w.emit(rec{K: "count", Key: key, N: n})
	}
}

// Note adds a distinct observed item to a named set (interleaving signatures, crash points, …).
func (w *Worker) Note(key, item string) { w.emit(rec{K: "note", Key: key, What: item}) }

func (w *Worker) begin(i int) {
	w.cur = i
	w.emit(rec{K: "begin", I: i})
	if w.timer != nil {
		w.timer.Stop()
	}
	w.Step(0, "")
	d := w.Spec.CaseTimeout
	if d == 0 {
		d = 120 * time.Second
	}
	w.timer = time.AfterFunc(d, func() {
		buf := make([]byte, 1<<20)
		n := runtime.Stack(buf, true)
		fmt.Fprintf(os.Stderr, "WATCHDOG case %d exceeded %v\n%s\n", i, d, buf[:n])
		os.Exit(97)
	})
}

// ---- parent ---------------------------------------------------------------

type Finding struct {
	Status    string `json:"status"`
	Property  string `json:"property"`
	Signature string `json:"signature,omitempty"`
	What      string `json:"what"`
	Witness   string `json:"witness,omitempty"`
	Commit    string `json:"commit,omitempty"`
}

type Parent struct {
	Spec     *Spec
	Tier     string
	Seed     uint64
	Cases    int
	digests  map[string]bool
	evals    int
	viols    []rec
	incon    []string
	samples  []json.RawMessage
	Counts   map[string]int64
	Notes    map[string]map[string]bool
	Extra    map[string]interface{}
	known    []Finding
	knownHit map[int]int
	nviol    int
	start    time.Time
	slowMs   int64
	slowCase int
}

func tierCases(s *Spec, tier string) int {
	if v := os.Getenv("VERIF_CASES"); v != "" {
		if n, err := strconv.Atoi(v); err == nil {
			return n
		}
	}
	if tier == "thorough" {
		return s.Thorough
	}
	return s.Quick
}

func SeedFromEnv() uint64 {
	if v := os.Getenv("VERIF_SEED"); v != "" {
		if n, err := strconv.ParseInt(v, 10, 64); err == nil {
			return uint64(n)
		}
	}
	return 1
}

// Main is the entry point of vcheck.
func Main(args []string) int {
	if len(args) < 2 {
		fmt.Fprintln(os.Stderr, "usage: vcheck <ID> <quick|thorough> | vcheck <ID> --replay <file> | vcheck <ID> --worker ...")
		return 2
	}
	id := args[0]
	s, ok := specs[id]
	if !ok {
		fmt.Fprintf(os.Stderr, "unknown property %s\n", id)
		return 2
	}
	switch args[1] {
	case "--worker":
		return workerMain(s, args[2:])
	case "--replay":
		return replayMain(s, args[2])
	}
	return parentMain(s, args[1])
}

func workerMain(s *Spec, a []string) int {
	// a: tier seed index of from outfile workdir
	tier := a[0]
	seed, _ := strconv.ParseUint(a[1], 10, 64)
	idx, _ := strconv.Atoi(a[2])
	of, _ := strconv.Atoi(a[3])
	from, _ := strconv.Atoi(a[4])
	total, _ := strconv.Atoi(a[5])
	f, err := os.OpenFile(a[6], os.O_WRONLY|os.O_APPEND|os.O_CREATE, 0644)
	if err != nil {
		fmt.Fprintln(os.Stderr, err)
		return 2
	}
	w := &Worker{Spec: s, Tier: tier, Seed: seed, Index: idx, Of: of, Work: a[7], outf: f, out: bufio.NewWriter(f)}
	_ = os.MkdirAll(w.Work, 0755)
	if s.Setup != nil {
		s.Setup(w)
	}
	for i := from; i < total; i++ {
		if i%of != idx {
			continue
		}
		w.begin(i)
		t0 := time.Now()
		s.Fn(w, i)
		w.emit(rec{K: "end", I: i, N: time.Since(t0).Milliseconds()})
	}
	if w.timer != nil {
		w.timer.Stop()
	}
	return 0
}

func replayMain(s *Spec, path string) int {
	b, err := os.ReadFile(path)
	if err != nil {
		fmt.Fprintln(os.Stderr, err)
		return 2
	}
	var rp struct {
		Property string          `json:"property"`
		Tier     string          `json:"tier"`
		Seed     uint64          `json:"seed"`
		Case     int             `json:"case"`
		Sig      string          `json:"signature"`
		What     string          `json:"what"`
		Replay   json.RawMessage `json:"replay"`
	}
	if err := json.Unmarshal(b, &rp); err != nil {
		fmt.Fprintln(os.Stderr, err)
		return 2
	}
	fmt.Printf("replaying %s case %d (tier %s, seed %d): recorded %s: %s\n", rp.Property, rp.Case, rp.Tier, rp.Seed, rp.Sig, rp.What)
	work, _ := os.MkdirTemp(filepath.Join(VerifDir, ".work"), "replay-")
	defer os.RemoveAll(work)
	of, _ := os.CreateTemp(work, "out")
	w := &Worker{Spec: s, Tier: rp.Tier, Seed: rp.Seed, Index: 0, Of: 1, Work: work, outf: of, out: bufio.NewWriter(of), Replay: true}
	if s.Setup != nil {
		s.Setup(w)
	}
	w.begin(rp.Case)
	s.Fn(w, rp.Case)
	w.timer.Stop()
	fmt.Println("replay finished")
	return 0
}

func loadFindings() []Finding {
	var doc struct {
		Findings []Finding `json:"findings"`
	}
	b, err := os.ReadFile(filepath.Join(VerifDir, "known_findings.json"))
	if err != nil {
		return nil
	}
	if err := json.Unmarshal(b, &doc); err != nil {
		fmt.Fprintln(os.Stderr, "known_findings.json:", err)
		return nil
	}
	return doc.Findings
}

func parentMain(s *Spec, tier string) int {
	if tier != "quick" && tier != "thorough" {
		fmt.Fprintln(os.Stderr, "tier must be quick or thorough")
		return 2
	}
	p := &Parent{Spec: s, Tier: tier, Seed: SeedFromEnv(), digests: map[string]bool{}, Counts: map[string]int64{},
		Notes: map[string]map[string]bool{}, Extra: map[string]interface{}{}, knownHit: map[int]int{}, start: time.Now()}
	p.Cases = tierCases(s, tier)
	p.known = loadFindings()
	workRoot := filepath.Join(VerifDir, ".work")
	_ = os.MkdirAll(workRoot, 0755)
	work, err := os.MkdirTemp(workRoot, s.ID+"-")
	if err != nil {
		fmt.Fprintln(os.Stderr, err)
		return 2
	}
	defer os.RemoveAll(work)

	nw := s.Workers
	if nw == 0 {
		nw = 16
	}
	if v := os.Getenv("VERIF_WORKERS"); v != "" {
		if n, err := strconv.Atoi(v); err == nil && n > 0 {
			nw = n
		}
	}
	if nw > p.Cases {
		nw = p.Cases
	}
	if nw < 1 {
		nw = 1
	}
	self, _ := os.Executable()
	var wg sync.WaitGroup
	var mu sync.Mutex
	// hangs are expensive (each one costs a whole watchdog period): once a run has seen hangBudget of them it is a
	// violation anyway, and a worker that hangs again is not started another time — the cases it would still have run
	// are counted as not evaluated
	const hangBudget = 4
	var hangs int32
	for k := 0; k < nw; k++ {
		wg.Add(1)
		go func(k int) {
			defer wg.Done()
			out := filepath.Join(work, fmt.Sprintf("w%d.jsonl", k))
			from := 0
			for attempt := 0; attempt < 50; attempt++ {
				errPath := filepath.Join(work, fmt.Sprintf("w%d.%d.stderr", k, attempt))
				ef, _ := os.Create(errPath)
				cmd := exec.Command(self, s.ID, "--worker", tier, strconv.FormatUint(p.Seed, 10), strconv.Itoa(k), strconv.Itoa(nw),
					strconv.Itoa(from), strconv.Itoa(p.Cases), out, filepath.Join(work, fmt.Sprintf("wd%d", k)))
				cmd.Stdout = ef
				cmd.Stderr = ef
				cmd.Env = append(os.Environ(), "VERIF_WORKER=1")
				err := cmd.Run()
				ef.Close()
				if err == nil {
					return
				}
				// the worker died: find the case it was executing
				last, ended := lastBegun(out)
				eb, _ := os.ReadFile(errPath)
				tail := string(eb)
				if len(tail) > 6000 {
					tail = tail[:3000] + "\n...\n" + tail[len(tail)-3000:]
				}
				code := -1
				if ee, ok := err.(*exec.ExitError); ok {
					code = ee.ExitCode()
					if ws, ok := ee.Sys().(syscall.WaitStatus); ok && ws.Signaled() {
						code = 128 + int(ws.Signal())
					}
				}
				if last < 0 || ended {
					mu.Lock()
					p.incon = append(p.incon, fmt.Sprintf("worker %d died (code %d) outside a case: %s", k, code, firstLines(tail, 5)))
					mu.Unlock()
					return
				}
				f, _ := os.OpenFile(out, os.O_WRONLY|os.O_APPEND, 0644)
				enc := json.NewEncoder(f)
				if code == 97 && !s.HangIsViol {
					_ = enc.Encode(rec{K: "incon", I: last, What: "case watchdog fired (hang?)"})
				} else if code == 128+9 {
					// SIGKILL is sent by nothing in the harness (its own watchdog ends a worker with exit 97): the kernel's
					// out-of-memory killer or somebody outside ended the worker — that says nothing about the case
					_ = enc.Encode(rec{K: "incon", I: last, What: "the harness worker was ended by SIGKILL from outside (out of memory?) while executing this case"})
				} else {
					sig := "worker-crash:" + crashSig(tail)
					if code == 97 {
						sig = "hang"
					}
					rb, _ := json.Marshal(map[string]interface{}{"exit": code, "stderr": tail})
					_ = enc.Encode(rec{K: "viol", I: last, Sig: sig, What: "the harness worker process died while executing this case: " + firstLines(tail, 3), Data: rb})
				}
				f.Close()
				from = last + 1
				if code == 97 && s.HangIsViol && atomic.AddInt32(&hangs, 1) >= hangBudget {
					mu.Lock()
					p.Counts["workers_not_restarted_after_the_hang_budget"]++
					mu.Unlock()
					return
				}
			}
		}(k)
	}
	wg.Wait()

	// merge
	for k := 0; k < nw; k++ {
		f, err := os.Open(filepath.Join(work, fmt.Sprintf("w%d.jsonl", k)))
		if err != nil {
			continue
		}
		sc := bufio.NewScanner(f)
		sc.Buffer(make([]byte, 1<<20), 1<<28)
		for sc.Scan() {
			var r rec
			if json.Unmarshal(sc.Bytes(), &r) != nil {
				continue
			}
			switch r.K {
			case "case":
				p.evals++
				if r.Nontriv {
					p.digests[r.Digest] = true
				}
			case "viol":
				p.viols = append(p.viols, r)
			case "incon":
				p.incon = append(p.incon, fmt.Sprintf("case %d: %s", r.I, r.What))
			case "sample":
				if len(p.samples) < 6 {
					p.samples = append(p.samples, r.Data)
				}
			case "end":
				if r.N > p.slowMs {
					p.slowMs, p.slowCase = r.N, r.I
				}
			case "count":
				p.Counts[r.Key] += r.N
			case "note":
				if p.Notes[r.Key] == nil {
					p.Notes[r.Key] = map[string]bool{}
				}
				p.Notes[r.Key][r.What] = true
			}
		}
		f.Close()
	}
	if s.Post != nil {
		s.Post(p)
	}
	return p.finish()
}

func lastBegun(path string) (int, bool) {
	f, err := os.Open(path)
	if err != nil {
		return -1, false
	}
	defer f.Close()
	sc := bufio.NewScanner(f)
	sc.Buffer(make([]byte, 1<<20), 1<<28)
	last, ended := -1, false
	for sc.Scan() {
		var r rec
		if json.Unmarshal(sc.Bytes(), &r) != nil {
			continue
		}
		if r.K == "begin" {
			last, ended = r.I, false
		} else if r.K == "end" {
			ended = true
		}
	}
	return last, ended
}

func firstLines(s string, n int) string {
	ls := strings.Split(strings.TrimSpace(s), "\n")
	if len(ls) > n {
		ls = ls[:n]
	}
	return strings.Join(ls, " | ")
}

var frameRe = regexp.MustCompile(`github.com/mithrandie/csvq/lib/[A-Za-z0-9_/]+\.[A-Za-z0-9_.()*]+`)

// crashSig reduces a Go crash dump to its headline and first csvq frame.
func crashSig(dump string) string {
	head := ""
	for _, l := range strings.Split(dump, "\n") {
		if strings.HasPrefix(l, "panic:") || strings.HasPrefix(l, "fatal error:") {
			head = l
			break
		}
	}
	fr := frameRe.FindString(dump)
	if len(head) > 120 {
		head = head[:120]
	}
	return head + "@" + fr
}

// AddViolation lets a Post function report a violation found on merged data.
func (p *Parent) AddViolation(sig, what string, replay interface{}) {
	b, _ := json.Marshal(replay)
	p.viols = append(p.viols, rec{K: "viol", I: -1, Sig: sig, What: what, Data: b})
}

func (p *Parent) AddInconclusive(what string) { p.incon = append(p.incon, what) }
func (p *Parent) AddSample(v interface{}) {
	b, _ := json.Marshal(v)
	p.samples = append(p.samples, b)
}
func (p *Parent) AddCase(digest string, nontrivial bool) {
	p.evals++
	if nontrivial {
		p.digests[digest] = true
	}
}

func (p *Parent) finish() int {
	s := p.Spec
	id := s.ID
	sort.SliceStable(p.viols, func(a, b int) bool { return p.viols[a].I < p.viols[b].I })
	printed := 0
	knownPrinted := map[int]bool{}
	knownCount := 0
	sigSeen := map[string]int{}
	for _, v := range p.viols {
		matched := -1
		for fi, f := range p.known {
			if f.Status != "known" || f.Property != id {
				continue
			}
			if re, err := regexp.Compile(f.Signature); err == nil && re.MatchString(v.Sig) {
				matched = fi
				break
			}
		}
		if matched >= 0 {
			knownCount++
			if !knownPrinted[matched] {
				knownPrinted[matched] = true
				fmt.Printf("KNOWN-FINDING: property=%s %s\n", id, p.known[matched].What)
			}
			continue
		}
		p.nviol++
		sigSeen[v.Sig]++
		if sigSeen[v.Sig] > 3 || printed >= 25 {
			continue
		}
		printed++
		doc := map[string]interface{}{"property": id, "tier": p.Tier, "seed": p.Seed, "case": v.I, "signature": v.Sig, "what": v.What, "replay": v.Data}
		b, _ := json.MarshalIndent(doc, "", " ")
		dir := filepath.Join(VerifDir, "replays", id)
		_ = os.MkdirAll(dir, 0755)
		path := filepath.Join(dir, Digest(string(b))+".json")
		_ = os.WriteFile(path, b, 0644)
		fmt.Printf("VIOLATION property=%s replay=%s\n", id, path)
		fmt.Printf("  signature: %s\n  what: %s\n", v.Sig, truncate(v.What, 600))
	}
	if p.nviol > printed {
		fmt.Printf("  (%d further violations not printed; distinct signatures: %d)\n", p.nviol-printed, len(sigSeen))
	}
	if len(sigSeen) > 1 {
		for sg, n := range sigSeen {
			fmt.Printf("  violations with signature %q: %d\n", sg, n)
		}
	}
	for i, m := range p.incon {
		if i < 10 {
			fmt.Printf("INCONCLUSIVE property=%s %s\n", id, truncate(m, 400))
		}
	}
	floor := s.FloorQuick
	if p.Tier == "thorough" {
		floor = s.FloorThorough
	}
	if os.Getenv("VERIF_CASES") != "" {
		floor = 0
	}
	if floor < 2 {
		floor = 2
	}
	nt := len(p.digests)
	cov := map[string]interface{}{
		"evaluations":         p.evals,
		"distinct_nontrivial": nt,
		"rule":                s.Rule,
		"samples":             p.samples,
		"inconclusive":        len(p.incon),
		"known_finding_hits":  knownCount,
		"observations":        p.Counts,
	}
	if s.Exhaustive {
		cov["exhaustive"] = true
	}
	for k, set := range p.Notes {
		items := make([]string, 0, len(set))
		for it := range set {
			items = append(items, it)
		}
		sort.Strings(items)
		cov["distinct_"+k] = len(items)
		if len(items) > 40 {
			items = items[:40]
		}
		cov[k] = items
	}
	for k, v := range p.Extra {
		cov[k] = v
	}
	if len(p.samples) == 0 {
		cov["samples"] = []string{"(no sample recorded)"}
	}
	ev := map[string]interface{}{
		"property_id": id,
		"tier":        p.Tier,
		"seed":        int64(p.Seed),
		"level":       s.Level,
		"coverage":    cov,
		"assumptions": s.Assumptions,
		"wall_s":      time.Since(p.start).Seconds(),
		"violations":  p.nviol,
	}
	b, _ := json.MarshalIndent(ev, "", " ")
	_ = os.MkdirAll(filepath.Join(VerifDir, "evidence"), 0755)
	_ = os.WriteFile(filepath.Join(VerifDir, "evidence", id+".json"), b, 0644)

	fmt.Printf("%s %s seed=%d: evaluations=%d distinct_nontrivial=%d violations=%d known=%d inconclusive=%d wall=%.1fs\n",
		id, p.Tier, p.Seed, p.evals, nt, p.nviol, knownCount, len(p.incon), time.Since(p.start).Seconds())
	fmt.Printf("  slowest case: #%d (%d ms)\n", p.slowCase, p.slowMs)
	keys := make([]string, 0, len(p.Counts))
	for k := range p.Counts {
		keys = append(keys, k)
	}
	sort.Strings(keys)
	for _, k := range keys {
		fmt.Printf("  observed %s=%d\n", k, p.Counts[k])
	}
	for k, set := range p.Notes {
		fmt.Printf("  observed distinct %s=%d\n", k, len(set))
	}
	if p.nviol > 0 {
		return 1
	}
	if nt < floor {
		fmt.Printf("BROKEN-CHECK property=%s only %d distinct non-trivial cases (floor %d): the run observed too little to decide anything\n", id, nt, floor)
		return 3
	}
	if p.evals > 0 && len(p.incon)*100 > p.evals*2 && len(p.incon) > 3 {
		fmt.Printf("BROKEN-CHECK property=%s too many inconclusive cases (%d of %d)\n", id, len(p.incon), p.evals)
		return 3
	}
	return 0
}

func truncate(s string, n int) string {
	if len(s) > n {
		return s[:n] + "…"
	}
	return s
}

// Parallel runs fn(0..n-1) on up to workers goroutines.
func Parallel(n, workers int, fn func(i int)) {
	if workers < 1 {
		workers = 1
	}
	ch := make(chan int)
	var wg sync.WaitGroup
	for k := 0; k < workers; k++ {
		wg.Add(1)
		go func() {
			defer wg.Done()
			for i := range ch {
				fn(i)
			}
		}()
	}
	for i := 0; i < n; i++ {
		ch <- i
	}
	close(ch)
	wg.Wait()
}
