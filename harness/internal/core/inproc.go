package core

import (
	"context"
	"fmt"
	"math"
	"os"
	"strconv"
	"strings"
	"time"

	"github.com/mithrandie/csvq/lib/file"
	"github.com/mithrandie/csvq/lib/option"
	"github.com/mithrandie/csvq/lib/parser"
	"github.com/mithrandie/csvq/lib/query"
	"github.com/mithrandie/csvq/lib/value"
)

// Val is a typed cell value as observed from csvq: T is one of
// N(ull) S(tring) I(nteger) F(loat) B(oolean) T(ernary) D(atetime).
type Val struct {
	T byte
	S string
}

func (v Val) String() string { return string(v.T) + ":" + v.S }

func (v Val) IsNull() bool { return v.T == 'N' }

func FromPrimary(p value.Primary) Val {
	switch x := p.(type) {
	case *value.String:
		return Val{'S', x.Raw()}
	case *value.Integer:
		return Val{'I', strconv.FormatInt(x.Raw(), 10)}
	case *value.Float:
		if math.Float64bits(x.Raw()) == 0x7ff8000005ca1ab1 {
			return Val{'F', "POISON"} // sentinel written by the poison-on-discard hook
		}
		return Val{'F', FloatText(x.Raw())}
	case *value.Boolean:
		return Val{'B', strconv.FormatBool(x.Raw())}
	case *value.Ternary:
		return Val{'T', x.Ternary().String()}
	case *value.Datetime:
		return Val{'D', x.Raw().Format(time.RFC3339Nano)}
	case *value.Null:
		return Val{'N', ""}
	}
	if p == nil {
		return Val{'?', "<nil>"}
	}
	return Val{'?', fmt.Sprintf("%T", p)}
}

func FloatText(f float64) string {
	if math.IsNaN(f) {
		return "NaN"
	}
	return strconv.FormatFloat(f, 'g', -1, 64)
}

type Table struct {
	Header []string
	Rows   [][]Val
}

func (t *Table) String() string {
	var sb strings.Builder
	sb.WriteString(strings.Join(t.Header, ","))
	sb.WriteString("\n")
	for _, r := range t.Rows {
		for j, c := range r {
			if j > 0 {
				sb.WriteString(",")
			}
			sb.WriteString(c.String())
		}
		sb.WriteString("\n")
	}
	return sb.String()
}

func FromView(v *query.View) *Table {
	t := &Table{}
	for _, h := range v.Header {
		t.Header = append(t.Header, h.Column)
	}
	for _, r := range v.RecordSet {
		row := make([]Val, len(r))
		for j, c := range r {
			if len(c) == 0 {
				row[j] = Val{'?', "<empty cell>"}
			} else {
				row[j] = FromPrimary(c[0])
			}
		}
		t.Rows = append(t.Rows, row)
	}
	return t
}

// Sess drives lib/query in-process exactly like the CLI does, one Execute per call.
type Sess struct {
	Tx     *query.Transaction
	Proc   *query.Processor
	Out    *query.Output
	ErrOut *query.Output
	Ctx    context.Context
	Cancel context.CancelFunc
}

type SessOpts struct {
	Dir         string
	CPU         int
	StrictEqual bool
	AnsiQuotes  bool
	WaitTimeout float64
	Stdin       string
	AutoCommit  bool
	Quiet       bool
}

func NewSess(o SessOpts) (*Sess, error) {
	ctx, cancel := context.WithCancel(context.Background())
	sess := query.NewSession()
	out, eout := query.NewOutput(), query.NewOutput()
	sess.SetStdout(out)
	sess.SetStderr(eout)
	if o.Stdin != "" {
		_ = sess.SetStdin(query.NewInput(strings.NewReader(o.Stdin)))
	}
	tx, err := query.NewTransaction(ctx, file.DefaultWaitTimeout, file.DefaultRetryDelay, sess)
	if err != nil {
		cancel()
		return nil, err
	}
	if o.Dir != "" {
		if err := tx.SetFlag(option.RepositoryFlag, o.Dir); err != nil {
			cancel()
			return nil, err
		}
	}
	_ = tx.SetFlag(option.TimezoneFlag, "UTC")
	cpu := o.CPU
	if cpu < 1 {
		cpu = 1
	}
	_ = tx.SetFlag(option.CPUFlag, int64(cpu))
	_ = tx.SetFlag(option.StrictEqualFlag, o.StrictEqual)
	_ = tx.SetFlag(option.AnsiQuotesFlag, o.AnsiQuotes)
	_ = tx.SetFlag(option.QuietFlag, o.Quiet)
	if o.WaitTimeout > 0 {
		_ = tx.SetFlag(option.WaitTimeoutFlag, o.WaitTimeout)
	}
	tx.AutoCommit = o.AutoCommit
	proc := query.NewProcessor(tx)
	return &Sess{Tx: tx, Proc: proc, Out: out, ErrOut: eout, Ctx: ctx, Cancel: cancel}, nil
}

type ExecResult struct {
	Views    []*Table
	Affected int
	Err      error
	Code     int // csvq exit code of the error (0 when none)
	ErrNum   int
	Flow     query.StatementFlow
	Stdout   string
	SynErr   bool
	Panic    string
}

// Exec parses and executes a program text; selected views are returned typed.
func (s *Sess) Exec(sql string) (res ExecResult) {
	defer func() {
		if r := recover(); r != nil {
			res.Panic = fmt.Sprint(r)
			res.Err = fmt.Errorf("panic: %v", r)
			res.Code = -1
		}
	}()
	stmts, _, err := parser.Parse(sql, "", false, s.Tx.Flags.AnsiQuotes)
	if err != nil {
		res.Err = err
		res.SynErr = true
		res.Code = query.ReturnCodeSyntaxError
		return
	}
	return s.ExecStmts(stmts)
}

// ExecCtx is Exec with a caller-supplied context (e.g. one that a monitor cancels at a hook point).
func (s *Sess) ExecCtx(ctx context.Context, sql string) (res ExecResult) {
	old := s.Ctx
	s.Ctx = ctx
	defer func() { s.Ctx = old }()
	return s.Exec(sql)
}

func (s *Sess) ExecStmts(stmts []parser.Statement) (res ExecResult) {
	defer func() {
		if r := recover(); r != nil {
			res.Panic = fmt.Sprint(r)
			res.Err = fmt.Errorf("panic: %v", r)
			res.Code = -1
		}
	}()
	s.Out.Reset()
	flow, err := s.Proc.Execute(query.ContextForStoringResults(s.Ctx), stmts)
	res.Flow = flow
	res.Err = err
	res.Stdout = s.Out.String()
	if err != nil {
		res.Code = 1
		if qe, ok := err.(query.Error); ok {
			res.Code = qe.Code()
			res.ErrNum = qe.Number()
		}
		if fe, ok := err.(*query.ForcedExit); ok {
			res.Code = fe.Code()
		}
	}
	for _, v := range s.Tx.SelectedViews {
		res.Views = append(res.Views, FromView(v))
	}
	res.Affected = s.Tx.AffectedRows
	return
}

// Close rolls back and releases everything, like the CLI's deferred cleanup.
func (s *Sess) Close() {
	defer func() { _ = recover() }()
	_ = s.Proc.AutoRollback()
	_ = s.Proc.ReleaseResourcesWithErrors()
	s.Cancel()
}

// IsFatal reports whether an error is csvq's "internal failure" symptom.
func IsFatal(err error) bool {
	if err == nil {
		return false
	}
	m := err.Error()
	return strings.Contains(m, "Fatal Error") || strings.HasPrefix(m, "panic:")
}

// HermeticProcess prepares the worker process for in-process csvq use.
func HermeticProcess(dir string) {
	_ = os.Setenv("HOME", EmptyHome())
	_ = os.Setenv("TZ", "UTC")
	_ = os.MkdirAll(dir, 0755)
	_ = os.Chdir(dir)
}

// ---- SQL / file literals -----------------------------------------------------

// SQLStr quotes s as a csvq string literal.
func SQLStr(s string) string {
	r := strings.NewReplacer(`\`, `\\`, `'`, `\'`, "\n", `\n`, "\r", `\r`, "\t", `\t`, "\x00", `\0`)
	return "'" + r.Replace(s) + "'"
}

// CSVField encodes a cell for an RFC-4180 file; nil → empty unquoted (NULL).
func CSVField(s *string) string {
	if s == nil {
		return ""
	}
	return `"` + strings.ReplaceAll(*s, `"`, `""`) + `"`
}

// CSVFile renders header+rows; rows hold pointers (nil = NULL).
func CSVFile(header []string, rows [][]*string) string {
	var sb strings.Builder
	sb.WriteString(strings.Join(header, ","))
	sb.WriteString("\n")
	for _, r := range rows {
		for j, c := range r {
			if j > 0 {
				sb.WriteString(",")
			}
			sb.WriteString(CSVField(c))
		}
		sb.WriteString("\n")
	}
	return sb.String()
}

func Sp(s string) *string { return &s }
