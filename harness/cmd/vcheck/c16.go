package main

import (
	"fmt"
	"math"
	"strconv"
	"strings"

	"verif/internal/core"
)

func init() {
	core.Register(&core.Spec{
		ID: "C16", Level: "exploration",
		Rule: "one case = one history of 8..40 cursor operations on two cursors (DECLARE, OPEN, FETCH NEXT/PRIOR/FIRST/LAST/ABSOLUTE n/RELATIVE n with n in {0,±1,±len,±(len+1),10^12, the largest and the smallest integer}, CLOSE, DISPOSE, WHILE..IN, the status expressions IS [NOT] OPEN / IS [NOT] IN RANGE / COUNT) interleaved with INSERT/UPDATE/DELETE/ALTER on the underlying table, COMMIT and ROLLBACK, executed statement by statement in one real transaction; result sizes 0,1,2,7 and 300. " +
			"Oracle: a cursor model (declared, open, snapshot rows taken by a SELECT of the same query at OPEN time, pointer clamped to [-1,len], fetched flag); fetched values, status values, the rows visited by WHILE..IN and whether an operation is an error are compared after every operation. non-trivial = at least 3 in-range fetches were compared after the underlying table had changed; distinct = history digest.",
		Quick: 8000, Thorough: 500000, FloorQuick: 600, FloorThorough: 40000,
		Assumptions: []string{"the variables after an out-of-range FETCH are not judged (the manual says NULL, the property is silent)", "fetch offsets that are not integers are executed only to watch for internal failures"},
		Setup:       func(w *core.Worker) { core.HermeticProcess(w.Work) },
		Fn:          c16Case,
	})
}

type curModel struct {
	declared, open, fetched bool
	rows                    [][]core.Val
	idx                     int
	query                   string
}

type c16Replay struct {
	Table   string   `json:"table_csv"`
	History []string `json:"history"`
	Step    int      `json:"step"`
	Detail  string   `json:"detail"`
}

// c16NestedOpen: a cursor declared in an outer block is opened inside a nested block (IF / WHILE / CASE / function body) that has its
// own variable or temporary table of a name the cursor's query uses. OPEN evaluates the query where it stands: the rows the
// cursor then delivers (COUNT, WHILE IN, FETCH) are those of the same SELECT evaluated immediately before the OPEN.
func c16NestedOpen(w *core.Worker, i int) {
	r := w.Rng(i, "nested")
	core.WriteFiles(w.Work, map[string]string{"g.csv": "id,grp\n1,1\n2,2\n3,1\n4,2\n5,2\n6,3\n"})
	for k := 0; k < 8; k++ {
		q := []string{"SELECT id FROM g WHERE grp = @grp ORDER BY id", "SELECT x FROM tmp ORDER BY x", "SELECT id FROM g WHERE id IN (SELECT x FROM tmp) OR grp = @grp ORDER BY id", "SELECT id + @grp FROM g WHERE grp <= @grp ORDER BY id"}[r.Intn(4)]
		inner := []string{"VAR @grp := 2;", "DECLARE tmp VIEW (x) AS SELECT 4 UNION ALL SELECT 5;", "VAR @grp := 3; DECLARE tmp VIEW (x) AS SELECT 6;", "@grp := 2;", "INSERT INTO tmp VALUES (2);", ""}[r.Intn(6)]
		blk := []string{"IF TRUE THEN\n%s\nEND IF;", "VAR @w := 0; WHILE @w < 1 DO\n@w := @w + 1;\n%s\nEND WHILE;", "CASE WHEN TRUE THEN\n%s\nEND CASE;", "DECLARE blk FUNCTION () AS BEGIN\n%s\nRETURN 0; END; VAR @r := blk();", "IF TRUE THEN IF TRUE THEN\n%s\nEND IF; END IF;", "%s"}[r.Intn(6)]
		if blk == "%s" && strings.Contains(inner, "VAR @grp") || blk == "%s" && strings.Contains(inner, "DECLARE tmp") {
			inner = "@grp := 3;" // (in the declaring block itself a second declaration is an error)
		}
		// what is observed goes into a temporary table of the outermost block and is read at the end
		body := inner + "\nINSERT INTO log SELECT 'reference', * FROM (" + q + ") ref;\nOPEN cur;\nINSERT INTO log VALUES ('count', CURSOR cur COUNT);\nVAR @a; WHILE @a IN cur DO INSERT INTO log VALUES ('row', @a); END WHILE;\nFETCH FIRST cur INTO @a; INSERT INTO log VALUES ('first', @a);\nCLOSE cur;"
		prog := "VAR @grp := 1; DECLARE log VIEW (tag, val); DECLARE tmp VIEW (x) AS SELECT 1 UNION ALL SELECT 3; DECLARE cur CURSOR FOR " + q + ";\n" + fmt.Sprintf(blk, body) + "\nSELECT tag, val FROM log;"
		s, err := core.NewSess(core.SessOpts{Dir: w.Work, Quiet: true})
		if err != nil {
			w.Inconclusive(err.Error())
			return
		}
		res := s.Exec(prog)
		s.Close()
		if res.Err != nil {
			w.Violation("nested-open:error", fmt.Sprintf("%v\n%s", res.Err, prog), c16Replay{History: []string{prog}, Detail: fmt.Sprint(res.Err)})
			continue
		}
		var ref, rows []string
		count, first := "", ""
		for _, v := range res.Views {
			for _, row := range v.Rows {
				if len(row) < 2 {
					continue
				}
				switch row[0].S {
				case "reference":
					ref = append(ref, row[1].S)
				case "row":
					rows = append(rows, row[1].S)
				case "count":
					count = row[1].S
				case "first":
					first = row[1].S
				}
			}
		}
		wantFirst := ""
		if len(ref) > 0 {
			wantFirst = ref[0]
		}
		if strings.Join(rows, ",") != strings.Join(ref, ",") || count != strconv.Itoa(len(ref)) || (len(ref) > 0 && first != wantFirst) {
			w.Violation("nested-open:rows", fmt.Sprintf("the query evaluated right before OPEN returns %v; the cursor counts %s rows, WHILE IN visits %v, FETCH FIRST gives %q\n%s", ref, count, rows, first, prog), c16Replay{History: []string{prog}, Detail: "reference " + strings.Join(ref, ",") + " cursor " + strings.Join(rows, ",")})
		}
		w.Count("cursors_opened_in_a_nested_block", 1)
	}
}

// c16LoopLosesItsCursor: the body of a WHILE IN loop closes or disposes the loop's cursor (directly, in a nested block, in a called
// function) while rows are left. Asking a closed or undeclared cursor for its next row is an error: the loop ends there, it never
// goes on handing out rows of the snapshot.
func c16LoopLosesItsCursor(w *core.Worker, i int) {
	r := w.Rng(i, "loop-loses")
	core.WriteFiles(w.Work, map[string]string{"g.csv": "id,grp\n1,1\n2,2\n3,1\n4,2\n5,2\n6,3\n"})
	for k := 0; k < 6; k++ {
		at := r.Range(1, 4)
		act := []string{"DISPOSE CURSOR cur;", "CLOSE cur;", "CLOSE cur; DISPOSE CURSOR cur;"}[r.Intn(3)]
		how := []string{"IF @n = %d THEN %s END IF;", "IF @n = %d THEN IF TRUE THEN %s END IF; END IF;", "IF @n = %d THEN VAR @r := drop_it(); END IF; -- %s", "CASE WHEN @n = %d THEN %s END CASE;"}[r.Intn(4)]
		prog := "DECLARE log VIEW (val); DECLARE cur CURSOR FOR SELECT id FROM g ORDER BY id; DECLARE drop_it FUNCTION () AS BEGIN " + act + " RETURN 0; END; OPEN cur; VAR @a; VAR @n := 0;\nWHILE @a IN cur DO\n@n := @n + 1; INSERT INTO log VALUES (@a);\n" + fmt.Sprintf(how, at, act) + "\nEND WHILE;"
		s, err := core.NewSess(core.SessOpts{Dir: w.Work, Quiet: true})
		if err != nil {
			w.Inconclusive(err.Error())
			return
		}
		res := s.Exec(prog)
		seen := s.Exec("SELECT val FROM log;")
		s.Close()
		n := -1
		if seen.Err == nil && len(seen.Views) == 1 {
			n = len(seen.Views[0].Rows)
		}
		if res.Err == nil || n != at {
			w.Violation("while-in:cursor-lost-in-the-body", fmt.Sprintf("the body %s the cursor in iteration %d of 6: the loop visited %d rows and ended with error %v (expected: an error in iteration %d)\n%s", strings.ToLower(strings.Fields(act)[0])+"s", at, n, res.Err, at+1, prog), c16Replay{History: []string{prog}, Detail: fmt.Sprint(res.Err)})
		}
		w.Count("loops_whose_body_loses_the_cursor", 1)
	}
}

func c16Case(w *core.Worker, i int) {
	if i%40 == 5 {
		c16NestedOpen(w, i)
	}
	if i%40 == 25 {
		c16LoopLosesItsCursor(w, i)
	}
	r := w.Rng(i, "")
	n := []int{0, 1, 2, 7, 7, 12, 300}[r.Intn(7)]
	cpu := 1
	if n == 300 {
		cpu = r.Range(1, 4)
	}
	t := genTable(r, "t", n, []colProfile{{Kind: "text", Vals: c05Texts, NullPct: 10}}, []string{"c1"})
	core.WriteFiles(w.Work, map[string]string{"t.csv": t.CSV()})
	s, err := core.NewSess(core.SessOpts{Dir: w.Work, CPU: cpu})
	if err != nil {
		w.Inconclusive(err.Error())
		return
	}
	defer s.Close()
	curs := map[string]*curModel{"c1": {}, "c2": {}}
	queries := []string{"SELECT id, c1 FROM t", "SELECT id, c1 FROM t WHERE id % 2 = 1", "SELECT id, c1 FROM t WHERE id > 3", "SELECT id, UPPER(c1) FROM t WHERE c1 IS NOT NULL"}
	var history []string
	compared, changedSinceOpen := 0, false
	inRangeAfterChange := 0
	s.Exec("VAR @a; VAR @b;")
	for qi, q := range queries {
		s.Exec(fmt.Sprintf("PREPARE ps%d FROM %s;", qi, core.SQLStr(q)))
	}
	for _, cn := range []string{"c1", "c2"} {
		s.Exec(fmt.Sprintf("DECLARE nx_%s FUNCTION () AS BEGIN VAR @p; VAR @q; FETCH %s INTO @p, @q; RETURN @p; END;", cn, cn))
	}
	step := 0
	viol := func(sig, what string) {
		w.Violation(sig, fmt.Sprintf("step %d %q: %s", step, history[len(history)-1], what), c16Replay{Table: t.CSV(), History: append([]string{}, history...), Step: step, Detail: what})
	}
	exec := func(sql string) core.ExecResult {
		history = append(history, sql)
		step++
		res := s.Exec(sql)
		if core.IsFatal(res.Err) {
			viol("internal-failure", res.Err.Error())
		}
		return res
	}
	expectErr := func(res core.ExecResult, want bool, what string) bool {
		if (res.Err != nil) != want {
			if want {
				viol("missing-error:"+what, "the operation succeeded although the cursor is "+what)
			} else {
				viol("unexpected-error", fmt.Sprint(res.Err))
			}
			return false
		}
		return true
	}
	nextID := n + 100
	nops := r.Range(8, 40)
	for k := 0; k < nops; k++ {
		cn := []string{"c1", "c1", "c2"}[r.Intn(3)]
		c := curs[cn]
		op := r.Intn(24)
		if r.P(85) {
			// steer towards live cursors: most histories declare and open early
			if !c.declared {
				op = 0
			} else if !c.open && r.P(80) {
				op = 1
			}
		}
		switch {
		case op == 0:
			qi := r.Intn(len(queries))
			q := queries[qi]
			decl := fmt.Sprintf("DECLARE %s CURSOR FOR %s;", cn, q)
			if r.P(35) {
				// the same query as a prepared statement: the cursor is declared for the statement name
				decl = fmt.Sprintf("DECLARE %s CURSOR FOR ps%d;", cn, qi)
			}
			res := exec(decl)
			if expectErr(res, c.declared, "already declared") && !c.declared {
				*c = curModel{declared: true, query: q}
			}
		case op <= 2:
			res := exec("OPEN " + cn + ";")
			if !c.declared {
				expectErr(res, true, "undeclared")
			} else if c.open {
				expectErr(res, true, "already open")
			} else if expectErr(res, false, "") {
				snap := s.Exec(c.query + ";")
				if snap.Err != nil || len(snap.Views) != 1 {
					viol("snapshot-error", fmt.Sprint(snap.Err))
					return
				}
				c.open, c.rows, c.idx, c.fetched = true, snap.Views[0].Rows, -1, false
				changedSinceOpen = false
			}
		case op <= 10:
			pos, num := "", 0
			L := len(c.rows)
			nums := []int{0, 1, -1, L, -L, L + 1, -(L + 1), 2, 1000000000000, math.MaxInt64, math.MinInt64, math.MaxInt64 - 1, math.MinInt64 + 1}
			numText := func(n int) string {
				if n == math.MinInt64 {
					return "(-9223372036854775807 - 1)" // the literal itself is not an integer literal
				}
				// positions given as floats far beyond every integer: beyond the last / before the first row
				if n == math.MaxInt64-1 {
					return "1e30"
				}
				if n == math.MinInt64+1 {
					return "-1e30"
				}
				return fmt.Sprint(n)
			}
			newIdx := c.idx
			switch r.Intn(8) {
			case 0:
				pos, newIdx = "NEXT ", c.idx+1
			case 1:
				pos, newIdx = "", c.idx+1
			case 2:
				pos, newIdx = "PRIOR ", c.idx-1
			case 3:
				pos, newIdx = "FIRST ", 0
			case 4:
				pos, newIdx = "LAST ", L-1
			case 5, 6:
				num = nums[r.Intn(len(nums))]
				pos, newIdx = fmt.Sprintf("ABSOLUTE %s ", numText(num)), num
			default:
				num = nums[r.Intn(len(nums))]
				pos = fmt.Sprintf("RELATIVE %s ", numText(num))
				// the addressed position is the mathematical sum: far beyond either end, never wrapped around
				switch {
				case num > 0 && c.idx > math.MaxInt64-num:
					newIdx = math.MaxInt64
				case num < 0 && c.idx < math.MinInt64-num:
					newIdx = math.MinInt64
				default:
					newIdx = c.idx + num
				}
			}
			res := exec(fmt.Sprintf("FETCH %s%s INTO @a, @b;", pos, cn))
			if !c.declared || !c.open {
				expectErr(res, true, "closed or undeclared")
				continue
			}
			if !expectErr(res, false, "") {
				return
			}
			c.fetched = true
			if newIdx < 0 {
				newIdx = -1
			}
			if newIdx >= L {
				newIdx = L
			}
			c.idx = newIdx
			if c.idx >= 0 && c.idx < L {
				got := s.Exec("SELECT @a, @b;")
				if got.Err != nil || len(got.Views) != 1 {
					viol("select-vars-error", fmt.Sprint(got.Err))
					continue
				}
				g, want := got.Views[0].Rows[0], c.rows[c.idx]
				compared++
				if changedSinceOpen {
					inRangeAfterChange++
				}
				if g[0] != want[0] || g[1] != want[1] {
					viol("fetched-row", fmt.Sprintf("fetched %v, the snapshot taken at OPEN holds %v at position %d", valsToStrs(g), valsToStrs(want), c.idx))
				}
			}
		case op == 11:
			res := exec("CLOSE " + cn + ";")
			if !c.declared {
				expectErr(res, true, "undeclared")
			} else if expectErr(res, false, "") {
				c.open, c.rows = false, nil
			}
		case op == 12:
			res := exec("DISPOSE CURSOR " + cn + ";")
			if expectErr(res, !c.declared, "undeclared") && c.declared {
				*c = curModel{}
			}
		case op <= 14:
			// status expressions
			res := exec(fmt.Sprintf("SELECT CURSOR %s IS OPEN, CURSOR %s IS NOT OPEN;", cn, cn))
			if !c.declared {
				expectErr(res, true, "undeclared")
			} else if expectErr(res, false, "") {
				want := "FALSE"
				if c.open {
					want = "TRUE"
				}
				if g := res.Views[0].Rows[0][0].S; g != want {
					viol("status:is-open", fmt.Sprintf("IS OPEN = %s, expected %s", g, want))
				}
				if g := res.Views[0].Rows[0][1].S; g != c16Not(want) {
					viol("status:is-open", fmt.Sprintf("IS NOT OPEN = %s while IS OPEN is %s", g, want))
				}
				compared++
			}
			res = exec(fmt.Sprintf("SELECT CURSOR %s IS IN RANGE, CURSOR %s COUNT, CURSOR %s IS NOT IN RANGE;", cn, cn, cn))
			if !c.declared || !c.open {
				expectErr(res, true, "closed or undeclared")
			} else if expectErr(res, false, "") {
				want := "UNKNOWN"
				if c.fetched {
					want = "FALSE"
					if c.idx >= 0 && c.idx < len(c.rows) {
						want = "TRUE"
					}
				}
				row := res.Views[0].Rows[0]
				if row[0].S != want {
					viol("status:in-range", fmt.Sprintf("IS IN RANGE = %s, the position %d of %d gives %s", row[0].S, c.idx, len(c.rows), want))
				}
				if row[2].S != c16Not(want) {
					viol("status:in-range", fmt.Sprintf("IS NOT IN RANGE = %s at position %d of %d, where IS IN RANGE is %s (fetched: %v)", row[2].S, c.idx, len(c.rows), want, c.fetched))
				}
				if row[1].S != strconv.Itoa(len(c.rows)) {
					viol("status:count", fmt.Sprintf("COUNT = %s, the snapshot holds %d rows", row[1].S, len(c.rows)))
				}
				compared++
			}
		case op == 15:
			res := exec(fmt.Sprintf("WHILE @a, @b IN %s DO PRINT @a; END WHILE;", cn))
			if !c.declared || !c.open {
				expectErr(res, true, "closed or undeclared")
				continue
			}
			if !expectErr(res, false, "") {
				return
			}
			var want []string
			start := c.idx + 1
			if start < 0 {
				start = 0
			}
			for j := start; j < len(c.rows); j++ {
				v := c.rows[j][0]
				if v.T == 'S' {
					want = append(want, "'"+v.S+"'")
				} else {
					want = append(want, v.S)
				}
			}
			got := strings.Fields(strings.ReplaceAll(res.Stdout, "\n", " "))
			if strings.Join(got, " ") != strings.Join(want, " ") {
				viol("while-in", fmt.Sprintf("the loop visited ids %v, the snapshot from the position after %d holds %v", got, c.idx, want))
			}
			compared++
			c.fetched = true
			c.idx = len(c.rows)
		case op == 16:
			// a cursor of the same name declared in a nested block: operations inside the block belong to that cursor only,
			// the outer cursor (declared or not, open or not) keeps its snapshot and position
			var res core.ExecResult
			switch r.Intn(3) {
			case 0: // inner cursor never opened: FETCH must fail
				res = exec(fmt.Sprintf("IF 1 = 1 THEN DECLARE %s CURSOR FOR SELECT 'inner', 'row'; FETCH %s INTO @a, @b; END IF;", cn, cn))
				expectErr(res, true, "closed (the one declared in the block)")
			case 1: // opened, fetched, closed, fetched again: the second FETCH must fail after the first returned the inner row
				res = exec(fmt.Sprintf("IF 1 = 1 THEN DECLARE %s CURSOR FOR SELECT 'inner', 'row'; OPEN %s; FETCH %s INTO @a, @b; CLOSE %s; FETCH %s INTO @a, @b; END IF;", cn, cn, cn, cn, cn))
				if expectErr(res, true, "closed (the one declared in the block)") {
					if got := s.Exec("SELECT @a, @b;"); got.Err == nil && len(got.Views) == 1 && (got.Views[0].Rows[0][0].S != "inner" || got.Views[0].Rows[0][1].S != "row") {
						viol("shadowed-cursor", fmt.Sprintf("the variables hold %v after fetching the block's own cursor once", valsToStrs(got.Views[0].Rows[0])))
					}
				}
			default: // a loop over the inner cursor
				res = exec(fmt.Sprintf("WHILE @a < 1 DO DECLARE %s CURSOR FOR SELECT 'inner', 'row' UNION ALL SELECT 'inner2', 'row2'; OPEN %s; WHILE @a, @b IN %s DO PRINT @b; END WHILE; CLOSE %s; @a := 1; END WHILE;", cn, cn, cn, cn))
				// @a may hold text or NULL: the comparison is then not TRUE and the loop body does not run; both outcomes leave the outer cursor alone
				if res.Err != nil {
					viol("unexpected-error", fmt.Sprint(res.Err))
				}
			}
			w.Count("nested_block_cursor_probes", 1)
		case op == 18 && c.open:
			// the cursor fetched from inside a function that a query calls once per row (by several workers on a large table):
			// every snapshot row from the current position on is handed out exactly once
			cnt := s.Exec("SELECT COUNT(*) FROM t;")
			if cnt.Err != nil || len(cnt.Views) != 1 {
				continue
			}
			T, _ := strconv.Atoi(cnt.Views[0].Rows[0][0].S)
			res := exec(fmt.Sprintf("SELECT nx_%s() FROM t;", cn))
			if !expectErr(res, false, "") {
				return
			}
			if len(res.Views) != 1 || len(res.Views[0].Rows) != T {
				viol("fetch-in-query", fmt.Sprintf("the query returned %d rows, the table has %d", len(res.Views[0].Rows), T))
				return
			}
			from := c.idx + 1
			if from < 0 {
				from = 0
			}
			to := from + T
			if to > len(c.rows) {
				to = len(c.rows)
			}
			wantBag := map[string]int{}
			for j := from; j < to; j++ {
				wantBag[c.rows[j][0].String()]++
			}
			gotBag := map[string]int{}
			for _, row := range res.Views[0].Rows {
				if row[0].T != 'N' {
					gotBag[row[0].String()]++
				}
			}
			okBag := len(gotBag) == len(wantBag)
			for k2, n2 := range wantBag {
				if gotBag[k2] != n2 {
					okBag = false
				}
			}
			if !okBag {
				viol("fetch-in-query", fmt.Sprintf("%d calls handed out %d distinct rows of the snapshot; rows %d..%d (%d distinct) were due, each exactly once", T, len(gotBag), from, to-1, len(wantBag)))
			}
			compared++
			if changedSinceOpen && to > from {
				inRangeAfterChange++
			}
			if T > 0 {
				c.fetched = true
				c.idx = c.idx + T
				if c.idx > len(c.rows) {
					c.idx = len(c.rows)
				}
			}
			w.Count("fetches_from_inside_a_query", 1)
		case op == 17 && c.open && len(c.rows) > 0:
			// one FETCH statement executed repeatedly (loop body): every execution addresses the same position of the snapshot
			L := len(c.rows)
			pos := r.Intn(L)
			form := fmt.Sprintf("FETCH ABSOLUTE %d %s INTO @a, @b;", pos, cn)
			wantIdx := []int{pos, pos, pos}
			if r.Bool() && L >= 2 {
				// FIRST, then RELATIVE 1 twice inside the loop would move; use the stationary pair ABSOLUTE p / RELATIVE 0
				form = fmt.Sprintf("FETCH ABSOLUTE %d %s INTO @a, @b; FETCH RELATIVE 0 %s INTO @a, @b;", pos, cn, cn)
			}
			res := exec(fmt.Sprintf("VAR @k16 := 0; WHILE @k16 < 3 DO @k16 := @k16 + 1; %s PRINT @a; END WHILE; DISPOSE @k16;", form))
			if !expectErr(res, false, "") {
				return
			}
			var want []string
			for _, wi := range wantIdx {
				v := c.rows[wi][0]
				if v.T == 'S' {
					want = append(want, "'"+v.S+"'")
				} else {
					want = append(want, v.S)
				}
			}
			got := strings.Fields(strings.ReplaceAll(res.Stdout, "\n", " "))
			if strings.Join(got, " ") != strings.Join(want, " ") {
				viol("fetched-row:repeated-statement", fmt.Sprintf("three executions of the same FETCH returned ids %v, the snapshot holds %v at position %d", got, want[0], pos))
			}
			compared++
			if changedSinceOpen {
				inRangeAfterChange++
			}
			c.fetched, c.idx = true, pos
		case op >= 20 && c.open:
			// extra weight on plain fetches while a cursor is open
			res := exec(fmt.Sprintf("FETCH %s INTO @a, @b;", cn))
			if !expectErr(res, false, "") {
				return
			}
			c.fetched = true
			if c.idx < len(c.rows) {
				c.idx++
			}
			if c.idx >= 0 && c.idx < len(c.rows) {
				got := s.Exec("SELECT @a, @b;")
				if got.Err == nil && len(got.Views) == 1 {
					g, want := got.Views[0].Rows[0], c.rows[c.idx]
					compared++
					if changedSinceOpen {
						inRangeAfterChange++
					}
					if g[0] != want[0] || g[1] != want[1] {
						viol("fetched-row", fmt.Sprintf("fetched %v, the snapshot taken at OPEN holds %v at position %d", valsToStrs(g), valsToStrs(want), c.idx))
					}
				}
			}
		default:
			// change the underlying table / transaction
			nextID++
			dml := []string{
				fmt.Sprintf("INSERT INTO t (id, c1) VALUES ('%d', 'new');", nextID),
				"UPDATE t SET c1 = 'changed' WHERE id % 2 = 0;",
				"DELETE FROM t WHERE id % 3 = 0;",
				"UPDATE t SET c1 = NULL;",
				"REPLACE INTO t (id, c1) USING (id) VALUES ('1', 'replaced'), ('2', 'replaced2'), ('3', NULL);",
				"REPLACE INTO t (id, c1) USING (id) SELECT id, 'rs' FROM t WHERE id % 2 = 1;",
				"COMMIT;", "ROLLBACK;",
				fmt.Sprintf("ALTER TABLE t ADD x%d DEFAULT 1;", nextID),
			}
			res := exec(dml[r.Intn(len(dml))])
			if res.Err != nil {
				viol("dml-error", res.Err.Error())
			}
			changedSinceOpen = true
		}
	}
	if i < 30 {
		w.Sample(map[string]interface{}{"rows": n, "history": history})
	}
	w.Count("observations_compared", int64(compared))
	w.Count("in_range_fetches_after_table_change", int64(inRangeAfterChange))
	w.Case(core.Digest(append([]string{t.CSV()}, history...)...), inRangeAfterChange >= 3)
}

// c16Not negates a ternary value spelled as csvq prints it.
func c16Not(t string) string {
	switch t {
	case "TRUE":
		return "FALSE"
	case "FALSE":
		return "TRUE"
	}
	return t
}
