package main

import (
	"fmt"
	"strconv"
	"strings"

	"verif/internal/core"
)

// GTable is a generated table: cells are texts (as in a CSV file) or NULL (nil).
type GTable struct {
	Name string
	Cols []string
	Rows [][]*string
}

func (t *GTable) CSV() string { return core.CSVFile(t.Cols, t.Rows) }

func (t *GTable) Col(name string) int {
	for i, c := range t.Cols {
		if c == name {
			return i
		}
	}
	return -1
}

func cellStr(c *string) string {
	if c == nil {
		return "NULL"
	}
	return strconv.Quote(*c)
}

func (t *GTable) Dump(max int) string {
	var sb strings.Builder
	sb.WriteString(t.Name + "(" + strings.Join(t.Cols, ",") + ")")
	for i, r := range t.Rows {
		if i >= max {
			sb.WriteString(fmt.Sprintf(" …(%d rows)", len(t.Rows)))
			break
		}
		sb.WriteString(" [")
		for j, c := range r {
			if j > 0 {
				sb.WriteString(",")
			}
			sb.WriteString(cellStr(c))
		}
		sb.WriteString("]")
	}
	return sb.String()
}

// value profiles: every profile yields cell texts whose class is unambiguous in the manual
var (
	profInts   = []string{"0", "1", "2", "3", "5", "7", "10", "-1", "-3", "12", "100", " 4", "6 ", "007", "+8"}
	profNums   = []string{"0", "1", "1.0", "2", "2.5", "-1", "-1.5", "3", "3.0", "10", "1e1", "0.5", ".5", "100", " 4", "7 ", "-0.25", "12.75"}
	profFloats = []string{"0.5", "1.5", "2.5", "-1.5", "3.25", "0.1", "10.75", "-0.25", "2.5", "1.5"}
	profText   = []string{"a", "A", "b", "B ", " b", "abc", "ABC", "Abd", "x", "y", "Z", "zz", "apple", "Apple", "pear", "kiwi ", "", " ", "né", "NÉ", "a b", "a-b", "q1", "Q2", "it's", "say \"hi\"", "semi;colon", "com,ma"}
	// integers that differ by less than one float64 step
	profBigInts = []string{"9007199254740992", "9007199254740993", "9007199254740994", "9007199254740995", "9223372036854775807", "9223372036854775806", "9223372036854775805", "-9223372036854775808", "-9223372036854775807", "1500000000000000000", "1500000000000000001", "1500000000000000100", "3", "-1"}
	profDates   = []string{"2012-02-03", "2012/02/03", "2012-2-3", "2012-02-03 09:18:15", "2012-02-04", "2011-12-31", "2012-02-03T09:18:15Z", "2012-02-03 09:18:15.5", "2013-01-01 00:00:00", "2012-02-03 00:00:00", "1999-12-31 23:59:59"}
	// texts containing the separators csvq uses inside its comparison keys
	profHostile = []string{"a:[S]b", "a", "b:[S]c", "c", ":", "[S]", "[N]", "[I]1", "[F]1", ":[S]x", "x", "a:", ":a", "a:[S]", "[S]b", "b", "a:[S]b:[S]c", "[D]1", "[B]true", "A:[s]B", "\\", "a\\:b", "[S]a:[S]b", "a:[N]", "[N]", "[N]:[S]a", "NULL", "null", ""}
)

type colProfile struct {
	Kind    string // ints nums floats text dates hostile
	NullPct int
	Vals    []string
}

func profileVals(kind string) []string {
	switch kind {
	case "ints":
		return profInts
	case "bigints":
		return profBigInts
	case "nums":
		return profNums
	case "floats":
		return profFloats
	case "text":
		return profText
	case "dates":
		return profDates
	case "fardates":
		// instants a 64-bit count of nanoseconds since the epoch cannot tell apart or order (before 1678, after 2262)
		return []string{"1000-01-01 00:00:00", "1584-07-21 23:34:33.709551616", "3000-01-01 00:00:00", "2020-05-06 07:08:09", "0001-01-01 00:00:00", "2262-04-11 23:47:16.854775807", "2262-04-11 23:47:16.854775808", "1677-09-21 00:12:43.145224192", "1677-09-21 00:12:43.145224191", "9999-12-31 23:59:59", "1969-12-31 23:59:59.999999999"}
	case "hostile":
		return profHostile
	}
	return profText
}

// genTable builds a table with a unique integer id column followed by the profiled columns.
// distinct bounds how many different values a column draws from (small → many duplicates).
func genTable(r *core.Rng, name string, nrows int, profs []colProfile, colNames []string) *GTable {
	t := &GTable{Name: name, Cols: append([]string{"id"}, colNames...)}
	pools := make([][]string, len(profs))
	for j, p := range profs {
		vals := p.Vals
		if vals == nil {
			vals = profileVals(p.Kind)
		}
		k := r.Range(2, len(vals))
		if nrows > 100 {
			k = len(vals)
		}
		perm := r.Perm(len(vals))
		for _, x := range perm[:k] {
			pools[j] = append(pools[j], vals[x])
		}
	}
	for i := 0; i < nrows; i++ {
		row := make([]*string, 0, len(profs)+1)
		row = append(row, core.Sp(strconv.Itoa(i+1)))
		for j, p := range profs {
			if r.P(p.NullPct) {
				row = append(row, nil)
			} else {
				row = append(row, core.Sp(pools[j][r.Intn(len(pools[j]))]))
			}
		}
		t.Rows = append(t.Rows, row)
	}
	return t
}

// sizes straddling the thresholds at which csvq splits work over goroutines (80 rows per worker)
var bigSizes = []int{160, 161, 239, 240, 241, 320, 400, 640, 700}

func pickSize(r *core.Rng, big bool) int {
	if big {
		return bigSizes[r.Intn(len(bigSizes))]
	}
	switch r.Intn(10) {
	case 0:
		return 0
	case 1:
		return 1
	case 2:
		return 2
	}
	return r.Range(3, 40)
}

func valsToStrs(row []core.Val) []string {
	out := make([]string, len(row))
	for i, v := range row {
		out[i] = v.String()
	}
	return out
}
