package main

import (
	"fmt"
	"math"
	"strconv"
	"strings"
	"time"

	"verif/internal/core"
)

type poolVal struct {
	SQL string
	V   RV
}

func sIn(s string) poolVal  { return poolVal{core.SQLStr(s), rvStr(s)} }
func sOdd(s string) poolVal { v := rvStr(s); v.Odd = true; return poolVal{core.SQLStr(s), v} }

func mustTime(s string) time.Time {
	for _, l := range dtLayouts {
		if t, err := time.ParseInLocation(l, s, time.UTC); err == nil {
			return t
		}
	}
	panic("bad time " + s)
}

var c06Pool = buildPool()

func buildPool() []poolVal {
	var p []poolVal
	for _, i := range []int64{0, 1, -1, 2, 3, -3, 5, -5, 7, -7, 10, 12, 13, 100, 1 << 53, 1<<53 - 1, 1<<53 + 1, math.MaxInt64 - 1, 1000000007} {
		s := strconv.FormatInt(i, 10)
		if i < 0 {
			s = "(" + s + ")"
		}
		p = append(p, poolVal{s, rvInt(i)})
	}
	p = append(p, poolVal{"INTEGER::MAX", rvInt(math.MaxInt64)}, poolVal{"INTEGER::MIN", rvInt(math.MinInt64)})
	for _, f := range []string{"0.0", "1.0", "0.5", "1.5", "2.5", "3.0", "5.0", "7.0", "0.1", "0.2", "0.30000000000000004", "100.0", "12.0", "2.000001", "1e19", "1e308", "9007199254740993.0", "123456.789"} {
		v, _ := strconv.ParseFloat(f, 64)
		p = append(p, poolVal{f, rvFloat(v)})
		if v != 0 && len(p)%2 == 0 {
			p = append(p, poolVal{"(-" + f + ")", rvFloat(-v)})
		}
	}
	p = append(p,
		poolVal{"FLOAT('NaN')", rvFloat(math.NaN())}, poolVal{"FLOAT('Inf')", rvFloat(math.Inf(1))}, poolVal{"FLOAT('-Inf')", rvFloat(math.Inf(-1))},
		poolVal{"FLOAT('-0')", rvFloat(math.Copysign(0, -1))}, poolVal{"FLOAT::MAX", rvFloat(math.MaxFloat64)}, poolVal{"FLOAT::SMALLEST_NONZERO", rvFloat(math.SmallestNonzeroFloat64)},
	)
	// numeric strings
	for _, s := range []string{"0", "1", "-1", "+1", "007", " 12 ", "12 ", "\t12", "3", "-3", "5", "7", "100", "1.0", "1.50", "-0", "1e2", "1E2", ".5", "5.", "2.5", "-2.5", "12.0",
		"9223372036854775807", "9223372036854775808", "-9223372036854775808", "-9223372036854775809", "Inf", "+Inf", "-Inf", "NaN", "0.1", "1e-3"} {
		p = append(p, sIn(s))
	}
	for _, s := range []string{"inf", "nan", "Infinity", "0x10", "1_0", "１２", "1e", "--1", "1 2", "1e400", "0b1", "+.5e+1", " inf "} {
		p = append(p, sOdd(s))
	}
	// boolean strings
	for _, s := range []string{"t", "true", "f", "false", " t ", "false "} {
		p = append(p, sIn(s))
	}
	for _, s := range []string{"T", "TRUE", "True", "F", "FALSE", "False", "tRuE", "yes", "on"} {
		if s == "yes" || s == "on" {
			p = append(p, sIn(s))
		} else {
			p = append(p, sOdd(s))
		}
	}
	// datetime strings
	for _, s := range []string{"2012-02-03", "2012/02/03", "2012-2-3", "2012-02-03 09:18:15", "2012-02-03 09:18:15.123456789", "2012-02-03T09:18:15", "2012-02-03T09:18:15Z",
		"2012-02-03T09:18:15-07:00", "2012-02-03 09:18:15 -07:00", "2012-02-03 16:18:15", "2012-02-04", "1970-01-01 00:00:00", "2012-02-03 00:00:00"} {
		p = append(p, sIn(s))
	}
	for _, s := range []string{" 2012-02-03", "2012-02-30", "2012-13-01", "03 Mar 12 12:03 PST", "2012-02-03 09:18", "2012-02-03T09:18:15+0900", "12-02-03", "2012-02-03 09:18:15 PST", "20120203"} {
		if s == "20120203" {
			p = append(p, sIn(s))
		} else {
			p = append(p, sOdd(s))
		}
	}
	// plain strings
	for _, s := range []string{"", " ", "a", "A", " a ", "abc", "ABC", "abd", "Abc ", "b", "str", "a b", "a  b", "null", "NULL", "unknown", "-", "+", ".", "e", "E5", "x1", "true1", "á", "Á", "é", "ｆ", "日本", "a:b", "[S]a", "a\nb", "it's", "\"q\"", "z", "Z"} {
		p = append(p, sIn(s))
	}
	p = append(p, poolVal{"BOOLEAN(TRUE)", rvBool(true)}, poolVal{"BOOLEAN(FALSE)", rvBool(false)})
	p = append(p, poolVal{"TRUE", rvTern(1)}, poolVal{"FALSE", rvTern(-1)}, poolVal{"UNKNOWN", rvTern(0)})
	for _, s := range []string{"2012-02-03", "2012-02-03 09:18:15", "2012-02-03 09:18:15.123456789", "2012-02-04", "1970-01-01", "9999-12-31 23:59:59", "2012-02-03 16:18:15"} {
		p = append(p, poolVal{"DATETIME(" + core.SQLStr(s) + ")", rvTime(mustTime(s))})
	}
	p = append(p, poolVal{"NULL", rvNull()})
	return p
}

var cmpOps = []string{"=", "<>", "<", "<=", ">", ">="}

func init() {
	core.Register(&core.Spec{
		ID: "C06", Level: "exploration",
		Rule: "case i<P: pool value a=P[i] against every pool value b (both directions), all six relational operators and + - * / % through three operand carriers (SQL literal, variable, table cell for strings); " +
			"non-trivial = the row's 2·P·(6+5) operator results were all obtained and checked against the algebraic laws, and at least one pair was judged against the independent coercion ladder. " +
			"case P: Kleene AND/OR/NOT through every carrier of a ternary. cases >P: 200 sampled triples each for BETWEEN/IN/ANY/ALL/IS/CASE expansions; distinct = digest of the operand texts.",
		Quick: len(c06Pool) + 1 + 100, Thorough: len(c06Pool) + 1 + 15000,
		FloorQuick: len(c06Pool), FloorThorough: len(c06Pool),
		Assumptions: []string{
			"the reference ladder is judged only where the manual pins the answer: odd spellings (hex, underscores, lower-case inf/nan, upper-case boolean words, padded datetimes), NaN and number-vs-non-numeric-text comparisons are checked against the algebraic laws only",
			"integer overflow and integer '/' rounding are not judged; int/float agreement is judged only when the exact result is below 2^53 in magnitude",
		},
		Setup: func(w *core.Worker) { core.HermeticProcess(w.Work) },
		Fn:    c06Case,
	})
}

func c06Case(w *core.Worker, i int) {
	P := len(c06Pool)
	s, err := core.NewSess(core.SessOpts{Dir: w.Work})
	if err != nil {
		w.Inconclusive("session: " + err.Error())
		return
	}
	defer s.Close()
	switch {
	case i < P:
		c06Row(w, s, i)
	case i == P:
		c06Kleene(w, s)
		c06SessionFormats(w)
		c06Casts(w, s)
	default:
		c06Triples(w, s, i)
	}
}

type c06Replay struct {
	Expr   string `json:"expr"`
	A, B   string
	Got    string `json:"got"`
	Expect string `json:"expect"`
}

func ternCell(v core.Val) (int8, bool) {
	if v.T != 'T' {
		return 0, false
	}
	return ternOf(v.S), true
}

func c06Row(w *core.Worker, s *core.Sess, ai int) {
	a := c06Pool[ai]
	judged, done := 0, 0
	// string cell carrier: a table of all string pool values
	var strIdx []int
	for k, pv := range c06Pool {
		if pv.V.K == 'S' {
			strIdx = append(strIdx, k)
		}
	}
	if ai == 0 || a.V.K == 'S' {
		hdr := []string{"id", "v"}
		var rows [][]*string
		for _, k := range strIdx {
			rows = append(rows, []*string{core.Sp(strconv.Itoa(k)), core.Sp(c06Pool[k].V.S)})
		}
		core.WriteFiles(w.Work, map[string]string{"spool.csv": core.CSVFile(hdr, rows)})
	}
	cellRes := map[int][]core.Val{}
	if a.V.K == 'S' {
		// v is the table cell (left operand), A the literal
		q := "SELECT id"
		for _, op := range cmpOps {
			q += fmt.Sprintf(", v %s %s", op, a.SQL)
		}
		q += fmt.Sprintf(", v + %s, v - %s, v * %s FROM spool", a.SQL, a.SQL, a.SQL)
		r := s.Exec(q)
		if r.Err != nil || len(r.Views) != 1 {
			w.Violation("cell-carrier-error", fmt.Sprintf("%s -> %v", q, r.Err), c06Replay{Expr: q})
		} else {
			for _, row := range r.Views[0].Rows {
				k, _ := strconv.Atoi(row[0].S)
				cellRes[k] = row[1:]
			}
		}
	}

	for bi, b := range c06Pool {
		resAB, ok1 := c06Eval(w, s, a, b, false)
		resBA, ok2 := c06Eval(w, s, b, a, false)
		if !ok1 || !ok2 {
			continue
		}
		done++
		// carrier consistency: variables
		if (ai+bi)%3 == 0 {
			if resVar, ok := c06Eval(w, s, a, b, true); ok {
				for k := range resAB.vals {
					if resAB.vals[k] != resVar.vals[k] {
						w.Violation("carrier-mismatch", fmt.Sprintf("(%s) %s (%s): literal operands give %v, variables give %v", a.SQL, resAB.names[k], b.SQL, resAB.vals[k], resVar.vals[k]),
							c06Replay{A: a.SQL, B: b.SQL, Expr: resAB.names[k]})
					}
				}
			}
		}
		if cr, ok := cellRes[bi]; ok {
			// cr = (b op a) with b as table cell
			for k := 0; k < 9; k++ {
				if cr[k] != resBA.vals[k] {
					w.Violation("carrier-mismatch", fmt.Sprintf("(%s) %s (%s): literal operands give %v, a table cell as left operand gives %v", b.SQL, resBA.names[k], a.SQL, resBA.vals[k], cr[k]),
						c06Replay{A: b.SQL, B: a.SQL, Expr: resBA.names[k]})
				}
			}
		}
		viol := func(sig, what string) {
			w.Violation(sig, fmt.Sprintf("a=%s b=%s: %s", a.SQL, b.SQL, what), c06Replay{A: a.SQL, B: b.SQL})
		}
		t := func(r c06Res, k int) int8 { v, _ := ternCell(r.vals[k]); return v }
		for k := 0; k < 6; k++ {
			if _, ok := ternCell(resAB.vals[k]); !ok {
				viol("not-ternary", fmt.Sprintf("a %s b returned %v, not a ternary", cmpOps[k], resAB.vals[k]))
			}
		}
		eq, ne, lt, le, gt, ge := t(resAB, 0), t(resAB, 1), t(resAB, 2), t(resAB, 3), t(resAB, 4), t(resAB, 5)
		// laws
		if lt != t(resBA, 4) {
			viol("law:lt-gt", fmt.Sprintf("a<b is %s but b>a is %s", ternName(lt), ternName(t(resBA, 4))))
		}
		if le != t(resBA, 5) {
			viol("law:le-ge", fmt.Sprintf("a<=b is %s but b>=a is %s", ternName(le), ternName(t(resBA, 5))))
		}
		if ne != tNot(eq) {
			viol("law:ne-not-eq", fmt.Sprintf("a<>b is %s but a=b is %s", ternName(ne), ternName(eq)))
		}
		if eq != t(resBA, 0) {
			viol("law:eq-symmetric", fmt.Sprintf("a=b is %s but b=a is %s", ternName(eq), ternName(t(resBA, 0))))
		}
		if lt != 0 {
			if le != tOr(lt, eq) {
				viol("law:le", fmt.Sprintf("a<b=%s a=b=%s but a<=b=%s", ternName(lt), ternName(eq), ternName(le)))
			}
			if ge != tOr(gt, eq) {
				viol("law:ge", fmt.Sprintf("a>b=%s a=b=%s but a>=b=%s", ternName(gt), ternName(eq), ternName(ge)))
			}
			if gt == 0 || (lt == 1 && gt == 1) {
				viol("law:order", fmt.Sprintf("a<b=%s and a>b=%s", ternName(lt), ternName(gt)))
			}
		}
		// reference ladder
		if c, spec := refCompare(a.V, b.V); spec {
			judged++
			for k, op := range cmpOps {
				if want := opFromCmp(op, c); want != t(resAB, k) {
					viol("ladder:"+op, fmt.Sprintf("a %s b is %s, the documented ladder gives %s", op, ternName(t(resAB, k)), ternName(want)))
				}
			}
		}
		c06Arith(w, a, b, resAB, viol)
	}
	w.Count("pairs_evaluated", int64(done))
	w.Count("pairs_judged_against_ladder", int64(judged))
	if ai < 3 {
		w.Sample(map[string]interface{}{"a": a.SQL, "against": len(c06Pool), "example": fmt.Sprintf("SELECT (%s) = (%s), (%s) < (%s), (%s) %% (%s)", a.SQL, c06Pool[5].SQL, a.SQL, c06Pool[5].SQL, a.SQL, c06Pool[5].SQL)})
	}
	w.Case(core.Digest("row", a.SQL), done == len(c06Pool) && judged > 0)
}

type c06Res struct {
	names []string
	vals  []core.Val // 6 comparisons, + - *, /, %
	divE  bool       // '/' raised the division-by-zero error
	modE  bool
}

func c06Eval(w *core.Worker, s *core.Sess, a, b poolVal, vars bool) (c06Res, bool) {
	A, B := "("+a.SQL+")", "("+b.SQL+")"
	pre := ""
	if vars {
		pre = fmt.Sprintf("VAR @a := %s; VAR @b := %s; ", a.SQL, b.SQL)
		A, B = "@a", "@b"
	}
	var res c06Res
	q := pre + "SELECT "
	for k, op := range cmpOps {
		if k > 0 {
			q += ", "
		}
		q += A + " " + op + " " + B
		res.names = append(res.names, op)
	}
	q += fmt.Sprintf(", %s + %s, %s - %s, %s * %s", A, B, A, B, A, B)
	res.names = append(res.names, "+", "-", "*", "/", "%")
	r := s.Exec(q)
	if vars {
		s.Exec("DISPOSE @a; DISPOSE @b;")
	}
	if r.Err != nil || len(r.Views) != 1 || len(r.Views[0].Rows) != 1 {
		w.Violation("eval-error", fmt.Sprintf("%s -> %v", q, r.Err), c06Replay{Expr: q})
		return res, false
	}
	res.vals = append(res.vals, r.Views[0].Rows[0]...)
	for _, op := range []string{"/", "%"} {
		q2 := fmt.Sprintf("SELECT %s %s %s", "("+a.SQL+")", op, "("+b.SQL+")")
		r2 := s.Exec(q2)
		if r2.Err != nil {
			if strings.Contains(r2.Err.Error(), "devided by zero") || strings.Contains(r2.Err.Error(), "divided by zero") {
				if op == "/" {
					res.divE = true
				} else {
					res.modE = true
				}
				res.vals = append(res.vals, core.Val{T: 'E', S: "division by zero"})
				continue
			}
			w.Violation("eval-error", fmt.Sprintf("%s -> %v", q2, r2.Err), c06Replay{Expr: q2})
			return res, false
		}
		res.vals = append(res.vals, r2.Views[0].Rows[0][0])
	}
	return res, true
}

func c06Arith(w *core.Worker, a, b poolVal, r c06Res, viol func(sig, what string)) {
	ops := []string{"+", "-", "*", "/", "%"}
	x, xi := a.V.asIntStrict()
	y, yi := b.V.asIntStrict()
	fx, xf := a.V.asFloat()
	fy, yf := b.V.asFloat()
	odd := a.V.Odd || b.V.Odd
	for k, op := range ops {
		got := r.vals[6+k]
		// type law, judged for every non-odd pair
		if !odd {
			switch {
			case xi && yi:
				if (op == "/" || op == "%") && y == 0 {
					if got.T != 'E' {
						viol("arith:int-div-zero", fmt.Sprintf("a %s b with integer 0 divisor returned %v instead of the documented error", op, got))
					}
					continue
				}
				if got.T != 'I' {
					viol("arith:type", fmt.Sprintf("a %s b: both operands are integers but the result is %v", op, got))
					continue
				}
				var exact float64
				var want int64
				okv := true
				switch op {
				case "+":
					exact, want = float64(x)+float64(y), x+y
				case "-":
					exact, want = float64(x)-float64(y), x-y
				case "*":
					exact, want = float64(x)*float64(y), x*y
				case "/":
					if x%y != 0 || (x == math.MinInt64 && y == -1) {
						okv = false
					} else {
						exact, want = float64(x/y), x/y
					}
				case "%":
					if x == math.MinInt64 && y == -1 {
						okv = false
					} else {
						want = x % y
						exact = float64(want)
					}
				}
				if okv && math.Abs(exact) < (1<<62) {
					if got.S != strconv.FormatInt(want, 10) {
						viol("arith:int-value", fmt.Sprintf("a %s b = %s, expected %d", op, got.S, want))
					}
					if op == "%" && want != 0 && ((want < 0) != (x < 0) || absU(want) >= absU(y)) {
						viol("arith:mod-sign", fmt.Sprintf("a %% b = %d", want))
					}
				}
			case xf && yf:
				if got.T == 'E' {
					viol("arith:float-error", fmt.Sprintf("a %s b raised an error although an operand is not an integer", op))
					continue
				}
				if got.T != 'F' {
					viol("arith:type", fmt.Sprintf("a %s b: numeric operands, not both integers, but the result is %v (expected a float)", op, got))
					continue
				}
				g, _ := strconv.ParseFloat(got.S, 64)
				if got.S == "NaN" {
					g = math.NaN()
				}
				var want float64
				switch op {
				case "+":
					want = fx + fy
				case "-":
					want = fx - fy
				case "*":
					want = fx * fy
				case "/":
					want = fx / fy
				case "%":
					// a % b has the sign of a and a magnitude below |b|; agrees with the integer path on integral operands
					if !math.IsNaN(g) && !math.IsInf(fx, 0) && fy != 0 && !math.IsNaN(fx) && !math.IsNaN(fy) && !math.IsInf(fy, 0) {
						if g != 0 && ((g < 0) != (fx < 0) || math.Abs(g) >= math.Abs(fy)) {
							viol("arith:float-mod-sign", fmt.Sprintf("a %% b = %s: must have the sign of a and a magnitude below |b|", got.S))
						}
						if fx == math.Trunc(fx) && fy == math.Trunc(fy) && math.Abs(fx) < 1<<53 && math.Abs(fy) < 1<<53 {
							if wantI := float64(int64(fx) % int64(fy)); g != wantI {
								viol("arith:float-int-agree", fmt.Sprintf("a %% b = %s on the float path, integer arithmetic gives %v", got.S, wantI))
							}
						}
					}
					continue
				}
				same := g == want || (math.IsNaN(g) && math.IsNaN(want))
				if !same {
					viol("arith:float-value", fmt.Sprintf("a %s b = %s, IEEE double arithmetic gives %v", op, got.S, want))
				}
			default:
				if got.T != 'N' {
					viol("arith:null", fmt.Sprintf("a %s b: an operand is not numeric but the result is %v instead of NULL", op, got))
				}
			}
		}
	}
}

// c06EmptyOperand: IN / ANY / ALL over a sub-query that returns no row are decided by the documented expansions
// (empty OR = FALSE, empty AND = TRUE) whatever the left operand is, NULL included.
func c06EmptyOperand(w *core.Worker, s *core.Sess) {
	core.WriteFiles(w.Work, map[string]string{"empty06.csv": "x\n"})
	n := 0
	for _, a := range c06Pool {
		q := fmt.Sprintf("SELECT (%s) IN (SELECT x FROM empty06), (%s) NOT IN (SELECT x FROM empty06), (%s) = ANY (SELECT x FROM empty06), (%s) < ANY (SELECT x FROM empty06), (%s) = ALL (SELECT x FROM empty06), (%s) >= ALL (SELECT x FROM empty06), (%s) <> ALL (SELECT x FROM empty06)", a.SQL, a.SQL, a.SQL, a.SQL, a.SQL, a.SQL, a.SQL)
		r := s.Exec(q)
		if r.Err != nil || len(r.Views) != 1 {
			w.Violation("eval-error", fmt.Sprintf("%s -> %v", q, r.Err), c06Replay{Expr: q, A: a.SQL})
			continue
		}
		want := []int8{-1, 1, -1, -1, 1, 1, 1}
		names := []string{"IN", "NOT IN", "= ANY", "< ANY", "= ALL", ">= ALL", "<> ALL"}
		for k := range want {
			g, ok := ternCell(r.Views[0].Rows[0][k])
			if !ok || g != want[k] {
				w.Violation("expansion:empty:"+names[k], fmt.Sprintf("(%s) %s (a sub-query without rows) = %v, the documented expansion over no element gives %s", a.SQL, names[k], r.Views[0].Rows[0][k], map[int8]string{1: "TRUE", -1: "FALSE"}[want[k]]), c06Replay{Expr: q, A: a.SQL, Got: r.Views[0].Rows[0][k].String()})
			}
			n++
		}
	}
	w.Count("expansions_over_an_empty_subquery", int64(n))
}

func c06Kleene(w *core.Worker, s *core.Sess) {
	c06EmptyOperand(w, s)
	car := map[int8][]string{
		1:  {"TRUE", "BOOLEAN(TRUE)", "1", "'t'", "'true'", "1.0", "'1'", "(1 = 1)"},
		-1: {"FALSE", "BOOLEAN(FALSE)", "0", "'f'", "'false'", "0.0", "'0'", "(1 = 2)"},
		0:  {"UNKNOWN", "NULL", "2", "'abc'", "DATETIME('2012-02-03')", "''", "(1 = NULL)", "0.5"},
	}
	n := 0
	for ta, as := range car {
		for tb, bs := range car {
			for _, a := range as {
				for _, b := range bs {
					q := fmt.Sprintf("SELECT %s AND %s, %s OR %s, NOT %s, !%s", a, b, a, b, a, a)
					r := s.Exec(q)
					if r.Err != nil || len(r.Views) != 1 {
						w.Violation("eval-error", fmt.Sprintf("%s -> %v", q, r.Err), c06Replay{Expr: q})
						continue
					}
					row := r.Views[0].Rows[0]
					want := []int8{tAnd(ta, tb), tOr(ta, tb), tNot(ta), tNot(ta)}
					for k, nm := range []string{"AND", "OR", "NOT", "!"} {
						g, ok := ternCell(row[k])
						if !ok || g != want[k] {
							w.Violation("kleene:"+nm, fmt.Sprintf("%s with a=%s b=%s gives %v, Kleene logic gives %s", nm, a, b, row[k], ternName(want[k])), c06Replay{Expr: q})
						}
					}
					n++
				}
			}
		}
	}
	w.Count("kleene_carrier_pairs", int64(n))
	w.Sample("SELECT 'abc' AND 0, 'abc' OR 0, NOT 'abc'  -- every carrier pair of the three ternary values")
	w.Case("kleene", n == 24*24)
}

func c06Triples(w *core.Worker, s *core.Sess, i int) {
	rng := w.Rng(i, "tri")
	P := len(c06Pool)
	ok := 0
	var ids []string
	for k := 0; k < 200; k++ {
		a, x, y, z := c06Pool[rng.Intn(P)], c06Pool[rng.Intn(P)], c06Pool[rng.Intn(P)], c06Pool[rng.Intn(P)]
		A, X, Y, Z := "("+a.SQL+")", "("+x.SQL+")", "("+y.SQL+")", "("+z.SQL+")"
		op := cmpOps[rng.Intn(6)]
		tt := []string{"TRUE", "FALSE", "UNKNOWN"}[rng.Intn(3)]
		pairs := [][2]string{
			{A + " BETWEEN " + X + " AND " + Y, X + " <= " + A + " AND " + A + " <= " + Y},
			{A + " NOT BETWEEN " + X + " AND " + Y, "NOT (" + X + " <= " + A + " AND " + A + " <= " + Y + ")"},
			{A + " IN (" + X + ", " + Y + ", " + Z + ")", A + " = " + X + " OR " + A + " = " + Y + " OR " + A + " = " + Z},
			{A + " NOT IN (" + X + ", " + Y + ", " + Z + ")", A + " <> " + X + " AND " + A + " <> " + Y + " AND " + A + " <> " + Z},
			{A + " " + op + " ANY (" + X + ", " + Y + ", " + Z + ")", A + " " + op + " " + X + " OR " + A + " " + op + " " + Y + " OR " + A + " " + op + " " + Z},
			{A + " " + op + " ALL (" + X + ", " + Y + ", " + Z + ")", A + " " + op + " " + X + " AND " + A + " " + op + " " + Y + " AND " + A + " " + op + " " + Z},
			{"CASE " + A + " WHEN " + X + " THEN 1 WHEN " + Y + " THEN 2 ELSE 3 END", "CASE WHEN " + A + " = " + X + " THEN 1 WHEN " + A + " = " + Y + " THEN 2 ELSE 3 END"},
		}
		q := "SELECT "
		for j, p := range pairs {
			if j > 0 {
				q += ", "
			}
			q += "(" + p[0] + "), (" + p[1] + ")"
		}
		q += ", (" + A + " IS " + tt + "), (" + A + " IS NOT " + tt + "), (" + A + " IS NULL)"
		r := s.Exec(q)
		if r.Err != nil || len(r.Views) != 1 {
			w.Violation("eval-error", fmt.Sprintf("%s -> %v", q, r.Err), c06Replay{Expr: q})
			continue
		}
		row := r.Views[0].Rows[0]
		names := []string{"BETWEEN", "NOT BETWEEN", "IN", "NOT IN", "ANY", "ALL", "CASE"}
		for j := range pairs {
			if row[2*j] != row[2*j+1] {
				w.Violation("expansion:"+names[j], fmt.Sprintf("%s = %v but its documented expansion %s = %v", pairs[j][0], row[2*j], pairs[j][1], row[2*j+1]), c06Replay{Expr: q})
			}
		}
		ta := a.V.asTern()
		if !a.V.Odd {
			wantIs := int8(-1)
			if ta == ternOf(tt) {
				wantIs = 1
			}
			g1, _ := ternCell(row[14])
			g2, _ := ternCell(row[15])
			if g1 != wantIs || g2 != -wantIs {
				w.Violation("expansion:IS", fmt.Sprintf("%s IS %s = %v, IS NOT = %v; ternary value of the operand is %s", A, tt, row[14], row[15], ternName(ta)), c06Replay{Expr: q})
			}
			g3, _ := ternCell(row[16])
			if (g3 == 1) != (a.V.K == 'N') {
				w.Violation("expansion:IS NULL", fmt.Sprintf("%s IS NULL = %v", A, row[16]), c06Replay{Expr: q})
			}
		}
		ok++
		if k < 2 {
			ids = append(ids, pairs[k][0])
		}
	}
	w.Count("triples_evaluated", int64(ok))
	if i%50 == 0 {
		w.Sample(ids)
	}
	w.Case(core.Digest(append([]string{"tri"}, ids...)...), ok == 200)
}

func absU(i int64) uint64 {
	if i < 0 {
		return uint64(-(i + 1)) + 1
	}
	return uint64(i)
}

// c06SessionFormats: the comparison laws under datetime formats the session adds itself — also formats that consist of digits
// only, so that one text is a number and a datetime at once. For every ordered pair of a small pool: a=b iff b=a, a<b iff
// b>a, a<=b iff b>=a, a<>b iff NOT(a=b); and two texts that denote one instant under the format are equal.
func c06SessionFormats(w *core.Worker) {
	type fp struct {
		format string
		pool   []string
		same   [][2]string
	}
	for _, f := range []fp{
		{"%Y%m%d", []string{"'20120101'", "'20120102'", "'2012-01-01'", "'2012-01-02'", "DATETIME('2012-01-01')", "20120101", "'20120101.0'", "'abc'", "NULL", "'2012-01-01 00:00:00'", "1", "TRUE", "'2012/01/01'", "20120101.5", "''"},
			[][2]string{{"'20120101'", "'2012-01-01'"}, {"'20120101'", "DATETIME('2012-01-01')"}, {"'20120102'", "'2012-01-02'"}, {"'20120101'", "'2012/01/01'"}}},
		{"%e/%c/%y", []string{"'5/3/21'", "'05/03/21'", "'2021-03-05'", "DATETIME('2021-03-05')", "'6/3/21'", "'5'", "'x'", "NULL", "5", "'5/3/21 '", "FALSE"},
			[][2]string{{"'5/3/21'", "'05/03/21'"}, {"'5/3/21'", "'2021-03-05'"}, {"'05/03/21'", "DATETIME('2021-03-05')"}}},
		{"%H%i", []string{"'0915'", "'915'", "915", "'09:15'", "'x'", "NULL", "'0916'", "0915.0"}, nil},
	} {
		s, err := core.NewSess(core.SessOpts{Dir: w.Work})
		if err != nil {
			w.Inconclusive(err.Error())
			return
		}
		// the same texts are first compared in this process under another format of the session (a different session, as a
		// library user or the shell would have them one after the other): what a text is depends on the formats in force now
		if s0, e0 := core.NewSess(core.SessOpts{Dir: w.Work}); e0 == nil {
			s0.Exec("SET @@DATETIME_FORMAT TO '%H::%i::decoy';")
			for _, a := range f.pool {
				s0.Exec(fmt.Sprintf("SELECT (%s) = (%s), (%s) < (%s);", a, f.pool[0], a, f.pool[len(f.pool)-1]))
			}
			s0.Exec("REMOVE '%H::%i::decoy' FROM @@DATETIME_FORMAT; ADD " + core.SQLStr(f.format) + " TO @@DATETIME_FORMAT;")
			for _, pr := range f.same {
				res := s0.Exec(fmt.Sprintf("SELECT (%s) = (%s);", pr[0], pr[1]))
				if res.Err == nil && len(res.Views) == 1 {
					if v, ok := ternCell(res.Views[0].Rows[0][0]); ok && v != 1 {
						w.Violation("ladder:=:session-format", fmt.Sprintf("after the session's datetime format was replaced by %s: (%s) = (%s) is %s although both denote one instant", f.format, pr[0], pr[1], ternName(v)), c06Replay{A: pr[0], B: pr[1], Expr: "REMOVE / ADD @@DATETIME_FORMAT " + f.format})
					}
				}
			}
			s0.Close()
		}
		s.Exec("SET @@DATETIME_FORMAT TO " + core.SQLStr(f.format) + ";")
		ev := func(a, b string) ([6]int8, bool) {
			var out [6]int8
			res := s.Exec(fmt.Sprintf("SELECT (%s) = (%s), (%s) <> (%s), (%s) < (%s), (%s) <= (%s), (%s) > (%s), (%s) >= (%s);", a, b, a, b, a, b, a, b, a, b, a, b))
			if res.Err != nil || len(res.Views) != 1 || len(res.Views[0].Rows) != 1 {
				return out, false
			}
			for k := 0; k < 6; k++ {
				v, ok := ternCell(res.Views[0].Rows[0][k])
				if !ok {
					return out, false
				}
				out[k] = v
			}
			return out, true
		}
		for _, a := range f.pool {
			for _, b := range f.pool {
				ab, ok1 := ev(a, b)
				ba, ok2 := ev(b, a)
				if !ok1 || !ok2 {
					continue
				}
				w.Count("pairs_compared_under_a_datetime_format_of_the_session", 1)
				viol := func(sig, what string) {
					w.Violation(sig+":session-format", fmt.Sprintf("DATETIME_FORMAT %s, a=%s b=%s: %s", f.format, a, b, what), c06Replay{A: a, B: b, Expr: "SET @@DATETIME_FORMAT TO " + f.format})
				}
				if ab[0] != ba[0] {
					viol("law:eq-symmetric", fmt.Sprintf("a=b is %s but b=a is %s", ternName(ab[0]), ternName(ba[0])))
				}
				if ab[1] != tNot(ab[0]) {
					viol("law:ne-not-eq", fmt.Sprintf("a<>b is %s but a=b is %s", ternName(ab[1]), ternName(ab[0])))
				}
				if ab[2] != ba[4] {
					viol("law:lt-gt", fmt.Sprintf("a<b is %s but b>a is %s", ternName(ab[2]), ternName(ba[4])))
				}
				if ab[3] != ba[5] {
					viol("law:le-ge", fmt.Sprintf("a<=b is %s but b>=a is %s", ternName(ab[3]), ternName(ba[5])))
				}
			}
		}
		for _, pr := range f.same {
			for _, o := range [][2]string{{pr[0], pr[1]}, {pr[1], pr[0]}} {
				if r, ok := ev(o[0], o[1]); ok && r[0] != 1 {
					w.Violation("ladder:=:session-format", fmt.Sprintf("DATETIME_FORMAT %s: (%s) = (%s) is %s although both denote one instant and no earlier step of the ladder applies", f.format, o[0], o[1], ternName(r[0])), c06Replay{A: o[0], B: o[1], Expr: "SET @@DATETIME_FORMAT TO " + f.format})
				}
			}
		}
		s.Close()
	}
}

// c06Casts: a text that spells a floating-point number converts to an integer as that number does (INTEGER(x) = INTEGER(FLOAT(x)):
// NULL for NaN and the infinities, the decimal places dropped otherwise), and the conversions of one value agree whichever
// carrier hands it over (literal, variable).
func c06Casts(w *core.Worker, s *core.Sess) {
	for _, x := range []string{"'NaN'", "'Inf'", "'-Inf'", "'+Inf'", "'nan'", "'Infinity'", "'1.5'", "'-1.5'", "'2.9e2'", "'1e3'", "' 7.25 '", "'0.0'", "'-0.9'", "'1e-3'", "'12'", "'abc'", "''", "NULL", "'1_0'", "'0x10'", "'1.5e'", "'.5'", "'5.'"} {
		res := s.Exec(fmt.Sprintf("VAR @c := %s; SELECT INTEGER(%s), INTEGER(FLOAT(%s)), FLOAT(%s), INTEGER(@c), INTEGER(FLOAT(@c)); DISPOSE @c;", x, x, x, x))
		if res.Err != nil || len(res.Views) != 1 || len(res.Views[0].Rows) != 1 {
			continue
		}
		r := res.Views[0].Rows[0]
		w.Count("casts_compared", 1)
		if r[2].T != 'N' && (r[0] != r[1] || r[3] != r[4] || r[0] != r[3]) {
			w.Violation("cast:integer-of-a-float-text", fmt.Sprintf("INTEGER(%s) = %v but INTEGER(FLOAT(%s)) = %v (FLOAT(%s) = %v; through a variable: %v, %v)", x, r[0], x, r[1], x, r[2], r[3], r[4]), c06Replay{A: x, Expr: "INTEGER(x) = INTEGER(FLOAT(x))"})
		}
	}
}
