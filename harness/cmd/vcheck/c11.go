package main

import (
	"bytes"
	"fmt"
	"os"
	"path/filepath"
	"strings"
	"time"

	"verif/internal/core"
)

func init() {
	core.Register(&core.Spec{
		ID: "C11", Level: "fault_enumeration",
		Rule: "case kinds (i mod 4): 0,1 = a data-changing procedure from the C01 generator, 2 = a read-only procedure, 3 = lock scenarios (orphan lock file, live competing holder, signal while waiting for a lock). A tracing run lists every hook point the procedure reaches (statement starts, load begin/end, every lock-acquisition / commit / close step in lib/file, transaction commit/rollback steps); the procedure is then re-run once per (point,hit) x {SIGINT,SIGTERM,SIGQUIT,SIGHUP} with the signal delivered to itself exactly there (quick: up to 36 points per procedure, thorough: all), plus termination by error, EXIT, lock timeout and a COMMIT whose publishing rename is refused (strace EPERM injection, from the first / from the second rename on). " +
			"After every run the directory must hold no .lock/.rlock/.temp file and no table that is not part of the last completed COMMIT; a read-only procedure must leave every entry identical in bytes and mtime. non-trivial = the signal was really delivered at the point (process ended by it or with the signal exit code); distinct = (procedure, point, signal).",
		Quick: 24, Thorough: 600, FloorQuick: 700, FloorThorough: 18000,
		CaseTimeout: 20 * time.Minute,
		Assumptions: []string{"SIGKILL is out of scope (C10)", "--out files are outputs, not tables created by a transaction"},
		Fn:          c11Case,
	})
}

func c11Leftovers(w *core.Worker, p *txProc, r txRun, variant string, env []string, allowed map[string]bool) {
	c11LeftoversDumps(w, p, r, r.res.Stdout, variant, env, allowed)
}

// c11LeftoversDumps: stdout names the output the commit dumps are read from (the undisturbed run's when this run's own
// standard output was cut off on purpose)
func c11LeftoversDumps(w *core.Worker, p *txProc, r txRun, stdout, variant string, env []string, allowed map[string]bool) {
	dumps := parseDumps(stdout)
	var cd []txDump
	for _, d := range dumps {
		if d.Tag == "c" && d.Done {
			cd = append(cd, d)
		}
	}
	committed := map[string]bool{}
	if r.commits > 0 && r.commits <= len(cd) {
		for tn := range cd[r.commits-1].Tables {
			committed[tn+".csv"] = true
		}
	}
	for _, n := range r.snap.Names() {
		if allowed[n] {
			continue
		}
		if core.IsControlFile(n) {
			w.Violation("leftover-control-file@"+pointName(strings.TrimPrefix(variant, "SIG")), fmt.Sprintf("[%s] control file %s left in the repository after csvq ended (exit %d signal %d); directory: %v", variant, n, r.res.Code, r.res.Signal, r.snap.Names()),
				txReplay{Files: small(p.Files), Program: p.Text(), Env: env, Variant: variant})
			continue
		}
		if _, initial := p.Files[n]; !initial && !committed[n] {
			w.Violation("uncommitted-table-left", fmt.Sprintf("[%s] file %s exists although the transaction that created it was not committed (exit %d signal %d, %d commits completed)", variant, n, r.res.Code, r.res.Signal, r.commits),
				txReplay{Files: small(p.Files), Program: p.Text(), Env: env, Variant: variant})
		}
	}
	if strings.Contains(r.res.Stderr, "Fatal Error") || strings.Contains(r.res.Stderr, "panic:") {
		w.Violation("internal-failure", fmt.Sprintf("[%s] %s", variant, truncateStr(r.res.Stderr, 300)), txReplay{Files: small(p.Files), Program: p.Text(), Env: env, Variant: variant})
	}
}

func c11Points(r txRun) []string {
	var pts []string
	for _, e := range r.trace {
		if !strings.HasPrefix(e.Name, "worker.") {
			pts = append(pts, e.Point)
		}
	}
	return pts
}

func c11Case(w *core.Worker, i int) {
	r := w.Rng(i, "")
	if i%4 == 3 {
		c11Locks(w, r, i)
		return
	}
	var p *txProc
	if i%4 == 2 {
		p = genReadOnlyProc(r)
	} else {
		p = genTxProc(r, r.Range(2, 6))
	}
	if i%4 == 1 {
		// statements preloaded from ./csvqrc run before the program, in the same session: ending csvq there is ending it
		p.Files["csvqrc"] = "SELECT COUNT(*) FROM `f1` FOR UPDATE;\nUPDATE `f2` SET c1 = 'rc' WHERE id = 1;\n"
		w.Count("procedures_with_a_preloaded_part", 1)
	}
	base := core.FreshDir(w.Work, "base")
	_ = os.WriteFile(filepath.Join(w.Work, "noop.sql"), []byte("PRINT 'sourced';\n"), 0644)
	core.WriteFiles(base, p.Files)
	linked := ""
	if i%8 == 4 || i%8 == 6 {
		// the first table is a symbolic link to a file in another directory: its control files, wherever csvq puts them, are
		// gone when csvq has ended
		for _, n := range []string{"f1.csv", "f1.tsv", "f1.json", "f1.jsonl", "f1.ltsv"} {
			if _, ok := p.Files[n]; ok {
				c10Link(base, []string{n})
				linked = n
				w.Count("procedures_over_a_symlinked_table", 1)
				break
			}
		}
	}
	// make mtimes old so that "touched" is observable
	old := time.Now().Add(-48 * time.Hour)
	for n := range p.Files {
		_ = os.Chtimes(filepath.Join(base, n), old, old)
	}
	baseSnap := core.TakeSnap(base)
	digest := core.Digest(p.Text(), fmt.Sprint(len(p.Files)))
	allowed := map[string]bool{}
	for n := range p.Files {
		allowed[n] = true
	}
	if linked != "" {
		allowed["store"], allowed["store/"+linked] = true, true
	}
	baselineStdout := ""
	judge := func(d string, run txRun, variant string, env []string) {
		if run.res.Signal == 9 && !run.res.TimedOut {
			w.Inconclusive(fmt.Sprintf("[%s] the process was ended by SIGKILL from outside the case (out of scope: C10)", variant))
			return
		}
		if p.ReadOnly {
			df := core.Diff(baseSnap, run.snap)
			if !df.Empty() {
				w.Violation("read-only-modified", fmt.Sprintf("[%s] a read-only procedure changed the repository: %s", variant, df), txReplay{Files: small(p.Files), Program: p.Text(), Env: env, Variant: variant})
			}
		}
		if strings.HasPrefix(variant, "stdout-reader-gone") {
			c11LeftoversDumps(w, p, run, baselineStdout, variant, env, allowed)
			return
		}
		c11Leftovers(w, p, run, variant, env, allowed)
	}
	head := -1 // >= 0: standard output is a pipe whose reader goes away after that many bytes
	runKeep := func(prog string, env []string) (string, txRun) {
		d := filepath.Join(w.Work, "var")
		_ = os.RemoveAll(d)
		copyDir(base, d)
		for n := range p.Files {
			_ = os.Chtimes(filepath.Join(d, n), old, old)
		}
		tp := filepath.Join(w.Work, "var.trace")
		_ = os.Remove(tp)
		res := core.RunProc(core.ProcOpts{Dir: d, Args: csvqArgs("-q", "-f", "JSONL", "--wait-timeout", "2", prog), Env: append([]string{"VERIF_TRACE=" + tp}, env...), Timeout: 120 * time.Second, HeadStdout: head >= 0, HeadBytes: head})
		run := txRun{res: res, trace: core.ReadTrace(tp), snap: core.TakeSnap(d)}
		for _, e := range run.trace {
			if e.Name == "txcommit.end" {
				run.commits++
			}
		}
		return d, run
	}
	d, run := runKeep(p.Text(), nil)
	if run.res.Code != 0 && !strings.Contains(run.res.Stderr, "failed to commit") {
		judge(d, run, "none (the procedure ended in an error of its own)", nil)
		w.Inconclusive("generated procedure fails by itself: " + truncateStr(run.res.Stderr, 200))
		return
	}
	// (a COMMIT that is refused — a header-less table with no record left — is one more way of ending: judged like the others)
	judge(d, run, "none", nil)
	baselineStdout = run.res.Stdout
	w.Case(digest+"/none", true)
	if i < 4 {
		w.Sample(map[string]interface{}{"procedure": truncateStr(p.Text(), 1200), "read_only": p.ReadOnly, "hook_points_reached": len(c11Points(run))})
	}
	// terminations by statements
	for _, st := range []string{"SELECT * FROM no_such_table;", "EXIT 2;", "TRIGGER ERROR;", "SELECT 1 +;"} {
		d, vr := runKeep(p.Text()+"\n"+st, nil)
		judge(d, vr, "end:"+st, nil)
		w.Case(digest+"/end:"+st, vr.res.Code != 0)
	}
	// the reader of standard output goes away (`csvq … | head`): csvq meets a broken pipe at its next write — while it holds
	// whatever the procedure has acquired by then
	for _, hb := range []int{0, 1, 40, 400, 3000} {
		head = hb
		d, vr := runKeep(p.Text(), nil)
		head = -1
		variant := fmt.Sprintf("stdout-reader-gone-after-%d-bytes", hb)
		judge(d, vr, variant, nil)
		if vr.res.Signal == 13 || vr.res.Code != 0 {
			w.Count("runs_ended_by_a_broken_pipe", 1)
		}
		w.Note("signal_points", "broken-pipe")
		w.Case(digest+"/"+variant, vr.res.Signal == 13 || vr.res.Code != 0)
	}
	pts := c11Points(run)
	max := 36
	if w.Tier == "thorough" {
		max = len(pts)
	}
	idx := r.Perm(len(pts))
	if len(idx) > max {
		idx = idx[:max]
	}
	sigs := []string{"INT", "TERM", "QUIT", "HUP"}
	for k, pi := range idx {
		pt := pts[pi]
		for si, sg := range sigs {
			if w.Tier != "thorough" && (k+si)%4 != 0 && !strings.HasPrefix(pt, "stmt") {
				// quick: every point gets at least one signal kind, rotating
				if (k+si)%4 != 1 || k%2 == 0 {
					continue
				}
			}
			env := []string{fmt.Sprintf("VERIF_SIGNAL_AT=%s:%s", pt, sg)}
			variant := "SIG" + sg + "@" + pt
			if (k+si)%4 == 1 {
				// the same signal again once the first has been taken
				env = append(env, "VERIF_SIGNAL_TWICE=1")
				variant = "SIG" + sg + "x2@" + pt
				w.Count("runs_with_a_repeated_signal", 1)
			}
			d, vr := runKeep(p.Text(), env)
			judge(d, vr, variant, env)
			delivered := vr.res.Signal != 0 || vr.res.Code >= 128 || vr.res.Code == 8
			w.Note("signal_points", pointName(pt))
			w.Case(digest+"/"+variant, delivered)
		}
	}
	// the publishing step itself is refused (the rename of the temp file over the table answers EPERM: a sticky directory, a
	// table owned by somebody else, a read-only bind mount): the COMMIT fails, and that is one more way of ending — from the
	// first rename on, or only from the second (the first table is published, the rest is not)
	if !p.ReadOnly {
		for _, when := range []string{"1+", "2+"} {
			dd := filepath.Join(w.Work, "var")
			_ = os.RemoveAll(dd)
			copyDir(base, dd)
			res := core.RunProc(core.ProcOpts{Dir: dd, Args: csvqArgs("-q", "-f", "JSONL", "--wait-timeout", "2", p.Text()), Timeout: 120 * time.Second,
				Prefix: []string{"strace", "-f", "-o", "/dev/null", "-e", "trace=rename,renameat,renameat2", "-e", "inject=rename,renameat,renameat2:error=EPERM:when=" + when}})
			variant := "rename-refused:" + when
			for _, n := range core.TakeSnap(dd).Names() {
				if core.IsControlFile(n) {
					w.Violation("leftover-control-file@rename-refused", fmt.Sprintf("[%s] control file %s left in the repository after csvq ended (exit %d): %s", variant, n, res.Code, truncateStr(res.Stderr, 200)),
						txReplay{Files: small(p.Files), Program: p.Text(), Variant: variant})
				}
			}
			if strings.Contains(res.Stderr, "Fatal Error") || strings.Contains(res.Stderr, "panic:") {
				w.Violation("internal-failure", fmt.Sprintf("[%s] %s", variant, truncateStr(res.Stderr, 300)), txReplay{Files: small(p.Files), Program: p.Text(), Variant: variant})
			}
			if strings.Contains(res.Stderr, "failed to commit") {
				w.Count("commits_refused_at_the_rename", 1)
			}
			w.Note("signal_points", "rename-refused")
			w.Case(digest+"/"+variant, strings.Contains(res.Stderr, "failed to commit"))
		}
	}
	// the N-th attempt to open or create a file is refused (EMFILE — the descriptor table is full — or ENOSPC / EACCES): whatever
	// had been acquired before must be given back, also by the acquisition that was half-way through its control files
	{
		ns := r.Perm(48)
		cnt := 10
		if w.Tier == "thorough" {
			cnt = 48
		}
		for _, n0 := range ns[:cnt] {
			n := n0 + 3 // the first opens belong to the Go runtime
			errno := []string{"EMFILE", "ENOSPC", "EACCES", "ENAMETOOLONG"}[n%4]
			dd := filepath.Join(w.Work, "var")
			_ = os.RemoveAll(dd)
			copyDir(base, dd)
			res := core.RunProc(core.ProcOpts{Dir: dd, Args: csvqArgs("-q", "-f", "JSONL", "--wait-timeout", "0.3", p.Text()), Timeout: 120 * time.Second,
				Prefix: []string{"strace", "-f", "-o", "/dev/null", "-e", "trace=openat", "-e", fmt.Sprintf("inject=openat:error=%s:when=%d", errno, n)}})
			variant := fmt.Sprintf("open-refused:%s:%d", errno, n)
			for _, nm := range core.TakeSnap(dd).Names() {
				if core.IsControlFile(nm) {
					w.Violation("leftover-control-file@open-refused", fmt.Sprintf("[%s] control file %s left in the repository after csvq ended (exit %d): %s", variant, nm, res.Code, truncateStr(res.Stderr, 200)),
						txReplay{Files: small(p.Files), Program: p.Text(), Variant: variant})
				}
			}
			if strings.Contains(res.Stderr, "Fatal Error") || strings.Contains(res.Stderr, "panic:") {
				w.Violation("internal-failure", fmt.Sprintf("[%s] %s", variant, truncateStr(res.Stderr, 300)), txReplay{Files: small(p.Files), Program: p.Text(), Variant: variant})
			}
			if res.Code != 0 {
				w.Count("runs_ended_by_a_refused_open", 1)
			}
			w.Note("signal_points", "open-refused")
			w.Case(digest+"/"+variant, res.Code != 0)
		}
	}
	// two signals in a row at one point
	if len(pts) > 2 {
		pt := pts[r.Intn(len(pts))]
		env := []string{"VERIF_SIGNAL_AT=" + pt + ":INT", "VERIF_DELAY=" + pointName(pt) + "=1"}
		d, vr := runKeep(p.Text(), env)
		judge(d, vr, "SIGINT+delay@"+pt, env)
	}
}

// c11Locks: termination while competing for a lock.
func c11Locks(w *core.Worker, r *core.Rng, i int) {
	p := genTxProc(r, 0)
	base := core.FreshDir(w.Work, "base")
	_ = os.WriteFile(filepath.Join(w.Work, "noop.sql"), []byte("PRINT 'sourced';\n"), 0644)
	core.WriteFiles(base, p.Files)
	baseSnap := core.TakeSnap(base)
	digest := core.Digest("locks", fmt.Sprint(i))
	f1 := p.Initial[0].File
	stmts := []string{"UPDATE f1 SET c1 = 'w' WHERE id = 1;", "SELECT * FROM f1;", "INSERT INTO f1 VALUES (9, 'a', 'b');", "SELECT COUNT(*) FROM f1 FOR UPDATE;", "DELETE FROM f1;"}
	// (1) orphan lock / rlock files
	for _, orphan := range []string{"." + f1 + ".lock", "." + f1 + ".abcdefghijkl.rlock"} {
		for _, st := range stmts {
			d := core.FreshDir(w.Work, "var")
			copyDir(base, d)
			_ = os.WriteFile(filepath.Join(d, orphan), nil, 0600)
			before := core.TakeSnap(d)
			res := core.RunProc(core.ProcOpts{Dir: d, Args: csvqArgs("-q", "--wait-timeout", "0.3", st), Timeout: 60 * time.Second})
			after := core.TakeSnap(d)
			df := core.Diff(before, after)
			blocked := res.Code == 8
			readerVsRlock := strings.HasSuffix(orphan, ".rlock") && strings.HasPrefix(st, "SELECT * ")
			if !blocked && !readerVsRlock {
				w.Violation("orphan-lock-ignored", fmt.Sprintf("%s ran with exit %d although %s exists: %s", st, res.Code, orphan, truncateStr(res.Stderr, 200)), txReplay{Files: small(p.Files), Program: st, Variant: "orphan " + orphan})
			}
			if blocked && !df.Empty() {
				w.Violation("timeout-changed-something", fmt.Sprintf("%s timed out on %s but the repository changed: %s", st, orphan, df), txReplay{Files: small(p.Files), Program: st, Variant: "orphan " + orphan})
			}
			if readerVsRlock && !df.Empty() {
				w.Violation("read-only-modified", fmt.Sprintf("%s next to another reader's rlock changed the repository: %s", st, df), txReplay{Files: small(p.Files), Program: st, Variant: "orphan " + orphan})
			}
			w.Case(digest+orphan+st, blocked || readerVsRlock)
			// (3) signal while waiting in the retry loop
			if blocked {
				for _, sg := range []string{"INT", "TERM"} {
					d2 := core.FreshDir(w.Work, "var2")
					copyDir(base, d2)
					_ = os.WriteFile(filepath.Join(d2, orphan), nil, 0600)
					b2 := core.TakeSnap(d2)
					env := []string{"VERIF_SIGNAL_AT=retry#3:" + sg}
					res2 := core.RunProc(core.ProcOpts{Dir: d2, Args: csvqArgs("-q", "--wait-timeout", "20", st), Env: env, Timeout: 60 * time.Second})
					df2 := core.Diff(b2, core.TakeSnap(d2))
					if !df2.Empty() {
						w.Violation("signal-in-retry-loop-leftover", fmt.Sprintf("%s interrupted by SIG%s while waiting for %s: %s (exit %d)", st, sg, orphan, df2, res2.Code), txReplay{Files: small(p.Files), Program: st, Env: env, Variant: "retry " + orphan})
					}
					if res2.Wall > 15*time.Second {
						w.Violation("signal-ignored-in-retry-loop", fmt.Sprintf("%s kept waiting %v after SIG%s", st, res2.Wall, sg), txReplay{Files: small(p.Files), Program: st, Env: env})
					}
					w.Note("signal_points", "retry")
					w.Case(digest+orphan+st+sg, res2.Code != 0 || res2.Signal != 0)
				}
			}
		}
	}
	// (2) live competing holder: H keeps f1 locked for ~1.2 s inside its commit
	for _, st := range stmts {
		d := core.FreshDir(w.Work, "var")
		copyDir(base, d)
		done := make(chan core.ProcResult, 1)
		go func() {
			done <- core.RunProc(core.ProcOpts{Dir: d, Args: csvqArgs("-q", "UPDATE f1 SET c2 = 'holder';"), Env: []string{"VERIF_DELAY=txcommit.begin=1200"}, Timeout: 60 * time.Second})
		}()
		lock := filepath.Join(d, "."+f1+".lock")
		ok := false
		for k := 0; k < 400; k++ {
			if _, err := os.Stat(lock); err == nil {
				ok = true
				break
			}
			time.Sleep(5 * time.Millisecond)
		}
		if !ok {
			<-done
			w.Inconclusive("holder never took the lock")
			continue
		}
		res := core.RunProc(core.ProcOpts{Dir: d, Args: csvqArgs("-q", "--wait-timeout", "0.2", st), Timeout: 60 * time.Second})
		hres := <-done
		after := core.TakeSnap(d)
		if hres.Code != 0 {
			w.Inconclusive("holder failed: " + hres.String())
			continue
		}
		for _, n := range after.Names() {
			if core.IsControlFile(n) {
				w.Violation("leftover-control-file@lock-timeout", fmt.Sprintf("after a lock timeout (exit %d) of %q against a live holder the repository holds %s", res.Code, st, n), txReplay{Files: small(p.Files), Program: st, Variant: "live holder"})
			}
		}
		if res.Code == 8 {
			// the waiting process must not have changed anything: the table holds exactly the holder's update
			want := core.FreshDir(w.Work, "want")
			copyDir(base, want)
			core.RunProc(core.ProcOpts{Dir: want, Args: csvqArgs("-q", "UPDATE f1 SET c2 = 'holder';")})
			ws := core.TakeSnap(want)
			if !bytes.Equal(ws[f1].Data, after[f1].Data) {
				w.Violation("timeout-changed-something", fmt.Sprintf("%q timed out but %s differs from what the holder alone writes", st, f1), txReplay{Files: small(p.Files), Program: st, Variant: "live holder"})
			}
		}
		w.Note("signal_points", "lock-timeout-vs-live-holder")
		w.Case(digest+"live"+st, res.Code == 8)
	}
	_ = baseSnap
	// (7) tables whose file name leaves no room for the names of their control files (NAME_MAX is 255 bytes: ".<name>.lock" fits
	// where ".<name>.<12 characters>.rlock" does not, or neither fits): every statement ends cleanly and leaves nothing
	for _, ln := range []int{230, 236, 243, 249, 250, 255} {
		name := strings.Repeat("n", ln-4) + ".csv"
		for _, st := range []string{"SELECT * FROM `%s`;", "UPDATE `%s` SET a = 2;", "SELECT COUNT(*) FROM `%s` FOR UPDATE;", "SELECT * FROM `%s` x JOIN f1 y ON x.a = y.id; UPDATE f1 SET c1 = 'z' WHERE id = 1;", "CREATE TABLE `X%s` (a, b);"} {
			d := core.FreshDir(w.Work, "longname")
			copyDir(base, d)
			_ = os.WriteFile(filepath.Join(d, name), []byte("a,b\n1,2\n"), 0644)
			prog := fmt.Sprintf(st, name)
			res := core.RunProc(core.ProcOpts{Dir: d, Args: csvqArgs("-q", "--wait-timeout", "0.3", prog), Timeout: 60 * time.Second})
			for _, nm := range core.TakeSnap(d).Names() {
				if core.IsControlFile(nm) {
					w.Violation("leftover-control-file@long-file-name", fmt.Sprintf("%s on a table whose file name has %d bytes (exit %d: %s) left %s", truncateStr(st, 60), ln, res.Code, truncateStr(res.Stderr, 120), truncateStr(nm, 40)), txReplay{Files: small(p.Files), Program: prog, Variant: "long file name"})
				}
			}
			if strings.Contains(res.Stderr, "Fatal Error") || strings.Contains(res.Stderr, "panic:") {
				w.Violation("internal-failure", fmt.Sprintf("[long file name %d] %s", ln, truncateStr(res.Stderr, 300)), txReplay{Files: small(p.Files), Program: prog, Variant: "long file name"})
			}
			w.Note("signal_points", "long-file-name")
			w.Case(digest+"long"+fmt.Sprint(ln)+st, true)
		}
	}
	// (6) a second table whose path differs from a held one only in letter case (a different file on this file system):
	// whatever csvq makes of it, a run that fails leaves nothing behind
	up := strings.ToUpper(f1)
	for _, prog := range []string{
		"UPDATE f1 SET c1 = 'h' WHERE id = 1; CREATE TABLE `" + up + "` (a, b);",
		"CREATE TABLE `zz.csv` (a); CREATE TABLE `ZZ.csv` (a); INSERT INTO `ZZ.csv` VALUES (1);",
		"SELECT COUNT(*) FROM f1 FOR UPDATE; CREATE TABLE `" + up + "` (a) AS SELECT 1;",
		"INSERT INTO f1 VALUES (901, 'x', 'y'); SELECT * FROM `" + up + "`;",
	} {
		d := core.FreshDir(w.Work, "cased")
		copyDir(base, d)
		before := core.TakeSnap(d)
		res := core.RunProc(core.ProcOpts{Dir: d, Args: csvqArgs("-q", "--wait-timeout", "0.3", prog), Timeout: 60 * time.Second})
		after := core.TakeSnap(d)
		for _, nm := range after.Names() {
			if core.IsControlFile(nm) {
				w.Violation("leftover-control-file@case-variant", fmt.Sprintf("%q (exit %d) left %s", prog, res.Code, nm), txReplay{Files: small(p.Files), Program: prog, Variant: "case variant"})
			}
		}
		if df := core.Diff(before, after); res.Code != 0 && !df.Empty() {
			w.Violation("failed-run-changed-something", fmt.Sprintf("%q failed (exit %d) but the repository changed: %s", prog, res.Code, df), txReplay{Files: small(p.Files), Program: prog, Variant: "case variant"})
		}
		w.Count("case_variant_runs", 1)
		w.Case(digest+"case"+prog, true)
	}
	// (5) --out: an output file that received nothing is removed again, wherever the procedure went in the meantime
	for _, outp := range []string{"result.out", "sub/result.out", "ABS"} {
		for _, prog := range []string{"SELECT * FROM no_such_table;", "VAR @x := 1; EXIT 3;", "VAR @x := 1;", "CHDIR 'sub'; SELECT * FROM no_such_table;", "CHDIR 'sub'; VAR @x := 1; EXIT 3;", "CHDIR 'sub'; VAR @x := 1;", "CHDIR 'sub'; CHDIR '..'; VAR @x := 1;", "UPDATE f1 SET c1 = 'o' WHERE id = 1; CHDIR 'sub'; EXIT;"} {
			d := core.FreshDir(w.Work, "outd")
			copyDir(base, d)
			_ = os.MkdirAll(filepath.Join(d, "sub"), 0755)
			op := outp
			if op == "ABS" {
				op = filepath.Join(d, "abs.out")
			}
			before := core.TakeSnap(d)
			res := core.RunProc(core.ProcOpts{Dir: d, Args: csvqArgs("-q", "--out", op, prog), Timeout: 60 * time.Second})
			df := core.Diff(before, core.TakeSnap(d))
			if !df.Empty() {
				w.Violation("out-file-left", fmt.Sprintf("csvq --out %s %q (exit %d) wrote no result but changed the repository: %s", outp, prog, res.Code, df), txReplay{Files: small(p.Files), Program: prog, Variant: "--out " + outp})
			}
			w.Count("out_file_runs", 1)
			w.Case(digest+"out"+outp+prog, true)
		}
	}
	// (4) racing acquisitions: A is held up at one step of its lock acquisition while B, started 150 ms later, is held up at one of its own
	// (the oracle does not depend on the timing: whatever the two did, nothing may be left once both have ended)
	type racer struct{ role, stmt, point string }
	var racers []racer
	for _, pt := range []string{"lock.checked", "lock.created", "lock.rechecked", "temp.created", "hold.x.begin"} {
		racers = append(racers, racer{"writer", "UPDATE f1 SET c1 = 'w' WHERE id = 1;", pt})
	}
	for _, pt := range []string{"rlock.checked", "rlock.lock_created", "rlock.rlock_created", "rlock.lock_released", "hold.s.begin"} {
		racers = append(racers, racer{"reader", "SELECT COUNT(*) FROM f1;", pt})
	}
	type pair struct{ a, b racer }
	var pairs []pair
	k := 0
	for _, a := range racers {
		for _, b := range racers {
			if k%6 == (i/4)%6 {
				pairs = append(pairs, pair{a, b})
			}
			k++
		}
	}
	sem := make(chan struct{}, 4)
	type outcome struct {
		pr     pair
		ra, rb core.ProcResult
		left   []string
	}
	outs := make(chan outcome, len(pairs))
	for n, pr := range pairs {
		d := filepath.Join(w.Work, fmt.Sprintf("race%d", n))
		_ = os.RemoveAll(d)
		copyDir(base, d)
		go func(pr pair, d string) {
			sem <- struct{}{}
			defer func() { <-sem }()
			ca := make(chan core.ProcResult, 1)
			go func() {
				ca <- core.RunProc(core.ProcOpts{Dir: d, Args: csvqArgs("-q", "--wait-timeout", "4", pr.a.stmt), Env: []string{"VERIF_DELAY=" + pr.a.point + "=400"}, Timeout: 60 * time.Second})
			}()
			time.Sleep(150 * time.Millisecond)
			rb := core.RunProc(core.ProcOpts{Dir: d, Args: csvqArgs("-q", "--wait-timeout", "4", pr.b.stmt), Env: []string{"VERIF_DELAY=" + pr.b.point + "=600"}, Timeout: 60 * time.Second})
			ra := <-ca
			var left []string
			for _, nm := range core.TakeSnap(d).Names() {
				if core.IsControlFile(nm) {
					left = append(left, nm)
				}
			}
			_ = os.RemoveAll(d)
			outs <- outcome{pr, ra, rb, left}
		}(pr, d)
	}
	for range pairs {
		o := <-outs
		desc := fmt.Sprintf("%s held at %s against %s held at %s", o.pr.a.role, o.pr.a.point, o.pr.b.role, o.pr.b.point)
		if len(o.left) > 0 {
			w.Violation("leftover-control-file@racing-acquisition", fmt.Sprintf("%s (exits %d and %d): after both ended the repository holds %v", desc, o.ra.Code, o.rb.Code, o.left),
				txReplay{Files: small(p.Files), Program: o.pr.a.stmt + " || " + o.pr.b.stmt, Env: []string{"VERIF_DELAY=" + o.pr.a.point + "=400", "VERIF_DELAY=" + o.pr.b.point + "=600"}, Variant: "racing acquisition"})
		}
		for _, rr := range []core.ProcResult{o.ra, o.rb} {
			if rr.Code != 0 && rr.Code != 8 {
				w.Violation("racing-acquisition-fails", fmt.Sprintf("%s: a process ended with exit %d: %s", desc, rr.Code, truncateStr(rr.Stderr, 200)), txReplay{Files: small(p.Files), Program: o.pr.a.stmt + " || " + o.pr.b.stmt, Variant: "racing acquisition"})
			}
		}
		w.Note("racing_pairs", o.pr.a.role+"@"+o.pr.a.point+"|"+o.pr.b.role+"@"+o.pr.b.point)
		w.Count("racing_acquisitions_run", 1)
		w.Case(digest+"race"+desc, o.ra.Code == 0 || o.rb.Code == 0)
	}
}
