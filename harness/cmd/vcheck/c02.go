package main

import (
	"bytes"
	"encoding/json"
	"fmt"
	"os"
	"path/filepath"
	"strings"
	"time"
	"unicode/utf16"
	"unicode/utf8"

	"verif/internal/core"
)

func init() {
	core.Register(&core.Spec{
		ID: "C02", Level: "exploration",
		Rule: "one case = one generated table (0..6 rows x 1..5 columns, every 12th case 300..420 rows, every 24th 1500..2500; cell texts from a hostile pool: delimiters, quotes, line breaks, tabs, colons, leading/trailing blanks, backslashes, empty text, NULL, non-ASCII, text an encoding cannot represent; one 'probe' cell per table names the character class) and one dialect: format CSV/TSV/LTSV/FIXED/JSON/JSONL x encoding UTF8/UTF8M/UTF16(LE|BE)(M)/SJIS x line break LF/CRLF/CR x enclose-all x without-header x strip-ending-line-break x json-escape x pretty-print. " +
			"The real binary writes the table three ways — query result to --out, CREATE TABLE .. AS SELECT + COMMIT, INSERT .. SELECT into an existing file of that dialect + COMMIT — and a fresh csvq process re-imports each file under the same settings; cells must be equal (NULL and empty text coincide except in JSON/JSONL; fixed-length drops edge blanks). A refused write (exit != 0) must leave nothing behind / the file unchanged. Dialect preservation: an independent byte-level sniffer (BOM, UTF-16 endianness, line breaks, delimiter, quoting of every field, header row) is applied before and after an UPDATE of one cell. non-trivial = at least one write path succeeded and was re-imported and compared on a table with >= 1 row; distinct = table digest + dialect.",
		Quick: 500, Thorough: 60000, FloorQuick: 150, FloorThorough: 20000,
		CaseTimeout: 10 * time.Minute,
		Assumptions: []string{"a refusal is never judged wrong (the set of spellable texts is the format's); only 'written but different' and 'refused but written' are violations", "header names are plain identifiers in judged cases", "GFM/ORG/BOX/TEXT are display formats and not re-importable (excluded by the statement's own list)"},
		Fn:          c02Case,
	})
}

type c02Dialect struct {
	Positions  string
	Format     string
	Enc        string
	LB         string
	EncloseAll bool
	NoHeader   bool
	Strip      bool
	JSONEscape string
	Pretty     bool
	Delim      string
}

func (d c02Dialect) ext() string {
	switch d.Format {
	case "TSV":
		return "tsv"
	case "JSON":
		return "json"
	case "JSONL":
		return "jsonl"
	case "LTSV":
		return "ltsv"
	case "FIXED":
		return "txt"
	}
	return "csv"
}

func (d c02Dialect) writeArgs() []string {
	a := []string{"--format", d.Format, "--write-encoding", d.Enc, "--line-break", d.LB}
	if d.EncloseAll {
		a = append(a, "--enclose-all")
	}
	if d.NoHeader {
		a = append(a, "--without-header")
	}
	if d.Strip {
		a = append(a, "--strip-ending-line-break")
	}
	if d.Format == "CSV" && d.Delim != "" {
		a = append(a, "--write-delimiter", d.Delim)
	}
	if d.Format == "FIXED" {
		a = append(a, "--write-delimiter-positions", d.Positions)
	}
	if d.Format == "JSON" || d.Format == "JSONL" {
		a = append(a, "--json-escape", d.JSONEscape)
		if d.Pretty {
			a = append(a, "--pretty-print")
		}
	}
	return a
}

func (d c02Dialect) readArgs() []string {
	a := []string{"--import-format", d.Format, "--encoding", d.Enc}
	if d.NoHeader && d.Format != "JSON" && d.Format != "JSONL" && d.Format != "LTSV" {
		a = append(a, "--no-header")
	}
	if d.Format == "CSV" && d.Delim != "" {
		a = append(a, "--delimiter", d.Delim)
	}
	if d.Format == "FIXED" {
		a = append(a, "--delimiter-positions", d.Positions)
	}
	return a
}

var c02Hostile = []struct{ class, text string }{
	{"plain", "abc"}, {"plain", "x"}, {"digits", "0012"}, {"empty", ""}, {"blank", " "}, {"lead-blank", " lead"}, {"trail-blank", "trail "}, {"inner-blank", "a b"},
	{"comma", "a,b"}, {"semicolon", "a;b"}, {"tab", "a\tb"}, {"dquote", `say "hi"`}, {"dquote-only", `"`}, {"squote", "it's"}, {"lf", "line1\nline2"}, {"crlf", "l1\r\nl2"}, {"cr", "l1\rl2"},
	{"colon", "k:v"}, {"backslash", `C:\temp\new`}, {"trailing-backslash", `dir\`}, {"nonascii", "naïve café"}, {"cjk", "日本語テキスト"}, {"emoji", "smile 🙂"}, {"null-word", "NULL"}, {"quote-comma", `",",`},
	{"equals", "=1+1"}, {"long", strings.Repeat("long text ", 12)}, {"json-ish", `{"a":[1,2]}`}, {"slash", "a/b"}, {"ctrl", "bell\x07"}, {"pipe", "a|b"}, {"lead-quote", `"start`}, {"only-lf", "\n"},
}

type c02Replay struct {
	Dialect c02Dialect  `json:"dialect"`
	Header  []string    `json:"header"`
	Rows    [][]*string `json:"rows"`
	Path    string      `json:"write_path"`
	Detail  string      `json:"detail"`
	Bytes   string      `json:"written_bytes_prefix,omitempty"`
}

// parseJSONL reads csvq JSONL output preserving null vs "".
func parseJSONL(out string) (hdr []string, rows [][]*string, ok bool) {
	for _, l := range strings.Split(out, "\n") {
		l = strings.TrimSpace(l)
		if !strings.HasPrefix(l, "{") {
			continue
		}
		dec := json.NewDecoder(strings.NewReader(l))
		dec.UseNumber()
		if tok, err := dec.Token(); err != nil || tok != json.Delim('{') {
			return nil, nil, false
		}
		var keys []string
		var row []*string
		for dec.More() {
			k, err := dec.Token()
			if err != nil {
				return nil, nil, false
			}
			var v interface{}
			if err := dec.Decode(&v); err != nil {
				return nil, nil, false
			}
			keys = append(keys, fmt.Sprint(k))
			switch x := v.(type) {
			case nil:
				row = append(row, nil)
			case string:
				row = append(row, core.Sp(x))
			case json.Number:
				row = append(row, core.Sp(x.String()))
			default:
				b, _ := json.Marshal(x)
				row = append(row, core.Sp(string(b)))
			}
		}
		if hdr == nil {
			hdr = keys
		}
		rows = append(rows, row)
	}
	return hdr, rows, true
}

func c02Equal(d c02Dialect, want, got *string) bool {
	// JSON keeps null and "" apart; so does CSV/TSV written with every field enclosed (NULL stays bare, empty text is "")
	strict := d.Format == "JSON" || d.Format == "JSONL" || ((d.Format == "CSV" || d.Format == "TSV") && d.EncloseAll)
	w, g := "", ""
	if want != nil {
		w = *want
	}
	if got != nil {
		g = *got
	}
	if strict {
		return (want == nil) == (got == nil) && w == g
	}
	if d.Format == "FIXED" {
		return strings.Trim(w, " ") == strings.Trim(g, " ")
	}
	return w == g
}

// sniff describes the dialect of a written file from its bytes alone.
func c02Sniff(b []byte, format string) string {
	var p []string
	enc := "utf8"
	switch {
	case bytes.HasPrefix(b, []byte{0xEF, 0xBB, 0xBF}):
		enc = "utf8-bom"
		b = b[3:]
	case bytes.HasPrefix(b, []byte{0xFF, 0xFE}):
		enc = "utf16le-bom"
	case bytes.HasPrefix(b, []byte{0xFE, 0xFF}):
		enc = "utf16be-bom"
	case len(b) >= 2 && b[0] == 0 && b[1] != 0:
		enc = "utf16be"
	case len(b) >= 2 && b[1] == 0 && b[0] != 0:
		enc = "utf16le"
	case !utf8.Valid(b):
		enc = "non-utf8(sjis?)"
	}
	if !strings.HasPrefix(enc, "utf16") && len(b) >= 4 {
		// UTF-16 without a byte-order mark whose first character is not ASCII (a header-less file beginning with a CJK cell):
		// delimiters, digits and line breaks still put a zero byte at every other position
		ze, zo := 0, 0
		for k, c := range b {
			if c == 0 {
				if k%2 == 0 {
					ze++
				} else {
					zo++
				}
			}
		}
		switch {
		case ze*8 >= len(b) && ze > 4*zo:
			enc = "utf16be"
		case zo*8 >= len(b) && zo > 4*ze:
			enc = "utf16le"
		}
	}
	p = append(p, "enc="+enc)
	text := string(b)
	if strings.HasPrefix(enc, "utf16") {
		u := b
		if strings.HasSuffix(enc, "bom") {
			u = b[2:]
		}
		var cu []uint16
		for i := 0; i+1 < len(u); i += 2 {
			if strings.Contains(enc, "be") {
				cu = append(cu, uint16(u[i])<<8|uint16(u[i+1]))
			} else {
				cu = append(cu, uint16(u[i+1])<<8|uint16(u[i]))
			}
		}
		text = string(utf16.Decode(cu))
	}
	// line breaks outside quotes
	crlf, lf, cr := 0, 0, 0
	inq := false
	rs := []rune(text)
	for i := 0; i < len(rs); i++ {
		switch rs[i] {
		case '"':
			if format == "CSV" || format == "TSV" {
				inq = !inq
			}
		case '\r':
			if !inq {
				if i+1 < len(rs) && rs[i+1] == '\n' {
					crlf++
					i++
				} else {
					cr++
				}
			}
		case '\n':
			if !inq {
				lf++
			}
		}
	}
	lb := "none"
	switch {
	case crlf > 0 && lf == 0 && cr == 0:
		lb = "crlf"
	case lf > 0 && crlf == 0 && cr == 0:
		lb = "lf"
	case cr > 0 && crlf == 0 && lf == 0:
		lb = "cr"
	case crlf+lf+cr > 0:
		// which kinds occur, not how often: the number of records is no part of the dialect
		lb = fmt.Sprintf("mixed(crlf=%v,lf=%v,cr=%v)", crlf > 0, lf > 0, cr > 0)
	}
	p = append(p, "lb="+lb)
	if format == "JSON" || format == "JSONL" {
		// line breaks inside JSON texts are layout, and quotes are escaped differently: only the encoding is compared
		return p[0]
	}
	if format == "CSV" || format == "TSV" {
		first := text
		if i := strings.IndexAny(text, "\r\n"); i >= 0 {
			first = text[:i]
		}
		delim := ","
		for _, c := range []string{"\t", ";", "|", ","} {
			if strings.Contains(first, c) {
				delim = c
				break
			}
		}
		p = append(p, fmt.Sprintf("delim=%q", delim))
		p = append(p, "first-line="+first)
		allq := true
		for _, f := range strings.Split(first, delim) {
			if !(strings.HasPrefix(f, `"`) && strings.HasSuffix(f, `"`)) {
				allq = false
			}
		}
		p = append(p, fmt.Sprintf("header-quoted=%v", allq))
	}
	return strings.Join(p, " ")
}

// c02Retry: a COMMIT that is refused (one table of the transaction cannot be spelled in its format) leaves the session alive in the
// interactive shell and in library use; the user repairs the cell, changes the other tables further — they shrink — and commits
// again. What the second COMMIT writes must be what the same changes write in a transaction that never met the refusal.
func c02Retry(w *core.Worker, i int) {
	r := w.Rng(i, "retry")
	long := strings.Repeat("long text ", r.Range(3, 12))
	var ab strings.Builder
	ab.WriteString("id,c1\n")
	na := r.Range(6, 60)
	for k := 1; k <= na; k++ {
		fmt.Fprintf(&ab, "%d,%s%d\n", k, long, k)
	}
	files := map[string]string{"a.csv": ab.String(), "b.ltsv": "id:1\tv:one\nid:2\tv:two\n", "f.txt": "id v   \n1  one \n2  two \n", "src.csv": ab.String()}
	bad := []struct{ breakIt, repair string }{
		{"UPDATE `b.ltsv` SET v = 'tab\there' WHERE id = 1;", "UPDATE `b.ltsv` SET v = 'ok' WHERE id = 1;"},
		{"UPDATE FIXED('[3,7]', `f.txt`) SET v = 'l1\nl2' WHERE id = 1;", "UPDATE FIXED('[3,7]', `f.txt`) SET v = 'ok' WHERE id = 1;"},
		{"INSERT INTO `b.ltsv` VALUES (3, 'x\ty');", "DELETE FROM `b.ltsv` WHERE id = 3;"},
	}[r.Intn(3)]
	first := []string{"UPDATE a SET c1 = c1 || ' changed';", "CREATE TABLE `made.csv` AS SELECT * FROM src;", "UPDATE a SET c1 = c1 || ' changed'; CREATE TABLE `made.csv` AS SELECT * FROM src;"}[r.Intn(3)]
	shrink := []string{"DELETE FROM a WHERE id > 2; UPDATE a SET c1 = 's';", "UPDATE a SET c1 = 's';", "ALTER TABLE a DROP c1;"}[r.Intn(3)]
	if strings.Contains(first, "made.csv") {
		shrink += " DELETE FROM `made.csv` WHERE id > 1; UPDATE `made.csv` SET c1 = 'm';"
	}
	run := func(dir string, stmts []string) (refused bool, err error) {
		core.WriteFiles(dir, files)
		s, e := core.NewSess(core.SessOpts{Dir: dir, Quiet: true})
		if e != nil {
			return false, e
		}
		defer s.Close()
		for _, q := range stmts {
			res := s.Exec(q)
			if q == "COMMIT; -- first" {
				refused = res.Err != nil
				continue
			}
			if res.Err != nil {
				return refused, fmt.Errorf("%s: %v", q, res.Err)
			}
		}
		return refused, nil
	}
	for rep := 0; rep < 4; rep++ { // (the order in which a COMMIT writes its tables varies from run to run)
		d1, d2 := core.FreshDir(w.Work, "retry"), core.FreshDir(w.Work, "retryctl")
		refused, err := run(d1, []string{first, bad.breakIt, "COMMIT; -- first", bad.repair, shrink, "COMMIT;"})
		if err != nil || !refused {
			w.Count("retried_commits_not_refused_at_first", 1)
			return
		}
		if _, err := run(d2, []string{first, shrink, "COMMIT;"}); err != nil {
			return
		}
		for _, fn := range core.TakeSnap(d2).Names() {
			if core.IsControlFile(fn) {
				continue
			}
			got, _ := os.ReadFile(filepath.Join(d1, fn))
			want, _ := os.ReadFile(filepath.Join(d2, fn))
			if !bytes.Equal(got, want) && fn != "b.ltsv" && fn != "f.txt" {
				w.Violation("retried-commit:file-differs", fmt.Sprintf("[%s | %s | COMMIT (refused) | %s | %s | COMMIT] %s holds %q, the same changes committed in one go write %q", first, bad.breakIt, bad.repair, shrink, fn, truncateStr(string(got), 160), truncateStr(string(want), 160)),
					c02Replay{Path: "COMMIT after a refused COMMIT", Detail: first + " " + bad.breakIt + " COMMIT; " + bad.repair + " " + shrink + " COMMIT;"})
				return
			}
		}
		w.Count("commits_retried_after_a_refusal", 1)
	}
}

func c02Case(w *core.Worker, i int) {
	if i%20 == 0 {
		c02Retry(w, i)
	}
	r := w.Rng(i, "")
	d := c02Dialect{
		Format:     []string{"CSV", "CSV", "TSV", "LTSV", "FIXED", "JSON", "JSONL"}[r.Intn(7)],
		Enc:        []string{"UTF8", "UTF8", "UTF8M", "UTF16", "UTF16BE", "UTF16LE", "UTF16BEM", "UTF16LEM", "SJIS"}[r.Intn(9)],
		LB:         []string{"LF", "LF", "CRLF", "CR"}[r.Intn(4)],
		EncloseAll: r.P(30), NoHeader: r.P(20), Strip: r.P(25), JSONEscape: []string{"BACKSLASH", "HEX", "HEXALL"}[r.Intn(3)], Pretty: r.P(30),
	}
	if d.Format == "CSV" && r.P(30) {
		d.Delim = []string{";", "|", "\\t"}[r.Intn(3)]
	}
	if d.Format == "LTSV" || d.Format == "JSON" || d.Format == "JSONL" {
		d.NoHeader = false
	}
	if d.Format == "JSON" || d.Format == "JSONL" {
		d.Enc = "UTF8" // csvq always creates JSON files in UTF-8
	}
	if d.Format == "JSONL" {
		d.Pretty = false // pretty printing is a JSON option; a pretty-printed object is not one line
	}
	if d.Format == "FIXED" && d.Enc != "UTF8" && d.Enc != "SJIS" {
		d.Enc = "UTF8" // delimiter positions are byte positions: only single-byte-compatible encodings are judged
	}
	ncols := r.Range(1, 5)
	nrows := r.Range(0, 6)
	if i%12 == 11 {
		nrows = r.Range(299, 420)
		if i%24 == 23 {
			nrows = r.Range(1500, 2500) // several loader / builder goroutines at work for a while
		}
	}
	var hdr []string
	var pos []string
	for c := 0; c < ncols; c++ {
		hdr = append(hdr, fmt.Sprintf("c%d", c+1))
		pos = append(pos, fmt.Sprint(22*(c+1)))
	}
	d.Positions = "[" + strings.Join(pos, ", ") + "]"
	probe := c02Hostile[r.Intn(len(c02Hostile))]
	var rows [][]*string
	for k := 0; k < nrows; k++ {
		row := make([]*string, ncols)
		for c := range row {
			switch {
			case r.P(12):
				row[c] = nil
			case r.P(55):
				row[c] = core.Sp([]string{"abc", "x", "12", "v" + fmt.Sprint(k)}[r.Intn(4)])
			default:
				row[c] = core.Sp(c02Hostile[r.Intn(len(c02Hostile))].text)
			}
		}
		rows = append(rows, row)
	}
	if nrows > 0 {
		rows[r.Intn(nrows)][r.Intn(ncols)] = core.Sp(probe.text)
	}
	if d.Format == "FIXED" {
		// fixed-length: keep cells inside their 22-byte columns; longer texts are a separate refusal case
		for _, row := range rows {
			for c := range row {
				if row[c] != nil && len(*row[c]) > 20 && !r.P(10) {
					rs := []rune(*row[c])
					if len(rs) > 6 {
						rs = rs[:6]
					}
					s := string(rs)
					row[c] = &s
				}
			}
		}
	}
	dir := core.FreshDir(w.Work, "repo")
	// source table: a JSON file carries every text losslessly
	var objs []string
	for _, row := range rows {
		var fs []string
		for c, v := range row {
			k, _ := json.Marshal(hdr[c])
			val := []byte("null")
			if v != nil {
				val, _ = json.Marshal(*v)
				// spell backslashes as \u005c: csvq's JSON decoder misreads a string that ends in an escaped backslash
				val = []byte(strings.ReplaceAll(string(val), `\\`, `\u005c`))
			}
			fs = append(fs, string(k)+":"+string(val))
		}
		objs = append(objs, "{"+strings.Join(fs, ",")+"}")
	}
	src := "[" + strings.Join(objs, ",\n") + "]\n"
	if nrows == 0 {
		// an empty JSON array has no columns: use a CSV source that only has a header
		_ = os.WriteFile(filepath.Join(dir, "src.csv"), []byte(strings.Join(hdr, ",")+"\n"), 0644)
	} else {
		_ = os.WriteFile(filepath.Join(dir, "src.json"), []byte(src), 0644)
	}
	viol := func(sig, path, what string, bytesPrefix []byte) {
		w.Violation(sig+":"+d.Format, fmt.Sprintf("[%s via %s, enc %s, lb %s, enclose-all %v, without-header %v, strip %v, probe class %q] %s", d.Format, path, d.Enc, d.LB, d.EncloseAll, d.NoHeader, d.Strip, probe.class, what),
			c02Replay{Dialect: d, Header: hdr, Rows: rows, Path: path, Detail: what, Bytes: truncateStr(fmt.Sprintf("%q", string(bytesPrefix)), 600)})
	}
	readBack := func(file string) ([]string, [][]*string, string) {
		args := append(csvqArgs("-q", "-f", "JSONL", "--json-escape", "BACKSLASH"), d.readArgs()...)
		args = append(args, fmt.Sprintf("SELECT * FROM `%s`", file))
		res := core.RunProc(core.ProcOpts{Dir: dir, Args: args, Timeout: 60 * time.Second})
		if res.Code != 0 {
			return nil, nil, fmt.Sprintf("re-import failed (exit %d): %s", res.Code, truncateStr(res.Stderr, 200))
		}
		h, rs, ok := parseJSONL(res.Stdout)
		if !ok {
			return nil, nil, "re-import output is not JSON Lines"
		}
		return h, rs, ""
	}
	compare := func(path, file string, want [][]*string) bool {
		b, rerr := os.ReadFile(filepath.Join(dir, file))
		if rerr != nil && os.IsNotExist(rerr) && path == "--out" && d.NoHeader {
			// an --out file that received no byte is removed again (lib/action/run.go): a table whose only cells are
			// empty, written without header line and without ending line break, has no bytes — nothing to read back
			allEmpty := true
			for _, row := range want {
				for _, c := range row {
					if c != nil && *c != "" {
						allEmpty = false
					}
				}
			}
			if allEmpty {
				w.Count("empty_outputs_removed", 1)
				return false
			}
		}
		h, got, e := readBack(file)
		if e != "" {
			sig := "unreadable-after-write"
			if strings.Contains(e, "UnreadRune") {
				sig += ":cr-line-break-at-end-of-file"
			}
			if d.Format == "JSON" || d.Format == "JSONL" {
				for _, row := range want {
					for _, c := range row {
						if c != nil && strings.HasSuffix(*c, `\`) && !strings.Contains(sig, "backslash") {
							sig += ":json-string-ending-in-a-backslash"
						}
					}
				}
			}
			viol(sig, path, e, b)
			return false
		}
		if len(got) != len(want) {
			sig := "record-count"
			if ncols == 1 && len(got) < len(want) && (d.Format == "CSV" || d.Format == "TSV") {
				sig = "record-count:single-column-empty-field-read-as-blank-line"
			}
			if ncols == 1 && len(got) == 0 && d.Format == "LTSV" {
				sig = "record-count:single-column-ltsv-reads-back-empty"
			}
			viol(sig, path, fmt.Sprintf("wrote %d records, re-import gives %d", len(want), len(got)), b)
			return false
		}
		if len(want) > 0 && !d.NoHeader && strings.Join(h, ",") != strings.Join(hdr, ",") {
			viol("header", path, fmt.Sprintf("header %v re-imports as %v", hdr, h), b)
			return false
		}
		for ri := range want {
			if len(got[ri]) != len(want[ri]) {
				viol("field-count", path, fmt.Sprintf("record %d has %d fields after re-import, %d were written", ri, len(got[ri]), len(want[ri])), b)
				return false
			}
			for ci := range want[ri] {
				if !c02Equal(d, want[ri][ci], got[ri][ci]) {
					cls := c02ClassOf(want[ri][ci])
					if d.Format == "LTSV" && want[ri][ci] != nil && strings.Contains(*want[ri][ci], ":") && got[ri][ci] != nil && strings.ReplaceAll(*want[ri][ci], ":", "") == *got[ri][ci] {
						cls = "colon-dropped-by-the-ltsv-reader"
					}
					viol("cell-differs:"+cls, path, fmt.Sprintf("record %d column %s: wrote %s, re-import gives %s", ri, hdr[ci], cellStr(want[ri][ci]), cellStr(got[ri][ci])), b)
					return false
				}
			}
		}
		return true
	}
	srcName := "src"
	compared := 0
	// path 1: query result to --out
	outFile := "out." + d.ext()
	args := append(csvqArgs("-q", "--out", outFile), d.writeArgs()...)
	res := core.RunProc(core.ProcOpts{Dir: dir, Args: append(args, "SELECT * FROM "+srcName), Timeout: 60 * time.Second})
	if w.Replay {
		fmt.Printf("dialect %+v rows %d cols %d: --out exit %d %s\n", d, nrows, ncols, res.Code, truncateStr(res.Stderr, 200))
	}
	if res.Code != 0 {
		w.Count("writes_refused", 1)
		if st, err := os.Stat(filepath.Join(dir, outFile)); err == nil && st.Size() > 0 {
			b, _ := os.ReadFile(filepath.Join(dir, outFile))
			viol("refused-but-written", "--out", fmt.Sprintf("exit %d (%s) but %d bytes were written", res.Code, truncateStr(res.Stderr, 120), st.Size()), b)
		}
	} else if nrows > 0 || (!d.NoHeader && d.Format != "LTSV" && d.Format != "JSONL") {
		if compare("--out", outFile, rows) {
			compared++
		}
	}
	// path 2: CREATE TABLE AS + COMMIT
	newFile := "created." + d.ext()
	if i%5 == 2 {
		// the extension names the format whatever its letter case: what CREATE TABLE writes is what a later run reads
		newFile = []string{"CREATED." + strings.ToUpper(d.ext()), "Created." + strings.Title(d.ext()), "created." + strings.ToUpper(d.ext())}[(i/5)%3]
	}
	if d.Format == "FIXED" {
		// CREATE TABLE derives the format from the extension and cannot create fixed-length files
		if i < 30 {
			w.Sample(map[string]interface{}{"dialect": d, "header": hdr, "rows": nrows, "probe_class": probe.class, "write_paths_compared": compared})
		}
		w.Note("probe_classes", probe.class)
		w.Count("write_paths_compared", int64(compared))
		w.Case(core.Digest(src, fmt.Sprint(d)), compared > 0 && nrows > 0)
		return
	}
	args = append(csvqArgs("-q"), d.writeArgs()...)
	if i%3 == 1 {
		// colours are for results on a terminal (they may be switched on in the environment file): a table file is data
		args = append(args, "--color")
	}
	res = core.RunProc(core.ProcOpts{Dir: dir, Args: append(args, fmt.Sprintf("CREATE TABLE `%s` AS SELECT * FROM %s", newFile, srcName)), Timeout: 60 * time.Second})
	created := false
	if res.Code != 0 {
		w.Count("writes_refused", 1)
		if _, err := os.Stat(filepath.Join(dir, newFile)); err == nil {
			viol("refused-but-written", "CREATE TABLE AS", fmt.Sprintf("exit %d (%s) but the file exists", res.Code, truncateStr(res.Stderr, 120)), nil)
		}
	} else if nrows > 0 || (!d.NoHeader && d.Format != "LTSV" && d.Format != "JSONL") {
		created = compare("CREATE TABLE AS", newFile, rows)
		if created {
			compared++
		}
	}
	// path 2b: two tables written by ONE process whose column names differ only in letter case (c1.. and C1..): each file
	// carries its own spelling
	if created && nrows > 0 && !d.NoHeader && i%3 == 0 {
		var up []string
		for _, h := range hdr {
			up = append(up, strings.ToUpper(h))
		}
		fa, fb := "two_a."+d.ext(), "two_b."+d.ext()
		args = append(csvqArgs("-q"), d.writeArgs()...)
		if i%3 == 1 {
			// colours are for results on a terminal (they may be switched on in the environment file): a table file is data
			args = append(args, "--color")
		}
		two := core.RunProc(core.ProcOpts{Dir: dir, Args: append(args, fmt.Sprintf("CREATE TABLE `%s` AS SELECT * FROM %s; CREATE TABLE `%s` (%s) AS SELECT * FROM %s;", fa, srcName, fb, strings.Join(up, ", "), srcName)), Timeout: 60 * time.Second})
		if two.Code == 0 {
			for _, f := range []struct {
				file string
				want []string
			}{{fa, hdr}, {fb, up}} {
				h, _, msg := readBack(f.file)
				bb, _ := os.ReadFile(filepath.Join(dir, f.file))
				if msg != "" {
					viol("unreadable-after-write", "two tables in one session", f.file+": "+msg, bb)
				} else if strings.Join(h, ",") != strings.Join(f.want, ",") {
					viol("header", "two tables in one session", fmt.Sprintf("%s was created with the columns %v and re-imports with %v", f.file, f.want, h), bb)
				}
			}
			w.Count("sessions_writing_two_tables_with_names_differing_in_case", 1)
		}
		_ = os.Remove(filepath.Join(dir, fa))
		_ = os.Remove(filepath.Join(dir, fb))
	}
	// path 3: INSERT .. SELECT into the existing file of this dialect, COMMIT; then UPDATE one cell: dialect preserved
	// (also for files without a header line, read with --no-header: their line break is only known once the first record is read)
	if created && nrows > 0 {
		before, _ := os.ReadFile(filepath.Join(dir, newFile))
		args = append(csvqArgs("-q"), d.readArgs()...)
		ins := core.RunProc(core.ProcOpts{Dir: dir, Args: append(args, fmt.Sprintf("INSERT INTO `%s` SELECT * FROM %s", newFile, srcName)), Timeout: 60 * time.Second})
		after, _ := os.ReadFile(filepath.Join(dir, newFile))
		if ins.Code != 0 {
			if !bytes.Equal(before, after) {
				viol("refused-but-written", "INSERT SELECT", fmt.Sprintf("exit %d (%s) but the file changed", ins.Code, truncateStr(ins.Stderr, 120)), after)
			}
		} else {
			if compare("INSERT SELECT", newFile, append(append([][]*string{}, rows...), rows...)) {
				compared++
			}
			s1, s2 := c02Sniff(before, d.Format), c02Sniff(after, d.Format)
			if strings.Contains(s1, "lb=none") || strings.Contains(s2, "lb=none") {
				s1, s2 = c02DropLB(s1), c02DropLB(s2) // a one-line file shows no line break to preserve
			}
			if d.NoHeader {
				s1, s2 = c02DropFirstLine(s1), c02DropFirstLine(s2)
			}
			if s1 != s2 {
				viol("dialect-changed", "INSERT SELECT", fmt.Sprintf("the file was {%s} and is {%s} after the INSERT", s1, s2), after)
			}
		}
		// UPDATE of one cell with a benign value
		before, _ = os.ReadFile(filepath.Join(dir, newFile))
		upd := core.RunProc(core.ProcOpts{Dir: dir, Args: append(args, fmt.Sprintf("UPDATE `%s` SET c1 = 'upd' WHERE c1 = 'no such value'", newFile)), Timeout: 60 * time.Second})
		_ = upd
		upd = core.RunProc(core.ProcOpts{Dir: dir, Args: append(args, fmt.Sprintf("UPDATE `%s` SET c1 = c1", newFile)), Timeout: 60 * time.Second})
		after, _ = os.ReadFile(filepath.Join(dir, newFile))
		if upd.Code == 0 {
			s1, s2 := c02Sniff(before, d.Format), c02Sniff(after, d.Format)
			if strings.Contains(s1, "lb=none") || strings.Contains(s2, "lb=none") {
				s1, s2 = c02DropLB(s1), c02DropLB(s2)
			}
			if d.NoHeader {
				s1, s2 = c02DropFirstLine(s1), c02DropFirstLine(s2)
			}
			if s1 != s2 {
				viol("dialect-changed", "UPDATE", fmt.Sprintf("the file was {%s} and is {%s} after UPDATE .. SET c1 = c1", s1, s2), after)
			}
			w.Count("dialect_sniffs_compared", 1)
		} else if !bytes.Equal(before, after) {
			viol("refused-but-written", "UPDATE", fmt.Sprintf("exit %d but the file changed", upd.Code), after)
		}
	}
	// fixed-length files cannot be created by a statement: hand-written ones in the three layouts (header line,
	// no header line, single line) are updated in place; cells, layout and — for an update that changes nothing — bytes are kept
	if i%10 == 0 {
		type fx struct {
			name, body, pos string
			noHeader        bool
			want            [][]string
		}
		for _, f := range []fx{
			{"fxh.txt", "id c1  \n1  abcd\n2  wxyz\n3  ijkl\n", "[3,7]", false, [][]string{{"1", "abcd"}, {"2", "UPD"}, {"3", "ijkl"}}},
			{"fxn.txt", "1  abcd\n2  wxyz\n3  ijkl\n", "[3,7]", true, [][]string{{"1", "abcd"}, {"2", "UPD"}, {"3", "ijkl"}}},
			{"fxs.txt", "1 abcd2 wxyz3 ijkl", "S[2,6]", true, [][]string{{"1", "abcd"}, {"2", "UPD"}, {"3", "ijkl"}}},
			// the same layouts with the line breaks the session does not use (the file's own line break is kept)
			{"fxhc.txt", "id c1  \r\n1  abcd\r\n2  wxyz\r\n3  ijkl\r\n", "[3,7]", false, [][]string{{"1", "abcd"}, {"2", "UPD"}, {"3", "ijkl"}}},
			{"fxnc.txt", "1  abcd\r\n2  wxyz\r\n3  ijkl\r\n", "[3,7]", true, [][]string{{"1", "abcd"}, {"2", "UPD"}, {"3", "ijkl"}}},
			// positions found automatically: the layout the file is rewritten in is csvq's choice, the cells are not
			{"fxa.txt", "id c1\n1  abcd\n2  wxyz\n3  ijkl\n", "SPACES", false, [][]string{{"1", "abcd"}, {"2", "UPD"}, {"3", "ijkl"}}},
			{"fxan.txt", "1  abcd\n2  wxyz\n3  ijkl\n", "SPACES", true, [][]string{{"1", "abcd"}, {"2", "UPD"}, {"3", "ijkl"}}},
			{"fxac.txt", "id   c1  \r\n1    abcd\r\n2    wxyz\r\n3    ijkl\r\n", "SPACES", false, [][]string{{"1", "abcd"}, {"2", "UPD"}, {"3", "ijkl"}}},
		} {
			fd := core.FreshDir(w.Work, "fixed")
			core.WriteFiles(fd, map[string]string{f.name: f.body})
			fa := append(csvqArgs("-q", "-f", "JSONL"), "--import-format", "FIXED", "--delimiter-positions", f.pos)
			c1, c2 := "id", "c1"
			if f.noHeader {
				fa = append(fa, "--no-header")
				c1, c2 = "c1", "c2"
			}
			run := func(q string) core.ProcResult {
				return core.RunProc(core.ProcOpts{Dir: fd, Args: append(append([]string{}, fa...), q), Timeout: 60 * time.Second})
			}
			fviol := func(sig, what string) {
				b, _ := os.ReadFile(filepath.Join(fd, f.name))
				w.Violation(sig+":FIXED", fmt.Sprintf("fixed-length file %q (positions %s): %s; file now %q", f.body, f.pos, what, truncateStr(string(b), 200)), c02Replay{Bytes: f.body, Dialect: c02Dialect{Format: "FIXED", Positions: f.pos, NoHeader: f.noHeader}, Path: "UPDATE", Detail: what})
			}
			if r0 := run(fmt.Sprintf("UPDATE `%s` SET %s = %s", f.name, c2, c2)); r0.Code != 0 {
				fviol("statement-error", "an UPDATE that changes nothing failed: "+truncateStr(r0.Stderr, 150))
				continue
			}
			if b, _ := os.ReadFile(filepath.Join(fd, f.name)); string(b) != f.body && f.pos != "SPACES" {
				fviol("dialect-changed", "an UPDATE that assigns every cell its own value rewrote the file differently")
			}
			if r1 := run(fmt.Sprintf("UPDATE `%s` SET %s = 'UPD' WHERE %s = 2", f.name, c2, c1)); r1.Code != 0 {
				fviol("statement-error", "UPDATE failed: "+truncateStr(r1.Stderr, 150))
				continue
			}
			r2 := run(fmt.Sprintf("SELECT %s AS a, %s AS b FROM `%s`", c1, c2, f.name))
			var got []string
			for _, l := range strings.Split(strings.TrimSpace(r2.Stdout), "\n") {
				got = append(got, strings.TrimSpace(l))
			}
			var want []string
			for _, wr := range f.want {
				want = append(want, fmt.Sprintf(`{"a":%s,"b":%q}`, wr[0], wr[1]))
			}
			norm := func(xs []string) string {
				return strings.ReplaceAll(strings.ReplaceAll(strings.Join(xs, "|"), `"a":"`, `"a":`), `","b"`, `,"b"`)
			}
			if r2.Code != 0 || norm(got) != norm(want) {
				fviol("cell-differs", fmt.Sprintf("after UPDATE of one cell the file reads back as %v (exit %d), expected %v", got, r2.Code, want))
			}
			w.Count("fixed_length_files_updated", 1)
		}
	}
	// column names that hold what a CSV / TSV line is made of (line breaks, the delimiter, quotes): refused with nothing written, or
	// the header reads back with the same names
	if i%10 == 7 {
		for _, name := range []string{"a\nb", "a\r\nb", "x\ry", "with,comma", "with\"quote", "with\ttab", "plain"} {
			for _, fm := range []string{"CSV", "TSV"} {
				fd := core.FreshDir(w.Work, "hdr")
				q := "SELECT 1 AS `" + name + "`, 2 AS c"
				out := "o." + strings.ToLower(fm)
				r1 := core.RunProc(core.ProcOpts{Dir: fd, Args: csvqArgs("-q", "-f", fm, "--out", out, q), Timeout: 60 * time.Second})
				b, rerr := os.ReadFile(filepath.Join(fd, out))
				hviol := func(sig, what string) {
					w.Violation(sig+":"+fm, fmt.Sprintf("%q written as %s: %s; file now %q", q, fm, what, truncateStr(string(b), 200)), c02Replay{Dialect: c02Dialect{Format: fm}, Path: "--out", Detail: q + ": " + what})
				}
				if r1.Code != 0 {
					if rerr == nil && len(b) > 0 {
						hviol("refused-but-written", fmt.Sprintf("exit %d but the file holds %d bytes", r1.Code, len(b)))
					}
					w.Count("hostile_column_names_refused", 1)
					continue
				}
				r2 := core.RunProc(core.ProcOpts{Dir: fd, Args: csvqArgs("-q", "-f", "JSONL", "SELECT * FROM `"+out+"`"), Timeout: 60 * time.Second})
				// the name travels in the statement text, where the scanner reads CR LF inside a quoted name as LF: the three kinds are one here
				wantKey, _ := json.Marshal(strings.ReplaceAll(strings.ReplaceAll(name, "\r\n", "\n"), "\r", "\n"))
				want := "{" + string(wantKey) + ":\"1\",\"c\":\"2\"}"
				got := strings.ReplaceAll(strings.ReplaceAll(strings.TrimSpace(r2.Stdout), ":1,", ":\"1\","), ":2}", ":\"2\"}")
				got = strings.ReplaceAll(strings.ReplaceAll(got, "\\r\\n", "\\n"), "\\r", "\\n") // JSON spelling of the line breaks in the key
				if r2.Code != 0 || got != want {
					hviol("unreadable-after-write:column-name", fmt.Sprintf("the file reads back as %q (exit %d %s), expected %s", truncateStr(r2.Stdout, 200), r2.Code, truncateStr(r2.Stderr, 100), want))
				}
				w.Count("hostile_column_names_written", 1)
			}
		}
	}
	// column names that are paths into one JSON object (`a.b` next to `a`): whichever comes first, the result is either refused
	// with nothing written or reads back with as many columns as were written
	if i%10 == 7 {
		for _, hdr := range [][]string{{"a.b", "a"}, {"a", "a.b"}, {"x.y.z", "x.y", "k"}, {"k", "x.y", "x.y.z"}, {"a.b", "a.c", "a"}, {"p.q", "r", "p"}} {
			for _, fm := range []string{"JSON", "JSONL"} {
				fd := core.FreshDir(w.Work, "paths")
				var sel []string
				for k, h := range hdr {
					sel = append(sel, fmt.Sprintf("%d AS `%s`", k+1, h))
				}
				q := "SELECT " + strings.Join(sel, ", ")
				out := "o." + strings.ToLower(fm)
				r1 := core.RunProc(core.ProcOpts{Dir: fd, Args: csvqArgs("-q", "-f", fm, "--out", out, q), Timeout: 60 * time.Second})
				b, rerr := os.ReadFile(filepath.Join(fd, out))
				pviol := func(sig, what string) {
					w.Violation(sig+":"+fm, fmt.Sprintf("%s written as %s: %s; file now %q", q, fm, what, truncateStr(string(b), 200)), c02Replay{Dialect: c02Dialect{Format: fm}, Path: "--out", Detail: q + ": " + what})
				}
				if r1.Code != 0 {
					if rerr == nil && len(b) > 0 {
						pviol("refused-but-written", fmt.Sprintf("exit %d but the file holds %d bytes", r1.Code, len(b)))
					}
					w.Count("json_path_headers_refused", 1)
					continue
				}
				r2 := core.RunProc(core.ProcOpts{Dir: fd, Args: csvqArgs("-q", "-f", "CSV", "SELECT * FROM `"+out+"`"), Timeout: 60 * time.Second})
				lines := strings.Split(strings.TrimSpace(r2.Stdout), "\n")
				if r2.Code != 0 || len(lines) != 2 || len(strings.Split(lines[1], ",")) != len(hdr) {
					pviol("column-count", fmt.Sprintf("%d columns were written, the file reads back as %q (exit %d)", len(hdr), truncateStr(r2.Stdout, 200), r2.Code))
				}
				w.Count("json_path_headers_written", 1)
			}
		}
	}
	// a JSON table that is a member of a larger document, read through --json-query and updated: under the same settings the
	// committed file must read back as the updated table (one bounded probe per run; see known_findings.json)
	if i == 5 {
		fd := core.FreshDir(w.Work, "jq")
		doc := "{\"data\":[{\"id\":1,\"v\":\"a\"},{\"id\":2,\"v\":\"b\"}],\"meta\":{\"n\":2}}\n"
		core.WriteFiles(fd, map[string]string{"doc.json": doc})
		ja := csvqArgs("-q", "-f", "CSV", "--json-query", "data")
		r1 := core.RunProc(core.ProcOpts{Dir: fd, Args: append(append([]string{}, ja...), "UPDATE `doc.json` SET v = 'z' WHERE id = 1"), Timeout: 60 * time.Second})
		b, _ := os.ReadFile(filepath.Join(fd, "doc.json"))
		if r1.Code != 0 {
			if string(b) != doc {
				w.Violation("refused-but-written:JSON", fmt.Sprintf("UPDATE through --json-query data: exit %d but the file changed to %q", r1.Code, truncateStr(string(b), 200)), c02Replay{Bytes: doc, Dialect: c02Dialect{Format: "JSON"}, Path: "UPDATE", Detail: "--json-query data"})
			}
		} else {
			r2 := core.RunProc(core.ProcOpts{Dir: fd, Args: append(append([]string{}, ja...), "SELECT id, v FROM `doc.json`"), Timeout: 60 * time.Second})
			if r2.Code != 0 || strings.TrimSpace(r2.Stdout) != "id,v\n1,z\n2,b" {
				w.Violation("unreadable-after-write:json-query-update-replaces-the-document:JSON", fmt.Sprintf("UPDATE `doc.json` SET v = 'z' WHERE id = 1 under --json-query data on %q: the committed file %q reads back under the same settings as %q (exit %d: %s)", doc, truncateStr(string(b), 200), truncateStr(r2.Stdout, 100), r2.Code, truncateStr(r2.Stderr, 120)),
					c02Replay{Bytes: doc, Dialect: c02Dialect{Format: "JSON"}, Path: "UPDATE", Detail: "--json-query data"})
			}
		}
		w.Count("json_query_updates_probed", 1)
	}
	// … and their columns are added, dropped and renamed: what COMMIT writes must read back (positions found automatically,
	// as they were for the original) as the table the altering process itself saw after the statement; a refusal leaves the bytes
	if i%10 == 5 {
		body := "id c1   c2\n1  abcd p\n2  wxyz q\n3  ijkl r\n"
		if (i/10)%2 == 1 {
			body = strings.ReplaceAll(body, "\n", "\r\n")
		}
		for ai, alter := range []string{
			"ALTER TABLE `fa.txt` ADD extra DEFAULT 'new'", "ALTER TABLE `fa.txt` ADD extra DEFAULT 'new' FIRST", "ALTER TABLE `fa.txt` ADD (x1 DEFAULT id * 2, x2 DEFAULT 'yy') AFTER c1",
			"ALTER TABLE `fa.txt` DROP c1", "ALTER TABLE `fa.txt` DROP (id, c2)", "ALTER TABLE `fa.txt` RENAME c1 TO a_much_longer_name", "ALTER TABLE `fa.txt` ADD wide DEFAULT 'a-text-wider-than-any-column'",
			"ALTER TABLE `fa.txt` ADD extra DEFAULT 'new'; ALTER TABLE `fa.txt` DROP extra",
		} {
			for _, pos := range []string{"SPACES", "[3,8,10]"} {
				fd := core.FreshDir(w.Work, "fixed")
				core.WriteFiles(fd, map[string]string{"fa.txt": body})
				fa := append(csvqArgs("-q", "-f", "JSONL"), "--import-format", "FIXED", "--delimiter-positions")
				r1 := core.RunProc(core.ProcOpts{Dir: fd, Args: append(append([]string{}, fa...), pos, alter+"; SELECT * FROM `fa.txt`"), Timeout: 60 * time.Second})
				b, _ := os.ReadFile(filepath.Join(fd, "fa.txt"))
				fviol := func(sig, what string) {
					w.Violation(sig+":FIXED", fmt.Sprintf("fixed-length file %q (positions %s), %s: %s; file now %q", body, pos, alter, what, truncateStr(string(b), 200)), c02Replay{Bytes: body, Dialect: c02Dialect{Format: "FIXED", Positions: pos}, Path: "ALTER", Detail: what})
				}
				if r1.Code != 0 {
					if string(b) != body {
						fviol("refused-but-written", fmt.Sprintf("exit %d (%s) but the file changed", r1.Code, truncateStr(r1.Stderr, 120)))
					}
					w.Count("fixed_length_alterations_refused", 1)
					continue
				}
				r2 := core.RunProc(core.ProcOpts{Dir: fd, Args: append(append([]string{}, fa...), "SPACES", "SELECT * FROM `fa.txt`"), Timeout: 60 * time.Second})
				// numbers that went through the file come back as the texts the file spells: compare the spellings
				norm := func(x string) string { return strings.ReplaceAll(strings.TrimSpace(x), "\"", "") }
				if r2.Code != 0 || norm(r2.Stdout) != norm(r1.Stdout) {
					fviol("unreadable-after-write", fmt.Sprintf("the altering process saw %q, the committed file reads back as %q (exit %d %s)", truncateStr(r1.Stdout, 300), truncateStr(r2.Stdout, 300), r2.Code, truncateStr(r2.Stderr, 100)))
				}
				if bytes.Contains([]byte(body), []byte("\r\n")) != bytes.Contains(b, []byte("\r\n")) {
					fviol("dialect-changed", "the file's line break changed")
				}
				w.Count("fixed_length_files_altered", 1)
				_ = ai
			}
		}
	}
	if i < 30 {
		w.Sample(map[string]interface{}{"dialect": d, "header": hdr, "rows": nrows, "probe_class": probe.class, "write_paths_compared": compared})
	}
	w.Note("probe_classes", probe.class)
	w.Count("write_paths_compared", int64(compared))
	w.Case(core.Digest(src, fmt.Sprint(d)), compared > 0 && nrows > 0)
}

// c02DropFirstLine: in a file without a header line the first line is a record; how its fields are quoted is not a
// convention the statement names (csvq guesses "every field enclosed" from the absence of bare letters), only encoding,
// line break and delimiter are compared there
func c02DropFirstLine(s string) string {
	if i := strings.Index(s, " first-line="); i >= 0 {
		return s[:i]
	}
	return s
}

func c02DropLB(s string) string {
	var p []string
	for _, f := range strings.Fields(s) {
		if !strings.HasPrefix(f, "lb=") {
			p = append(p, f)
		}
	}
	return strings.Join(p, " ")
}

func c02ClassOf(c *string) string {
	if c == nil {
		return "null"
	}
	for _, h := range c02Hostile {
		if h.text == *c {
			return h.class
		}
	}
	return "other"
}
