package main

import (
	"fmt"
	"sort"
	"strconv"
	"strings"

	"verif/internal/core"
)

func init() {
	core.Register(&core.Spec{
		ID: "C03", Level: "exploration",
		Rule: "one case = three generated tables a(id,k,v,s) b(id,k,w) c(id,k) (duplicate and NULL join keys, NULLs, empty tables) and ~10 generated queries: FROM = table | derived table | CTE | recursive CTE | CROSS/INNER/LEFT/RIGHT/FULL JOIN ON | JOIN USING | NATURAL JOIN | LATERAL, nested two levels; WHERE = comparisons, AND/OR/NOT, IS NULL, BETWEEN, IN list, IN subquery, EXISTS (correlated), scalar subqueries (correlated); select list = columns, *, t.*, arithmetic, CASE, aliases. " +
			"Oracles: (1) an independent nested-loop relational evaluator (bag equality of typed rows; sequence equality when the query has a single source), (2) ternary-logic partition Q = Q[p] + Q[NOT p] + Q[p IS UNKNOWN] with predicates over built-in functions, (3) outer-join identities LEFT = INNER + unmatched-left, RIGHT = mirrored LEFT, FULL = LEFT + unmatched-right. non-trivial = at least 6 queries judged with a non-empty result somewhere; distinct = digest of tables and queries. Every 8th case has 160..700 rows in table a and --cpu 2..8.",
		Quick: 250, Thorough: 30000, FloorQuick: 150, FloorThorough: 18000,
		Assumptions: []string{"the reference evaluator is judged only on integer / non-numeric-text / NULL cells where the coercion ladder is unambiguous", "multi-source results are compared as bags: the manual fixes no order for joins"},
		Setup:       func(w *core.Worker) { core.HermeticProcess(w.Work) },
		Fn:          c03Case,
	})
}

// ---- reference relational evaluator ----------------------------------------------

type rcol struct{ tab, name string }
type rrel struct {
	cols []rcol
	rows [][]RV
}

type renv struct {
	rel   *rrel
	row   []RV
	outer *renv
}

func (e *renv) lookup(tab, name string) (RV, bool) {
	for cur := e; cur != nil; cur = cur.outer {
		if tab == "" {
			for i, c := range cur.rel.cols {
				if c.name == name && c.tab == "#merged" {
					return cur.row[i], true
				}
			}
		}
		for i, c := range cur.rel.cols {
			if c.name == name && (tab == "" || c.tab == tab) {
				return cur.row[i], true
			}
		}
	}
	return RV{}, false
}

type rex struct {
	num  int    // > 0: the column reference is written as tab.num
	k    string // col lit arith cmp and or not isnull between in case insub exists scalar
	tab  string
	col  string
	lit  RV
	op   string
	a, b *rex
	c    *rex
	list []*rex
	sub  *rsub
	neg  bool
}

// rsub: SELECT <agg>(col) | col | 1 FROM base alias WHERE alias.corr = outer AND filter
type rsub struct {
	base, alias string
	selCol      string // column selected ("" for EXISTS)
	agg         string // "" MAX MIN COUNT SUM
	corrCol     string // alias.corrCol = outerTab.outerCol ("" = uncorrelated)
	outerTab    string
	outerCol    string
	filter      *rex
}

type c03Ctx struct {
	tables    map[string]*rrel
	unspec    bool
	tooBig    bool
	recursive int
}

func litSQL(v RV) string {
	switch v.K {
	case 'I':
		if v.I < 0 {
			return "(" + strconv.FormatInt(v.I, 10) + ")"
		}
		return strconv.FormatInt(v.I, 10)
	case 'S':
		return core.SQLStr(v.S)
	}
	return "NULL"
}

func (x *rex) SQL() string {
	switch x.k {
	case "col":
		if x.tab == "" {
			return x.col
		}
		if x.num > 0 {
			return x.tab + "." + strconv.Itoa(x.num) // the column addressed by its number in its table
		}
		return x.tab + "." + x.col
	case "lit":
		return litSQL(x.lit)
	case "arith":
		return "(" + x.a.SQL() + " " + x.op + " " + x.b.SQL() + ")"
	case "cmp":
		return x.a.SQL() + " " + x.op + " " + x.b.SQL()
	case "and":
		return "(" + x.a.SQL() + " AND " + x.b.SQL() + ")"
	case "or":
		return "(" + x.a.SQL() + " OR " + x.b.SQL() + ")"
	case "not":
		return "NOT (" + x.a.SQL() + ")"
	case "isnull":
		if x.neg {
			return x.a.SQL() + " IS NOT NULL"
		}
		return x.a.SQL() + " IS NULL"
	case "between":
		n := ""
		if x.neg {
			n = "NOT "
		}
		return x.a.SQL() + " " + n + "BETWEEN " + x.b.SQL() + " AND " + x.c.SQL()
	case "in":
		var l []string
		for _, e := range x.list {
			l = append(l, e.SQL())
		}
		n := ""
		if x.neg {
			n = "NOT "
		}
		return x.a.SQL() + " " + n + "IN (" + strings.Join(l, ", ") + ")"
	case "case":
		return "CASE WHEN " + x.a.SQL() + " THEN " + x.b.SQL() + " ELSE " + x.c.SQL() + " END"
	case "insub":
		n := ""
		if x.neg {
			n = "NOT "
		}
		return x.a.SQL() + " " + n + "IN (" + x.sub.SQL() + ")"
	case "exists":
		n := ""
		if x.neg {
			n = "NOT "
		}
		return n + "EXISTS (" + x.sub.SQL() + ")"
	case "scalar":
		return x.a.SQL() + " " + x.op + " (" + x.sub.SQL() + ")"
	}
	return "NULL"
}

func (s *rsub) SQL() string {
	sel := "1"
	if s.selCol != "" {
		sel = s.alias + "." + s.selCol
		if s.agg != "" {
			sel = s.agg + "(" + sel + ")"
		}
	}
	q := "SELECT " + sel + " FROM " + s.base + " " + s.alias
	var conds []string
	if s.corrCol != "" {
		conds = append(conds, s.alias+"."+s.corrCol+" = "+s.outerTab+"."+s.outerCol)
	}
	if s.filter != nil {
		conds = append(conds, s.filter.SQL())
	}
	if len(conds) > 0 {
		q += " WHERE " + strings.Join(conds, " AND ")
	}
	return q
}

func rvT(t int8) RV { return rvTern(t) }

func (c *c03Ctx) cmp(op string, a, b RV) int8 {
	r, spec := refCompare(a, b)
	if !spec {
		c.unspec = true
	}
	return opFromCmp(op, r)
}

func (c *c03Ctx) subRows(s *rsub, e *renv) []RV {
	base := c.tables[s.base]
	rel := &rrel{rows: base.rows}
	for _, bc := range base.cols {
		rel.cols = append(rel.cols, rcol{s.alias, bc.name})
	}
	var out []RV
	for _, row := range rel.rows {
		env := &renv{rel: rel, row: row, outer: e}
		ok := int8(1)
		if s.corrCol != "" {
			l, _ := env.lookup(s.alias, s.corrCol)
			r, found := e.lookup(s.outerTab, s.outerCol)
			if !found {
				c.unspec = true
			}
			ok = tAnd(ok, c.cmp("=", l, r))
		}
		if s.filter != nil {
			ok = tAnd(ok, c.eval(s.filter, env).asTern())
		}
		if ok != 1 {
			continue
		}
		if s.selCol == "" {
			out = append(out, rvInt(1))
		} else {
			v, _ := env.lookup(s.alias, s.selCol)
			out = append(out, v)
		}
	}
	if s.agg == "" {
		return out
	}
	// aggregate over integer-convertible values
	var nums []int64
	for _, v := range out {
		if i, ok := v.asIntStrict(); ok {
			nums = append(nums, i)
		} else if v.K != 'N' {
			c.unspec = true
		}
	}
	switch s.agg {
	case "COUNT":
		n := 0
		for _, v := range out {
			if v.K != 'N' {
				n++
			}
		}
		return []RV{rvInt(int64(n))}
	case "MAX", "MIN", "SUM":
		if len(nums) == 0 {
			return []RV{rvNull()}
		}
		acc := nums[0]
		for _, x := range nums[1:] {
			switch s.agg {
			case "MAX":
				if x > acc {
					acc = x
				}
			case "MIN":
				if x < acc {
					acc = x
				}
			default:
				acc += x
			}
		}
		if s.agg == "SUM" {
			return []RV{rvFloat(float64(acc))} // SUM returns a float; compared numerically
		}
		// MAX/MIN return the cell as stored (a string from the file)
		return []RV{rvStr(strconv.FormatInt(acc, 10))}
	}
	return out
}

func (c *c03Ctx) eval(x *rex, e *renv) RV {
	switch x.k {
	case "col":
		v, ok := e.lookup(x.tab, x.col)
		if !ok {
			c.unspec = true
		}
		return v
	case "lit":
		return x.lit
	case "arith":
		a, b := c.eval(x.a, e), c.eval(x.b, e)
		ai, ok1 := a.asIntStrict()
		bi, ok2 := b.asIntStrict()
		if !ok1 || !ok2 {
			if (a.K != 'N' && !ok1) || (b.K != 'N' && !ok2) {
				if a.numeric() && b.numeric() {
					c.unspec = true
				}
			}
			return rvNull()
		}
		switch x.op {
		case "+":
			return rvInt(ai + bi)
		case "-":
			return rvInt(ai - bi)
		case "*":
			return rvInt(ai * bi)
		}
		return rvNull()
	case "cmp":
		return rvT(c.cmp(x.op, c.eval(x.a, e), c.eval(x.b, e)))
	case "and":
		return rvT(tAnd(c.eval(x.a, e).asTern(), c.eval(x.b, e).asTern()))
	case "or":
		return rvT(tOr(c.eval(x.a, e).asTern(), c.eval(x.b, e).asTern()))
	case "not":
		return rvT(tNot(c.eval(x.a, e).asTern()))
	case "isnull":
		r := int8(-1)
		if c.eval(x.a, e).K == 'N' {
			r = 1
		}
		if x.neg {
			r = -r
		}
		return rvT(r)
	case "between":
		v := c.eval(x.a, e)
		r := tAnd(c.cmp("<=", c.eval(x.b, e), v), c.cmp("<=", v, c.eval(x.c, e)))
		if x.neg {
			r = tNot(r)
		}
		return rvT(r)
	case "in":
		v := c.eval(x.a, e)
		r := int8(-1)
		for _, l := range x.list {
			r = tOr(r, c.cmp("=", v, c.eval(l, e)))
		}
		if x.neg {
			r = tNot(r)
		}
		return rvT(r)
	case "case":
		if c.eval(x.a, e).asTern() == 1 {
			return c.eval(x.b, e)
		}
		return c.eval(x.c, e)
	case "insub":
		v := c.eval(x.a, e)
		r := int8(-1)
		for _, l := range c.subRows(x.sub, e) {
			r = tOr(r, c.cmp("=", v, l))
		}
		if x.neg {
			r = tNot(r)
		}
		return rvT(r)
	case "exists":
		r := int8(-1)
		if len(c.subRows(x.sub, e)) > 0 {
			r = 1
		}
		if x.neg {
			r = -r
		}
		return rvT(r)
	case "scalar":
		rows := c.subRows(x.sub, e)
		var sv RV
		switch len(rows) {
		case 0:
			sv = rvNull()
		case 1:
			sv = rows[0]
		default:
			c.unspec = true // more than one row is an error, not generated on purpose
			return rvT(0)
		}
		return rvT(c.cmp(x.op, c.eval(x.a, e), sv))
	}
	return rvNull()
}

// ---- query model -------------------------------------------------------------------

type rsource struct {
	kind  string // table derived cte rcte join lateral
	base  string // base table
	alias string
	where *rex     // for derived/cte/lateral
	cols  []string // projected columns of derived/cte
	// join
	jkind     string // CROSS INNER LEFT RIGHT FULL
	jmode     string // on using natural
	l, r      *rsource
	on        *rex
	usingCol  string
	lateralOn string // lateral: inner.k = outerAlias.k
	latKind   string // join whose right side is lateral: "" = comma, "INNER", "LEFT", "LEFT OUTER" (… JOIN LATERAL (…) x ON 1 = 1)
	n         int    // recursive cte bound
}

func (s *rsource) SQL() (with string, from string) {
	switch s.kind {
	case "table":
		if s.alias == s.base {
			return "", s.base
		}
		return "", s.base + " " + s.alias
	case "derived":
		q := "SELECT " + strings.Join(s.cols, ", ") + " FROM " + s.base
		if s.where != nil {
			q += " WHERE " + s.where.SQL()
		}
		return "", "(" + q + ") " + s.alias
	case "cte":
		q := "SELECT " + strings.Join(s.cols, ", ") + " FROM " + s.base
		if s.where != nil {
			q += " WHERE " + s.where.SQL()
		}
		return s.alias + " AS (" + q + ")", s.alias
	case "rcte":
		return fmt.Sprintf("RECURSIVE %s (id) AS (SELECT 1 UNION ALL SELECT id + 1 FROM %s WHERE id < %d)", s.alias, s.alias, s.n), s.alias
	case "lateral":
		q := "SELECT " + strings.Join(s.cols, ", ") + " FROM " + s.base + " WHERE " + s.base + ".k = " + s.lateralOn + ".k"
		if s.where != nil {
			q += " AND " + s.where.SQL()
		}
		return "", "LATERAL (" + q + ") " + s.alias
	case "join":
		lw, lf := s.l.SQL()
		if s.l.kind == "join" {
			lf = "(" + lf + ")" // explicit grouping: csvq's grammar does not nest joins left-to-right in every case
		}
		rw, rf := s.r.SQL()
		w := strings.Join(nonEmpty(lw, rw), ", ")
		switch {
		case s.r.kind == "lateral" && s.latKind != "":
			return w, lf + " " + s.latKind + " JOIN " + rf + " ON 1 = 1"
		case s.r.kind == "lateral":
			return w, lf + ", " + rf
		case s.jkind == "CROSS":
			return w, lf + " CROSS JOIN " + rf
		case s.jmode == "natural":
			return w, lf + " NATURAL " + s.jkind + " JOIN " + rf
		case s.jmode == "using":
			return w, lf + " " + s.jkind + " JOIN " + rf + " USING (" + s.usingCol + ")"
		}
		return w, lf + " " + s.jkind + " JOIN " + rf + " ON " + s.on.SQL()
	}
	return "", ""
}

func nonEmpty(xs ...string) []string {
	var o []string
	for _, x := range xs {
		if x != "" {
			o = append(o, x)
		}
	}
	return o
}

func (c *c03Ctx) evalSource(s *rsource, outer *renv) *rrel {
	switch s.kind {
	case "table":
		b := c.tables[s.base]
		r := &rrel{rows: b.rows}
		for _, bc := range b.cols {
			r.cols = append(r.cols, rcol{s.alias, bc.name})
		}
		return r
	case "derived", "cte", "lateral":
		b := c.tables[s.base]
		inner := &rrel{rows: b.rows}
		for _, bc := range b.cols {
			inner.cols = append(inner.cols, rcol{s.base, bc.name})
		}
		out := &rrel{}
		for _, cn := range s.cols {
			out.cols = append(out.cols, rcol{s.alias, cn})
		}
		for _, row := range inner.rows {
			env := &renv{rel: inner, row: row, outer: outer}
			ok := int8(1)
			if s.kind == "lateral" {
				l, _ := env.lookup(s.base, "k")
				r, found := outer.lookup(s.lateralOn, "k")
				if !found {
					c.unspec = true
				}
				ok = c.cmp("=", l, r)
			}
			if s.where != nil {
				ok = tAnd(ok, c.eval(s.where, env).asTern())
			}
			if ok != 1 {
				continue
			}
			var nr []RV
			for _, cn := range s.cols {
				v, _ := env.lookup(s.base, cn)
				nr = append(nr, v)
			}
			out.rows = append(out.rows, nr)
		}
		return out
	case "rcte":
		out := &rrel{cols: []rcol{{s.alias, "id"}}}
		for i := 1; i <= s.n; i++ {
			out.rows = append(out.rows, []RV{rvInt(int64(i))})
		}
		return out
	case "join":
		l := c.evalSource(s.l, outer)
		if s.r.kind == "lateral" {
			out := &rrel{}
			first := true
			for _, lr := range l.rows {
				r := c.evalSource(s.r, &renv{rel: l, row: lr, outer: outer})
				if first {
					out.cols = append(append([]rcol{}, l.cols...), r.cols...)
					first = false
				}
				for _, rr := range r.rows {
					out.rows = append(out.rows, append(append([]RV{}, lr...), rr...))
				}
				if len(r.rows) == 0 && strings.HasPrefix(s.latKind, "LEFT") {
					pad := append([]RV{}, lr...)
					for range r.cols {
						pad = append(pad, rvNull())
					}
					out.rows = append(out.rows, pad)
				}
			}
			if first {
				r := c.evalSource(s.r, &renv{rel: l, row: make([]RV, len(l.cols)), outer: outer})
				out.cols = append(append([]rcol{}, l.cols...), r.cols...)
			}
			return out
		}
		r := c.evalSource(s.r, outer)
		out := &rrel{cols: append(append([]rcol{}, l.cols...), r.cols...)}
		if len(l.rows)*len(r.rows) > 250000 {
			c.unspec, c.tooBig = true, true // too large for the nested-loop reference: skipped, not judged
			return out
		}
		// join columns for USING / NATURAL
		var shared []string
		if s.jmode == "using" {
			shared = strings.Split(s.usingCol, ", ")
		} else if s.jmode == "natural" {
			for _, lc := range l.cols {
				for _, rc := range r.cols {
					if lc.name == rc.name {
						shared = append(shared, lc.name)
					}
				}
			}
		}
		match := func(lr, rr []RV) bool {
			if s.jkind == "CROSS" {
				return true
			}
			if s.jmode == "on" {
				env := &renv{rel: out, row: append(append([]RV{}, lr...), rr...), outer: outer}
				return c.eval(s.on, env).asTern() == 1
			}
			for _, sc := range shared {
				lv, _ := (&renv{rel: l, row: lr}).lookup("", sc)
				rv, _ := (&renv{rel: r, row: rr}).lookup("", sc)
				if c.cmp("=", lv, rv) != 1 {
					return false
				}
			}
			return true
		}
		nullL, nullR := make([]RV, len(l.cols)), make([]RV, len(r.cols))
		for i := range nullL {
			nullL[i] = rvNull()
		}
		for i := range nullR {
			nullR[i] = rvNull()
		}
		rMatched := make([]bool, len(r.rows))
		for _, lr := range l.rows {
			any := false
			for ri, rr := range r.rows {
				if match(lr, rr) {
					any = true
					rMatched[ri] = true
					out.rows = append(out.rows, append(append([]RV{}, lr...), rr...))
				}
			}
			if !any && (s.jkind == "LEFT" || s.jkind == "FULL") {
				out.rows = append(out.rows, append(append([]RV{}, lr...), nullR...))
			}
		}
		if s.jkind == "RIGHT" || s.jkind == "FULL" {
			for ri, rr := range r.rows {
				if !rMatched[ri] {
					out.rows = append(out.rows, append(append([]RV{}, nullL...), rr...))
				}
			}
		}
		// merged columns: add an unqualified coalesced column for each shared name
		for _, sc := range shared {
			li, ri := -1, -1
			for i, cc := range l.cols {
				if cc.name == sc {
					li = i
				}
			}
			for i, cc := range r.cols {
				if cc.name == sc {
					ri = len(l.cols) + i
				}
			}
			out.cols = append(out.cols, rcol{"#merged", sc})
			for i, row := range out.rows {
				v := row[li]
				if v.K == 'N' {
					v = row[ri]
				}
				out.rows[i] = append(row, v)
			}
			// the qualified originals stay addressable only through their aliases
		}
		return out
	}
	return &rrel{}
}

type rquery struct {
	src       *rsource
	where     *rex
	sel       []*rex // select list (each with optional alias)
	starUpper bool   // the qualifier of alias.* is written in upper case
	star      string // "" | "*" | "alias.*"
	single    bool   // exactly one source: order is specified
}

func (q *rquery) SQL() string {
	with, from := q.src.SQL()
	var sl []string
	if q.star != "" && q.starUpper {
		sl = append(sl, strings.ToUpper(q.star)) // table names and aliases are not case sensitive
	} else if q.star != "" {
		sl = append(sl, q.star)
	}
	for i, e := range q.sel {
		sl = append(sl, fmt.Sprintf("%s AS c%d", e.SQL(), i))
	}
	s := "SELECT " + strings.Join(sl, ", ") + " FROM " + from
	if q.where != nil {
		s += " WHERE " + q.where.SQL()
	}
	if with != "" {
		s = "WITH " + with + " " + s
	}
	return s
}

func (c *c03Ctx) evalQuery(q *rquery) [][]RV {
	rel := c.evalSource(q.src, nil)
	var out [][]RV
	for _, row := range rel.rows {
		env := &renv{rel: rel, row: row}
		if q.where != nil && c.eval(q.where, env).asTern() != 1 {
			continue
		}
		var nr []RV
		if q.star == "*" {
			for i, cc := range rel.cols {
				if cc.tab != "#merged" {
					nr = append(nr, row[i])
				}
			}
		} else if q.star != "" {
			t := strings.TrimSuffix(q.star, ".*")
			for i, cc := range rel.cols {
				if cc.tab == t {
					nr = append(nr, row[i])
				}
			}
		}
		for _, e := range q.sel {
			nr = append(nr, c.eval(e, env))
		}
		out = append(out, nr)
	}
	return out
}

// rvKey renders a reference value the way it must come out of csvq (type tag + text); floats compare numerically.
func rvKey(v RV) string {
	switch v.K {
	case 'N':
		return "N:"
	case 'I':
		return "I:" + strconv.FormatInt(v.I, 10)
	case 'F':
		return "F:" + core.FloatText(v.F)
	case 'S':
		return "S:" + v.S
	case 'T':
		return "T:" + ternName(v.T)
	}
	return "?"
}

func valKeyStr(v core.Val) string {
	if v.T == 'F' {
		f, _ := strconv.ParseFloat(v.S, 64)
		return "F:" + core.FloatText(f)
	}
	return string(v.T) + ":" + v.S
}

// ---- generators ----------------------------------------------------------------------

var c03Cols = map[string][]string{"a": {"id", "k", "v", "s"}, "b": {"id", "k", "w"}, "c": {"id", "k"}}

func icol(t, c string) *rex          { return &rex{k: "col", tab: t, col: c} }
func ilit(i int) *rex                { return &rex{k: "lit", lit: rvInt(int64(i))} }
func slit(s string) *rex             { return &rex{k: "lit", lit: rvStr(s)} }
func nlit() *rex                     { return &rex{k: "lit", lit: rvNull()} }
func cmpx(op string, a, b *rex) *rex { return &rex{k: "cmp", op: op, a: a, b: b} }

// intCols returns the integer-valued columns reachable through alias al of base table t.
func intColsOf(base string) []string {
	switch base {
	case "a":
		return []string{"id", "k", "v"}
	case "b":
		return []string{"id", "k", "w"}
	}
	return []string{"id", "k"}
}

type aliasInfo struct {
	alias, base string
	cols        []string
}

func genPredC03(r *core.Rng, als []aliasInfo, depth int, allowSub bool) *rex {
	if depth > 0 && r.P(40) {
		switch r.Intn(3) {
		case 0:
			return &rex{k: "and", a: genPredC03(r, als, depth-1, allowSub), b: genPredC03(r, als, depth-1, allowSub)}
		case 1:
			return &rex{k: "or", a: genPredC03(r, als, depth-1, allowSub), b: genPredC03(r, als, depth-1, allowSub)}
		}
		return &rex{k: "not", a: genPredC03(r, als, depth-1, allowSub)}
	}
	al := als[r.Intn(len(als))]
	var ints []string
	hasS := false
	for _, cn := range al.cols {
		if cn == "s" {
			hasS = true
		} else {
			ints = append(ints, cn)
		}
	}
	ic := func() *rex {
		c := icol(al.alias, ints[r.Intn(len(ints))])
		// a column that is no join key may be written as table.N (N = its position in the table as it was loaded, also behind
		// joins that merge other columns)
		if (al.base == "a" && len(al.cols) == 4 && c.col == "v" || al.base == "b" && len(al.cols) == 3 && c.col == "w") && al.cols[2] == c.col && r.P(30) {
			c.num = 3
		}
		return c
	}
	switch r.Intn(10) {
	case 0:
		return cmpx(cmpOps[r.Intn(6)], ic(), ilit(r.Range(0, 6)))
	case 1:
		o := als[r.Intn(len(als))]
		var oi []string
		for _, cn := range o.cols {
			if cn != "s" {
				oi = append(oi, cn)
			}
		}
		return cmpx(cmpOps[r.Intn(6)], ic(), icol(o.alias, oi[r.Intn(len(oi))]))
	case 2:
		return &rex{k: "isnull", a: ic(), neg: r.Bool()}
	case 3:
		// (bounds are literals or columns: a column bound is NULL for some rows, for instance the padding of an outer join)
		lo, hi := ilit(r.Range(0, 3)), ilit(r.Range(2, 7))
		if r.P(40) {
			lo = ic()
		}
		if r.P(25) {
			hi = ic()
		}
		return &rex{k: "between", a: ic(), b: lo, c: hi, neg: r.P(45)}
	case 4:
		l := []*rex{ilit(r.Range(0, 6)), ilit(r.Range(0, 6))}
		if r.P(30) {
			l = append(l, nlit())
		}
		return &rex{k: "in", a: ic(), list: l, neg: r.P(30)}
	case 5:
		if hasS {
			return cmpx([]string{"=", "<>", "<", ">="}[r.Intn(4)], icol(al.alias, "s"), slit(profText[r.Intn(12)]))
		}
		return cmpx("=", &rex{k: "arith", op: []string{"+", "-", "*"}[r.Intn(3)], a: ic(), b: ilit(r.Range(1, 3))}, ilit(r.Range(0, 8)))
	case 6, 7, 8:
		if !allowSub {
			return cmpx("<", ic(), ilit(r.Range(1, 6)))
		}
		sb := []string{"b", "c", "a"}[r.Intn(3)]
		sub := &rsub{base: sb, alias: "z"}
		if r.P(60) {
			sub.corrCol, sub.outerTab, sub.outerCol = "k", al.alias, "k"
			has := false
			for _, cn := range al.cols {
				if cn == "k" {
					has = true
				}
			}
			if !has {
				sub.corrCol = ""
			}
		}
		if r.P(50) {
			sub.filter = cmpx(cmpOps[r.Intn(6)], icol("z", "id"), ilit(r.Range(1, 8)))
		}
		switch r.Intn(3) {
		case 0:
			sub.selCol = intColsOf(sb)[r.Intn(len(intColsOf(sb)))]
			return &rex{k: "insub", a: ic(), sub: sub, neg: r.P(30)}
		case 1:
			return &rex{k: "exists", sub: sub, neg: r.P(30)}
		}
		sub.selCol = intColsOf(sb)[r.Intn(len(intColsOf(sb)))]
		sub.agg = []string{"MAX", "MIN", "COUNT", "SUM"}[r.Intn(4)]
		return &rex{k: "scalar", a: ic(), op: cmpOps[r.Intn(6)], sub: sub}
	}
	return cmpx("=", ic(), ic())
}

func genSourceC03(r *core.Rng, depth int, used *int) (*rsource, []aliasInfo) {
	newAlias := func() string { *used++; return fmt.Sprintf("t%d", *used) }
	leaf := func() (*rsource, []aliasInfo) {
		base := []string{"a", "b", "c"}[r.Intn(3)]
		al := newAlias()
		switch r.Intn(6) {
		case 0, 1:
			sub := []aliasInfo{{base, base, c03Cols[base]}}
			cols := append([]string{}, c03Cols[base]...)
			if r.Bool() && len(cols) > 2 {
				cols = cols[:len(cols)-1]
			}
			var wh *rex
			if r.P(70) {
				wh = genPredC03(r, sub, 1, false)
			}
			kind := "derived"
			if r.Bool() {
				kind = "cte"
			}
			return &rsource{kind: kind, base: base, alias: al, cols: cols, where: wh}, []aliasInfo{{al, base, cols}}
		case 2:
			if depth == 0 {
				return &rsource{kind: "rcte", alias: al, n: r.Range(1, 6)}, []aliasInfo{{al, "", []string{"id"}}}
			}
		}
		return &rsource{kind: "table", base: base, alias: al}, []aliasInfo{{al, base, c03Cols[base]}}
	}
	if depth >= 2 || r.P(35) {
		return leaf()
	}
	var l *rsource
	var lal []aliasInfo
	special := depth == 0 && r.P(35)
	if special {
		l, lal = leaf()
	} else {
		l, lal = genSourceC03(r, depth+1, used)
	}
	rr, ral := leaf()
	j := &rsource{kind: "join", l: l, r: rr}
	all := append(append([]aliasInfo{}, lal...), ral...)
	hasK := func(ai []aliasInfo) string {
		for _, a := range ai {
			for _, cn := range a.cols {
				if cn == "k" {
					return a.alias
				}
			}
		}
		return ""
	}
	k := r.Intn(10)
	if !special && k >= 1 && k <= 3 {
		k = 9
	}
	switch {
	case k == 0:
		j.jkind = "CROSS"
	case k == 1 && rr.kind == "table" && l.kind == "table":
		j.jkind, j.jmode = []string{"INNER", "LEFT", "RIGHT", "FULL"}[r.Intn(4)], "natural"
	case k == 2 && hasK(lal) != "" && hasK(ral) != "":
		j.jkind, j.jmode, j.usingCol = []string{"INNER", "LEFT", "RIGHT", "FULL"}[r.Intn(4)], "using", "k"
	case k == 3 && hasK(lal) != "" && rr.kind == "table":
		// LATERAL derived table correlated with the left side
		base := rr.base
		cols := c03Cols[base]
		var wh *rex
		if r.Bool() {
			wh = genPredC03(r, []aliasInfo{{base, base, cols}}, 0, false)
		}
		j.r = &rsource{kind: "lateral", base: base, alias: rr.alias, cols: cols, where: wh, lateralOn: hasK(lal)}
		j.latKind = []string{"", "", "INNER", "LEFT", "LEFT OUTER", "LEFT"}[r.Intn(6)]
		all = append(append([]aliasInfo{}, lal...), aliasInfo{rr.alias, base, cols})
	default:
		j.jkind, j.jmode = []string{"INNER", "LEFT", "RIGHT", "FULL", "INNER"}[r.Intn(5)], "on"
		la, ra := lal[r.Intn(len(lal))], ral[0]
		pick := func(a aliasInfo) string {
			var ints []string
			for _, cn := range a.cols {
				if cn != "s" {
					ints = append(ints, cn)
				}
			}
			return ints[r.Intn(len(ints))]
		}
		j.on = cmpx([]string{"=", "=", "=", "<", ">="}[r.Intn(5)], icol(la.alias, pick(la)), icol(ra.alias, pick(ra)))
		if r.P(30) {
			j.on = &rex{k: "and", a: j.on, b: genPredC03(r, all, 0, false)}
		}
	}
	return j, all
}

func genQueryC03(r *core.Rng) *rquery {
	used := 0
	src, als := genSourceC03(r, 0, &used)
	q := &rquery{src: src, single: src.kind != "join"}
	merged := map[string]bool{}
	var walk func(s *rsource)
	walk = func(s *rsource) {
		if s.kind == "join" {
			walk(s.l)
			walk(s.r)
			if s.jmode == "using" {
				merged["k"] = true
			}
			if s.jmode == "natural" {
				merged["*"] = true
			}
		}
	}
	walk(src)
	if r.P(70) {
		q.where = genPredC03(r, als, 2, true)
	}
	usable := func(a aliasInfo, cn string) bool {
		if merged["*"] {
			return false
		}
		return !(merged["k"] && cn == "k")
	}
	if merged["*"] {
		// NATURAL JOIN: only the star (all columns once) is judged through the bag of rows without the merged duplicates
		q.where = nil
		q.star = ""
		// select the merged columns unqualified plus non-shared ones
		l, rr := src.l, src.r
		lc, rc := c03Cols[l.base], c03Cols[rr.base]
		for _, cn := range lc {
			sh := false
			for _, x := range rc {
				if x == cn {
					sh = true
				}
			}
			if sh {
				q.sel = append(q.sel, &rex{k: "col", tab: "", col: cn})
			} else {
				q.sel = append(q.sel, icol(l.alias, cn))
			}
		}
		for _, cn := range rc {
			sh := false
			for _, x := range lc {
				if x == cn {
					sh = true
				}
			}
			if !sh {
				q.sel = append(q.sel, icol(rr.alias, cn))
			}
		}
		return q
	}
	switch r.Intn(5) {
	case 0:
		if !merged["k"] {
			q.star = "*"
		}
	case 1:
		if !merged["k"] {
			q.star = als[r.Intn(len(als))].alias + ".*"
			q.starUpper = r.P(35)
		}
	}
	if merged["k"] {
		q.sel = append(q.sel, &rex{k: "col", tab: "", col: "k"})
		if q.where != nil && strings.Contains(q.where.SQL(), ".k") {
			q.where = nil // the qualified originals of a USING column are not judged
		}
	}
	for k := r.Range(1, 3); k > 0 || (q.star == "" && len(q.sel) == 0); k-- {
		a := als[r.Intn(len(als))]
		cn := a.cols[r.Intn(len(a.cols))]
		if !usable(a, cn) {
			cn = "id"
		}
		switch r.Intn(4) {
		case 0:
			if cn != "s" {
				q.sel = append(q.sel, &rex{k: "arith", op: []string{"+", "-", "*"}[r.Intn(3)], a: icol(a.alias, cn), b: ilit(r.Range(1, 4))})
				continue
			}
		case 1:
			if cn != "s" {
				q.sel = append(q.sel, &rex{k: "case", a: cmpx(">", icol(a.alias, cn), ilit(r.Range(0, 4))), b: slit("hi"), c: icol(a.alias, cn)})
				continue
			}
		}
		col := icol(a.alias, cn)
		if (a.base == "a" && cn == "v" || a.base == "b" && cn == "w") && a.alias == a.base && r.P(40) {
			col.num = 3 // written as table.3
		}
		q.sel = append(q.sel, col)
	}
	return q
}

type c03Replay struct {
	Files map[string]string `json:"files"`
	Query string            `json:"query"`
	CPU   int               `json:"cpu"`
	Got   string            `json:"got"`
	Want  string            `json:"want"`
}

func relOf(t *GTable) *rrel {
	r := &rrel{}
	for _, cn := range t.Cols {
		r.cols = append(r.cols, rcol{t.Name, cn})
	}
	for _, row := range t.Rows {
		var nr []RV
		for _, c := range row {
			nr = append(nr, cellRV(c))
		}
		r.rows = append(r.rows, nr)
	}
	return r
}

func bagOf(rows [][]string) map[string]int {
	m := map[string]int{}
	for _, r := range rows {
		m[strings.Join(r, "\x1f")]++
	}
	return m
}

func bagDiff(got, want map[string]int) string {
	var d []string
	for k, n := range want {
		if got[k] != n {
			d = append(d, fmt.Sprintf("row [%s] expected %dx, got %dx", strings.ReplaceAll(k, "\x1f", " | "), n, got[k]))
		}
	}
	for k, n := range got {
		if _, ok := want[k]; !ok {
			d = append(d, fmt.Sprintf("unexpected row [%s] %dx", strings.ReplaceAll(k, "\x1f", " | "), n))
		}
	}
	sort.Strings(d)
	if len(d) > 4 {
		d = append(d[:4], fmt.Sprintf("… %d differences", len(d)))
	}
	return strings.Join(d, "; ")
}

func c03Case(w *core.Worker, i int) {
	r := w.Rng(i, "")
	big := i%8 == 7
	na := pickSize(r, big)
	cpu := 1
	if big {
		cpu = r.Range(2, 8)
		na = []int{160, 161, 200, 240, 241, 320}[r.Intn(6)]
	}
	kp := colProfile{Kind: "ints", Vals: []string{"0", "1", "2", "3", "4", "5"}, NullPct: 15}
	vp := colProfile{Kind: "ints", Vals: []string{"0", "1", "2", "3", "4", "5", "6", "7", "-1"}, NullPct: 15}
	sp := colProfile{Kind: "text", Vals: profText[:12], NullPct: 15}
	ga := genTable(r, "a", na, []colProfile{kp, vp, sp}, []string{"k", "v", "s"})
	if big && r.P(60) {
		// clustered keys: runs of consecutive rows share one key, and some runs hold a key no other table has —
		// so that whole goroutine chunks of a join produce no row while later ones do
		kc := -1
		for j, c := range ga.Cols {
			if c == "k" {
				kc = j
			}
		}
		runKeys := []string{"0", "1", "2", "3", "4", "5", "100", "101", "102", "103", ""}
		for at := 0; at < len(ga.Rows) && kc >= 0; {
			l := r.Range(8, 90)
			key := runKeys[r.Intn(len(runKeys))]
			for e := at + l; at < e && at < len(ga.Rows); at++ {
				if key == "" {
					ga.Rows[at][kc] = nil
				} else {
					ga.Rows[at][kc] = core.Sp(key)
				}
			}
		}
		w.Count("cases_with_clustered_join_keys", 1)
	}
	gb := genTable(r, "b", r.Range(0, 9), []colProfile{kp, vp}, []string{"k", "w"})
	gc := genTable(r, "c", r.Range(0, 6), []colProfile{kp}, []string{"k"})
	files := map[string]string{"a.csv": ga.CSV(), "b.csv": gb.CSV(), "c.csv": gc.CSV()}
	core.WriteFiles(w.Work, files)
	s, err := core.NewSess(core.SessOpts{Dir: w.Work, CPU: cpu})
	if err != nil {
		w.Inconclusive(err.Error())
		return
	}
	defer s.Close()
	ctx := &c03Ctx{tables: map[string]*rrel{"a": relOf(ga), "b": relOf(gb), "c": relOf(gc)}}
	judged, nonEmptyRes := 0, 0
	var qtexts []string
	viol := func(sig, q, what, got, want string) {
		w.Violation(sig, fmt.Sprintf("%s [a has %d rows, cpu %d]: %s", q, na, cpu, what), c03Replay{Files: small(files), Query: q, CPU: cpu, Got: got, Want: want})
	}
	// (1) reference evaluator
	judgeQ := func(q *rquery) {
		sql := q.SQL()
		qtexts = append(qtexts, sql)
		ctx.unspec, ctx.tooBig = false, false
		want := ctx.evalQuery(q)
		if ctx.tooBig {
			w.Count("queries_skipped_too_big", 1)
			return
		}
		res := s.Exec(sql)
		if res.Err != nil || len(res.Views) != 1 {
			if ctx.unspec {
				return
			}
			viol("query-error", sql, fmt.Sprint(res.Err), "", "")
			return
		}
		if ctx.unspec {
			w.Count("queries_unspecified", 1)
			return
		}
		var gotRows, wantRows [][]string
		for _, row := range res.Views[0].Rows {
			var x []string
			for _, v := range row {
				x = append(x, valKeyStr(v))
			}
			gotRows = append(gotRows, x)
		}
		for _, row := range want {
			var x []string
			for _, v := range row {
				x = append(x, rvKey(v))
			}
			wantRows = append(wantRows, x)
		}
		judged++
		if len(wantRows) > 0 {
			nonEmptyRes++
		}
		if d := bagDiff(bagOf(gotRows), bagOf(wantRows)); d != "" {
			viol("rows-differ:"+c03Shape(q), sql, d, fmt.Sprint(len(gotRows)), fmt.Sprint(len(wantRows)))
			return
		}
		if q.single {
			for ri := range gotRows {
				if strings.Join(gotRows[ri], "|") != strings.Join(wantRows[ri], "|") {
					viol("order-differs", sql, fmt.Sprintf("a query over a single source must keep the source's row order; row %d is %v, expected %v", ri, gotRows[ri], wantRows[ri]), "", "")
					break
				}
			}
		}
	}
	for k := 0; k < 8; k++ {
		judgeQ(genQueryC03(r))
	}
	// NATURAL joins between sources without a common column (no join condition at all) next to an empty / a two-row table:
	// every pair matches, and the outer forms still pad the rows of the preserved side
	{
		core.WriteFiles(w.Work, map[string]string{"e2.csv": "x,y\n", "n2.csv": "x,y\n1,p\n2,q\n"})
		na64 := int64(na)
		for _, jk := range []string{"INNER", "LEFT", "RIGHT", "FULL"} {
			for _, other := range []string{"e2", "n2"} {
				m := int64(0)
				if other == "n2" {
					m = 2
				}
				wantRows := na64 * m
				if m == 0 && (jk == "LEFT" || jk == "FULL") {
					wantRows = na64
				}
				if na64 == 0 && (jk == "RIGHT" || jk == "FULL") {
					wantRows = m
				}
				wantX := na64 * m
				if na64 == 0 && (jk == "RIGHT" || jk == "FULL") {
					wantX = m
				}
				q := fmt.Sprintf("SELECT COUNT(*), COUNT(x), COUNT(a.id) FROM a NATURAL %s JOIN %s", jk, other)
				res := s.Exec(q)
				if res.Err != nil || len(res.Views) != 1 {
					viol("query-error", q, fmt.Sprint(res.Err), "", "")
					continue
				}
				row := res.Views[0].Rows[0]
				wantA := na64 * m
				if m == 0 && (jk == "LEFT" || jk == "FULL") {
					wantA = na64
				}
				if row[0].S != fmt.Sprint(wantRows) || row[1].S != fmt.Sprint(wantX) || row[2].S != fmt.Sprint(wantA) {
					viol("rows-differ:natural-without-common-column", q, fmt.Sprintf("a has %d rows, %s has %d", na, other, m), fmt.Sprint(valsToStrs(row)), fmt.Sprint([]int64{wantRows, wantX, wantA}))
				}
				judged++
			}
		}
	}
	// LATERAL joins whose left side holds no record: the derived table is never evaluated for a record, yet the joined source
	// has the fields of both sides — an aggregate over it counts nothing, and as the right side of an outer join it pads
	// every row of the preserved side
	{
		core.WriteFiles(w.Work, map[string]string{"e4.csv": "id,k,v,s\n"})
		for _, jn := range []string{", LATERAL %s x", " CROSS JOIN LATERAL %s x", " INNER JOIN LATERAL %s x ON 1 = 1", " LEFT JOIN LATERAL %s x ON 1 = 1", " JOIN LATERAL %s x USING (k)"} {
			src := "e4" + fmt.Sprintf(jn, "(SELECT w, k FROM b WHERE b.k = e4.k OR b.id > 0)")
			wantWidth := 6
			if strings.Contains(jn, "USING") {
				wantWidth = 5
			}
			q := "SELECT * FROM " + src
			if res := s.Exec(q); res.Err != nil || len(res.Views) != 1 {
				viol("query-error", q, fmt.Sprint(res.Err), "", "")
			} else if len(res.Views[0].Rows) != 0 || len(res.Views[0].Header) != wantWidth {
				viol("rows-differ:lateral-over-empty-left-side", q, fmt.Sprintf("expected no row and %d fields, got %d rows and the fields %v", wantWidth, len(res.Views[0].Rows), res.Views[0].Header), fmt.Sprint(res.Views[0].Header), fmt.Sprint(wantWidth))
			}
			q = "SELECT COUNT(*), COUNT(x.w), COUNT(e4.id) FROM " + src
			if res := s.Exec(q); res.Err != nil || len(res.Views) != 1 || len(res.Views[0].Rows) != 1 {
				viol("query-error", q, fmt.Sprint(res.Err), "", "")
			} else if row := res.Views[0].Rows[0]; row[0].S != "0" || row[1].S != "0" || row[2].S != "0" {
				viol("rows-differ:lateral-over-empty-left-side", q, "expected 0, 0, 0", fmt.Sprint(valsToStrs(row)), "[0 0 0]")
			}
			q = "SELECT a.id, d.w, d.eid FROM a LEFT JOIN (SELECT e4.id AS eid, x.w FROM " + src + ") d ON a.id = d.eid OR d.eid IS NULL"
			if res := s.Exec(q); res.Err != nil || len(res.Views) != 1 {
				viol("query-error", q, fmt.Sprint(res.Err), "", "")
			} else {
				bad := len(res.Views[0].Rows) != na
				for _, row := range res.Views[0].Rows {
					bad = bad || len(row) != 3 || !row[1].IsNull() || !row[2].IsNull()
				}
				if bad {
					viol("rows-differ:lateral-over-empty-left-side", q, fmt.Sprintf("expected the %d rows of a, each padded with two NULLs; got %d rows", na, len(res.Views[0].Rows)), truncateStr(res.Views[0].String(), 300), "")
				}
			}
			judged += 3
		}
	}
	// recursive common table expressions whose iterations repeat rows (the anchor holds duplicates and NULLs): UNION ALL keeps
	// every row of every iteration, UNION keeps each distinct row once
	{
		type nk struct {
			n int
			k string
		}
		bagAll := map[nk]int{}
		for _, row := range gb.Rows {
			kv := "NULL"
			for j, cn := range gb.Cols {
				if cn == "k" && row[j] != nil {
					kv = *row[j]
				}
			}
			for n := 1; n <= 3; n++ {
				bagAll[nk{n, kv}]++
			}
		}
		for _, all := range []bool{true, false} {
			op := "UNION"
			if all {
				op = "UNION ALL"
			}
			q := fmt.Sprintf("WITH RECURSIVE w (n, k) AS (SELECT 1, k FROM b %s SELECT n + 1, k FROM w WHERE n < 3) SELECT n, k FROM w", op)
			res := s.Exec(q)
			if res.Err != nil || len(res.Views) != 1 {
				viol("query-error", q, fmt.Sprint(res.Err), "", "")
				continue
			}
			got := map[nk]int{}
			for _, row := range res.Views[0].Rows {
				n, _ := strconv.Atoi(row[0].S)
				kv := row[1].S
				if row[1].IsNull() {
					kv = "NULL"
				}
				got[nk{n, kv}]++
			}
			bad := len(got) != len(bagAll)
			for key, c := range bagAll {
				want := c
				if !all {
					want = 1
				}
				if got[key] != want {
					bad = true
				}
			}
			judged++
			qtexts = append(qtexts, q)
			w.Count("recursive_ctes_with_repeated_rows", 1)
			if bad {
				viol("rows-differ:recursive-"+strings.ReplaceAll(strings.ToLower(op), " ", "-"), q, fmt.Sprintf("b holds %d rows; the result holds %d rows in %d distinct (n, k) pairs, expected %d pairs%s", len(gb.Rows), len(res.Views[0].Rows), len(got), len(bagAll), map[bool]string{true: " with the multiplicities of b", false: " once each"}[all]), fmt.Sprint(got), fmt.Sprint(bagAll))
			}
		}
	}
	// chains: a NATURAL / USING join whose left side is itself the result of a NATURAL / USING join (the columns merged by the
	// first join are common columns of the second). Each chain has an equivalent spelled with ON conditions — the form the
	// reference evaluator judges above — and must return the same bag of rows
	{
		chains := []struct{ name, chain, on, sel, selOn string }{
			{"natural+natural", "a NATURAL JOIN b NATURAL JOIN c", "a JOIN b ON a.id = b.id AND a.k = b.k JOIN c ON c.id = a.id AND c.k = a.k", "id, k, v, w", "a.id, a.k, a.v, b.w"},
			{"using+natural", "a JOIN b USING (id, k) NATURAL JOIN c", "a JOIN b ON a.id = b.id AND a.k = b.k JOIN c ON c.id = a.id AND c.k = a.k", "id, k, v, w", "a.id, a.k, a.v, b.w"},
			{"using(k)+natural(k)", "(SELECT k, v FROM a) a2 JOIN (SELECT k, w FROM b) b2 USING (k) NATURAL JOIN (SELECT k, id AS cid FROM c) c2", "a JOIN b ON a.k = b.k JOIN c ON c.k = a.k", "k, v, w, cid", "a.k, a.v, b.w, c.id"},
			{"natural+using", "a NATURAL JOIN b JOIN c USING (k)", "a JOIN b ON a.id = b.id AND a.k = b.k JOIN c ON c.k = a.k", "k, v, w, c.id", "a.k, a.v, b.w, c.id"},
			{"natural-left+natural-left", "a NATURAL LEFT JOIN b NATURAL LEFT JOIN c", "a LEFT JOIN b ON a.id = b.id AND a.k = b.k LEFT JOIN c ON c.id = a.id AND c.k = a.k", "id, k, v, w", "a.id, a.k, a.v, b.w"},
			{"using-left+natural-left", "a LEFT JOIN b USING (id, k) NATURAL LEFT JOIN c", "a LEFT JOIN b ON a.id = b.id AND a.k = b.k LEFT JOIN c ON c.id = a.id AND c.k = a.k", "id, k, v, w", "a.id, a.k, a.v, b.w"},
		}
		for _, ch := range chains {
			if big && r.P(50) {
				continue
			}
			q1 := "SELECT " + ch.sel + " FROM " + ch.chain
			q2 := "SELECT " + ch.selOn + " FROM " + ch.on
			r1, ok1 := rowsOfQ(s, q1)
			r2, ok2 := rowsOfQ(s, q2)
			if !ok1 || !ok2 {
				viol("query-error", q1+" / "+q2, "one of the two spellings of a join chain fails", "", "")
				continue
			}
			judged++
			qtexts = append(qtexts, q1)
			w.Count("join_chains_compared", 1)
			if len(r2) > 0 {
				w.Count("join_chains_with_rows", 1)
			}
			if strings.Join(r1, "\n") != strings.Join(r2, "\n") {
				viol("rows-differ:chain:"+ch.name, q1, fmt.Sprintf("the chain returns %d rows, its spelling with ON conditions (%s) returns %d", len(r1), q2, len(r2)), fmt.Sprint(len(r1)), fmt.Sprint(len(r2)))
			}
		}
	}
	// multi-column USING / NATURAL outer joins: several merged columns, NULLs in the first of them
	for _, jk := range []string{"LEFT", "RIGHT", "FULL", "INNER"} {
		for _, uc := range []string{"k, id", "id, k", "", "k"} {
			if r.P(50) {
				continue
			}
			j := &rsource{kind: "join", l: &rsource{kind: "table", base: "a", alias: "a"}, r: &rsource{kind: "table", base: "b", alias: "b"}, jkind: jk, jmode: "using", usingCol: uc}
			if uc == "" {
				j.jmode = "natural"
			}
			cv, cw := icol("a", "v"), icol("b", "w")
			if r.P(50) {
				cv.num, cw.num = 3, 3 // a.3 / b.3: the third column of each table, wherever the merged columns went
			}
			q := &rquery{src: j, sel: []*rex{{k: "col", tab: "", col: "id"}, {k: "col", tab: "", col: "k"}, cv, cw}}
			if uc == "k" {
				// only the second column is merged: the first columns stay where they are, the later ones close up
				q.sel[0] = icol("a", "id")
				q.sel = append(q.sel, icol("b", "id"))
			}
			if r.P(40) {
				q.where = &rex{k: "isnull", a: &rex{k: "col", tab: "", col: "k"}}
			}
			judgeQ(q)
		}
	}
	// (2) ternary logic partition with predicates over built-in functions
	tlpPreds := []string{"UPPER(s) = 'A'", "LEN(s) > 2", "v % 2 = 0", "COALESCE(v, k) > 2", "ABS(v - 3) < 2", "s LIKE 'a%'", "NULLIF(k, 2) IS NULL", "IF(v > 2, k, NULL) = 1",
		"INSTR(s, 'p') > 0", "TRIM(s) <> s", "v BETWEEN k AND 5", "k IN (SELECT k FROM b)", "EXISTS (SELECT 1 FROM c WHERE c.k = a.k)", "SUBSTR(s, 0, 1) = 'a'", "FLOOR(v / 2) = 1", "STRING(k) || s = '1a'"}
	for k := 0; k < 3; k++ {
		p := tlpPreds[r.Intn(len(tlpPreds))]
		base := "SELECT id FROM a"
		all := s.Exec(base)
		pt := s.Exec(base + " WHERE " + p)
		pf := s.Exec(base + " WHERE NOT (" + p + ")")
		pu := s.Exec(base + " WHERE (" + p + ") IS UNKNOWN")
		if all.Err != nil || pt.Err != nil || pf.Err != nil || pu.Err != nil {
			viol("tlp-error", p, fmt.Sprint(all.Err, pt.Err, pf.Err, pu.Err), "", "")
			continue
		}
		var parts []string
		for _, v := range []core.ExecResult{pt, pf, pu} {
			for _, row := range v.Views[0].Rows {
				parts = append(parts, row[0].S)
			}
		}
		var full []string
		for _, row := range all.Views[0].Rows {
			full = append(full, row[0].S)
		}
		sort.Strings(parts)
		sort.Strings(full)
		judged++
		qtexts = append(qtexts, "TLP "+p)
		if strings.Join(parts, ",") != strings.Join(full, ",") {
			viol("tlp-partition", "SELECT id FROM a WHERE "+p, fmt.Sprintf("p / NOT p / p IS UNKNOWN select %d rows in total, the table has %d", len(parts), len(full)), fmt.Sprint(parts), fmt.Sprint(full))
		}
	}
	// (3) outer join identities
	conds := []string{"a.k = b.k", "a.k = b.k AND a.v > b.w", "a.id = b.id", "a.v < b.w", "a.k = b.k OR a.id = b.id"}
	cond := conds[r.Intn(len(conds))]
	rowsOf := func(q string) ([]string, bool) {
		res := s.Exec(q)
		if res.Err != nil || len(res.Views) != 1 {
			viol("join-identity-error", q, fmt.Sprint(res.Err), "", "")
			return nil, false
		}
		var out []string
		for _, row := range res.Views[0].Rows {
			out = append(out, strings.Join(valsToStrs(row), "|"))
		}
		sort.Strings(out)
		return out, true
	}
	inner, ok1 := rowsOf("SELECT a.id, b.id FROM a INNER JOIN b ON " + cond)
	left, ok2 := rowsOf("SELECT a.id, b.id FROM a LEFT JOIN b ON " + cond)
	right, ok3 := rowsOf("SELECT a.id, b.id FROM a RIGHT JOIN b ON " + cond)
	full, ok4 := rowsOf("SELECT a.id, b.id FROM a FULL JOIN b ON " + cond)
	mirror, ok5 := rowsOf("SELECT a.id, b.id FROM b LEFT JOIN a ON " + cond)
	ul, ok6 := rowsOf("SELECT a.id, NULL FROM a WHERE NOT EXISTS (SELECT 1 FROM b WHERE " + cond + ")")
	ur, ok7 := rowsOf("SELECT NULL, b.id FROM b WHERE NOT EXISTS (SELECT 1 FROM a WHERE " + cond + ")")
	if ok1 && ok2 && ok3 && ok4 && ok5 && ok6 && ok7 {
		judged++
		qtexts = append(qtexts, "JOIN-IDENTITIES "+cond)
		merge := func(xs ...[]string) string {
			var all []string
			for _, x := range xs {
				all = append(all, x...)
			}
			sort.Strings(all)
			return strings.Join(all, ";")
		}
		if merge(left) != merge(inner, ul) {
			viol("join-identity:left", "a LEFT JOIN b ON "+cond, "LEFT JOIN differs from INNER JOIN + unmatched left rows padded with NULL", merge(left), merge(inner, ul))
		}
		if merge(right) != merge(mirror) {
			viol("join-identity:right", "a RIGHT JOIN b ON "+cond, "RIGHT JOIN differs from the mirrored LEFT JOIN", merge(right), merge(mirror))
		}
		if merge(full) != merge(left, ur) {
			viol("join-identity:full", "a FULL JOIN b ON "+cond, "FULL JOIN differs from LEFT JOIN + unmatched right rows", merge(full), merge(left, ur))
		}
	}
	// (4) one common table expression (or derived table) referenced several times in one query
	{
		nmax := r.Range(1, 9)
		type pr struct{ id, k *string }
		var brow []pr
		for _, row := range gb.Rows {
			if x, _ := strconv.Atoi(*row[0]); x <= nmax {
				brow = append(brow, pr{row[0], row[1]})
			}
		}
		cell := func(c *string) string {
			if c == nil {
				return "N:"
			}
			return "S:" + *c
		}
		cte := fmt.Sprintf("WITH t AS (SELECT id, k FROM b WHERE id <= %d) ", nmax)
		var exp1, exp2, exp3 [][]string
		for _, p := range brow {
			exp1 = append(exp1, []string{cell(p.id), cell(p.k), cell(p.id)})
			if p.k != nil {
				exp2 = append(exp2, []string{cell(p.id)})
			}
			exp3 = append(exp3, []string{cell(p.id), cell(p.k)})
		}
		for _, p := range brow {
			exp3 = append(exp3, []string{cell(p.k), cell(p.id)})
		}
		multi := []struct {
			q   string
			exp [][]string
		}{
			{cte + "SELECT x.id, x.k, y.id AS yid FROM t x INNER JOIN (SELECT k, id FROM t) y ON x.id = y.id", exp1},
			{cte + "SELECT id FROM t WHERE k IN (SELECT k FROM t)", exp2},
			{cte + "SELECT id, k FROM t UNION ALL SELECT k, id FROM t", exp3},
			{fmt.Sprintf("SELECT x.id, x.k, y.id AS yid FROM (SELECT id, k FROM b WHERE id <= %d) x INNER JOIN (SELECT k, id FROM b) y ON x.id = y.id", nmax), exp1},
		}
		for _, m := range multi {
			res := s.Exec(m.q)
			if res.Err != nil || len(res.Views) != 1 {
				viol("query-error", m.q, fmt.Sprint(res.Err), "", "")
				continue
			}
			var got [][]string
			for _, row := range res.Views[0].Rows {
				got = append(got, valsToStrs(row))
			}
			judged++
			qtexts = append(qtexts, m.q)
			if d := bagDiff(bagOf(got), bagOf(m.exp)); d != "" {
				viol("rows-differ:multi-reference", m.q, d, fmt.Sprint(len(got)), fmt.Sprint(len(m.exp)))
			}
		}
	}
	if i < 40 {
		w.Sample(map[string]interface{}{"a": ga.Dump(4), "b": gb.Dump(4), "queries": qtexts, "cpu": cpu})
	}
	w.Count("queries_judged", int64(judged))
	if big {
		w.Count("cases_parallel_path", 1)
	}
	w.Case(core.Digest(append([]string{files["a.csv"], files["b.csv"]}, qtexts...)...), judged >= 6 && nonEmptyRes > 0)
}

func c03Shape(q *rquery) string {
	var parts []string
	var walk func(s *rsource)
	walk = func(s *rsource) {
		if s.kind == "join" {
			walk(s.l)
			walk(s.r)
			if s.r.kind == "lateral" {
				parts = append(parts, "lateral")
			} else if s.jmode == "on" || s.jkind == "CROSS" {
				parts = append(parts, strings.ToLower(s.jkind))
			} else {
				parts = append(parts, strings.ToLower(s.jkind)+"-"+s.jmode)
			}
		} else if s.kind != "table" {
			parts = append(parts, s.kind)
		}
	}
	walk(q.src)
	if len(parts) == 0 {
		return "table"
	}
	sort.Strings(parts)
	return strings.Join(parts, "+")
}

// rowsOfQ runs one query in the session and returns its rows as a sorted bag of keys.
func rowsOfQ(s *core.Sess, q string) ([]string, bool) {
	res := s.Exec(q)
	if res.Err != nil || len(res.Views) != 1 {
		return nil, false
	}
	var out []string
	for _, row := range res.Views[0].Rows {
		var x []string
		for _, v := range row {
			x = append(x, valKeyStr(v))
		}
		out = append(out, strings.Join(x, "|"))
	}
	sort.Strings(out)
	return out, true
}
