package main

import (
	"fmt"
	"strconv"
	"strings"

	"verif/internal/core"
)

func init() {
	core.Register(&core.Spec{
		ID: "C05", Level: "exploration",
		Rule: "one case = one history of 3..12 data-changing statements (INSERT values/subset of columns/select, UPDATE single- and multi-table, DELETE single- and multi-table, REPLACE USING, ALTER TABLE ADD [DEFAULT] FIRST/LAST/BEFORE/AFTER, DROP, RENAME) over a file table, a second file table and a temporary table, executed statement by statement in one in-process transaction; after EVERY statement SELECT * of every table and the reported affected-row count are compared with an executable table model (ordered rows, ordered columns), and after the final COMMIT the reloaded file is compared too. " +
			"non-trivial = at least 3 statements changed a table and all steps were compared; distinct = history digest. Every 6th case uses 160..700 rows and --cpu 2..8; big cases are executed twice.",
		Quick: 1500, Thorough: 150000, FloorQuick: 1000, FloorThorough: 100000,
		Assumptions: []string{"values written by the generated statements are string literals, NULL or copies of cells, so the model needs no arithmetic; predicates are evaluated by the C06 reference ladder on its specified region",
			"replacement sets with duplicate keys among themselves and multi-table updates matching a target row more than once are not generated (unspecified)"},
		Setup: func(w *core.Worker) { core.HermeticProcess(w.Work) },
		Fn:    c05Case,
	})
}

type mTable struct {
	Name string
	Cols []string
	Rows [][]*string
}

func (t *mTable) clone() *mTable {
	c := &mTable{Name: t.Name, Cols: append([]string{}, t.Cols...)}
	for _, r := range t.Rows {
		c.Rows = append(c.Rows, append([]*string{}, r...))
	}
	return c
}

func (t *mTable) col(n string) int {
	for i, c := range t.Cols {
		if c == n {
			return i
		}
	}
	return -1
}

// predicates ------------------------------------------------------------------

type pred struct {
	kind string // mod cmp isnull in and or not true
	col  string
	op   string
	lit  string // SQL literal text
	val  RV
	m, k int
	list []string
	sub  []pred
}

func (p pred) SQL(q string) string {
	c := q + p.col
	switch p.kind {
	case "mod":
		return fmt.Sprintf("%s %% %d = %d", c, p.m, p.k)
	case "cmp":
		return fmt.Sprintf("%s %s %s", c, p.op, p.lit)
	case "isnull":
		return c + " IS NULL"
	case "in":
		return c + " IN (" + strings.Join(p.list, ", ") + ")"
	case "and":
		return "(" + p.sub[0].SQL(q) + " AND " + p.sub[1].SQL(q) + ")"
	case "or":
		return "(" + p.sub[0].SQL(q) + " OR " + p.sub[1].SQL(q) + ")"
	case "not":
		return "NOT (" + p.sub[0].SQL(q) + ")"
	}
	return "1 = 1"
}

func cellRV(c *string) RV {
	if c == nil {
		return rvNull()
	}
	return rvStr(*c)
}

func (p pred) eval(t *mTable, row []*string) int8 {
	get := func() RV { return cellRV(row[t.col(p.col)]) }
	switch p.kind {
	case "mod":
		v, ok := get().asIntStrict()
		if !ok {
			return 0
		}
		if int(v%int64(p.m)) == p.k {
			return 1
		}
		return -1
	case "cmp":
		c, _ := refCompare(get(), p.val)
		return opFromCmp(p.op, c)
	case "isnull":
		if row[t.col(p.col)] == nil {
			return 1
		}
		return -1
	case "in":
		res := int8(-1)
		for _, l := range p.list {
			v, _ := strconv.Atoi(l)
			c, _ := refCompare(get(), rvInt(int64(v)))
			res = tOr(res, opFromCmp("=", c))
		}
		return res
	case "and":
		return tAnd(p.sub[0].eval(t, row), p.sub[1].eval(t, row))
	case "or":
		return tOr(p.sub[0].eval(t, row), p.sub[1].eval(t, row))
	case "not":
		return tNot(p.sub[0].eval(t, row))
	}
	return 1
}

var c05Texts = []string{"a", "A", "b", "abc", "ABC ", "x", "y", "zz", "pear", "kiwi", "né"}

func genPred(r *core.Rng, t *mTable, depth int) pred {
	if depth > 0 && r.P(35) {
		k := []string{"and", "or", "not"}[r.Intn(3)]
		if k == "not" {
			return pred{kind: "not", sub: []pred{genPred(r, t, depth-1)}}
		}
		return pred{kind: k, sub: []pred{genPred(r, t, depth-1), genPred(r, t, depth-1)}}
	}
	textCol := "id"
	if oc := otherCol(r, t); oc >= 0 {
		textCol = t.Cols[oc]
	}
	switch r.Intn(6) {
	case 0:
		m := r.Range(2, 5)
		return pred{kind: "mod", col: "id", m: m, k: r.Intn(m)}
	case 1:
		v := r.Range(0, 12)
		return pred{kind: "cmp", col: "id", op: cmpOps[r.Intn(6)], lit: strconv.Itoa(v), val: rvInt(int64(v))}
	case 2:
		return pred{kind: "isnull", col: textCol}
	case 4:
		if textCol == "id" {
			return pred{kind: "true"}
		}
		s := c05Texts[r.Intn(len(c05Texts))]
		return pred{kind: "cmp", col: textCol, op: []string{"=", "<>", "=", "<", ">="}[r.Intn(5)], lit: core.SQLStr(s), val: rvStr(s)}
	case 3:
		var l []string
		for k := r.Range(1, 4); k > 0; k-- {
			l = append(l, strconv.Itoa(r.Range(0, 14)))
		}
		return pred{kind: "in", col: "id", list: l}
	}
	return pred{kind: "true"}
}

type c05Replay struct {
	Files   map[string]string `json:"files"`
	History []string          `json:"history"`
	Step    int               `json:"step"`
	CPU     int               `json:"cpu"`
	Detail  string            `json:"detail"`
}

func modelFromG(g *GTable) *mTable {
	m := &mTable{Name: g.Name, Cols: append([]string{}, g.Cols...)}
	for _, r := range g.Rows {
		m.Rows = append(m.Rows, append([]*string{}, r...))
	}
	return m
}

func litOf(c *string) string {
	if c == nil {
		return "NULL"
	}
	return core.SQLStr(*c)
}

// c05FromParallelCalls: a user-defined function that changes a table (INSERT, UPDATE, REPLACE, DELETE) is called once per row by a
// query whose rows are evaluated by several goroutines. Every one of those statements changes exactly what it says: afterwards
// the table holds one inserted row per call, the counter has been raised once per call, and so on.
func c05FromParallelCalls(w *core.Worker, i int) {
	r := w.Rng(i, "parallel-calls")
	n := []int{160, 240, 400, 640}[r.Intn(4)]
	cpu := r.Range(2, 8)
	var sb strings.Builder
	sb.WriteString("id\n")
	for k := 1; k <= n; k++ {
		fmt.Fprintf(&sb, "%d\n", k)
	}
	files := map[string]string{"big.csv": sb.String(), "log.csv": "x\n", "cnt.csv": "id,n\n1,0\n", "del.csv": sb.String()}
	core.WriteFiles(w.Work, files)
	s, err := core.NewSess(core.SessOpts{Dir: w.Work, Quiet: true, CPU: cpu})
	if err != nil {
		w.Inconclusive(err.Error())
		return
	}
	defer s.Close()
	temp := r.Bool()
	setup := "DECLARE ins FUNCTION (@x) AS BEGIN INSERT INTO log VALUES (@x); RETURN @x; END; DECLARE upd FUNCTION (@x) AS BEGIN UPDATE cnt SET n = n + 1; RETURN @x; END; DECLARE del FUNCTION (@x) AS BEGIN DELETE FROM del WHERE id = @x; RETURN @x; END; DECLARE rep FUNCTION (@x) AS BEGIN REPLACE INTO cnt (id, n) USING (id) VALUES (@x + 1000, @x); RETURN @x; END;"
	if temp {
		setup += " DECLARE log VIEW (x); DECLARE cnt VIEW (id, n) AS SELECT 1, 0; DECLARE del VIEW (id) AS SELECT id FROM big;"
	}
	hist := []string{setup, "SELECT COUNT(ins(id)), COUNT(upd(id)) FROM big;", "SELECT id FROM big WHERE del(id) < 0 OR rep(id) < 0;"}
	viol := func(sig, what string) {
		w.Violation(sig, fmt.Sprintf("[%d rows, cpu %d, temporary tables %v] %s", n, cpu, temp, what), c05Replay{Files: small(files), History: hist, CPU: cpu, Detail: what})
	}
	for _, q := range hist {
		if res := s.Exec(q); res.Err != nil {
			viol("statement-error", fmt.Sprintf("%s: %v", truncateStr(q, 80), res.Err))
			return
		}
	}
	res := s.Exec("SELECT COUNT(*), COUNT(DISTINCT x), MIN(x), MAX(x) FROM log; SELECT n FROM cnt WHERE id = 1; SELECT COUNT(*) FROM del; SELECT COUNT(*), SUM(n) FROM cnt WHERE id > 1000;")
	if res.Err != nil || len(res.Views) != 4 {
		viol("statement-error", fmt.Sprint(res.Err))
		return
	}
	g := func(v, c int) string { return res.Views[v].Rows[0][c].S }
	ns := strconv.Itoa(n)
	if g(0, 0) != ns || g(0, 1) != ns || g(0, 2) != "1" || g(0, 3) != ns {
		viol("table-differs:INSERT-from-parallel-calls", fmt.Sprintf("%d calls inserted one row each: the table holds %s rows, %s different values, from %s to %s", n, g(0, 0), g(0, 1), g(0, 2), g(0, 3)))
	}
	if g(1, 0) != ns {
		viol("table-differs:UPDATE-from-parallel-calls", fmt.Sprintf("%d calls added 1 each: the counter is %s", n, g(1, 0)))
	}
	if g(2, 0) != "0" {
		viol("table-differs:DELETE-from-parallel-calls", fmt.Sprintf("every row was deleted by its own call: %s rows are left", g(2, 0)))
	}
	if g(3, 0) != ns || g(3, 1) != strconv.Itoa(n*(n+1)/2) {
		viol("table-differs:REPLACE-from-parallel-calls", fmt.Sprintf("%d calls added one new key each: %s rows with a sum of %s", n, g(3, 0), g(3, 1)))
	}
	w.Count("statements_run_from_parallel_calls", int64(4*n))
}

// c05TwoAliases: one table named twice in the FROM clause, both aliases targets of one DELETE / UPDATE. The statement removes
// (rewrites) what it says for each alias.
func c05TwoAliases(w *core.Worker, i int) {
	r := w.Rng(i, "two-aliases")
	n := r.Range(3, 9)
	var sb strings.Builder
	sb.WriteString("id,a,b\n")
	for k := 1; k <= n; k++ {
		fmt.Fprintf(&sb, "%d,x,y\n", k)
	}
	files := map[string]string{"sj.csv": sb.String()}
	core.WriteFiles(w.Work, files)
	s, err := core.NewSess(core.SessOpts{Dir: w.Work, Quiet: true})
	if err != nil {
		w.Inconclusive(err.Error())
		return
	}
	defer s.Close()
	for _, c := range []struct{ stmt, probe, want string }{
		// p ranges over ids 2..n, q over 1..n-1: together every row
		{"DELETE p, q FROM sj p JOIN sj q ON p.id = q.id + 1;", "SELECT COUNT(*) FROM sj;", "0"},
		{"UPDATE p, q SET p.a = 'P', q.b = 'Q' FROM sj p JOIN sj q ON p.id = q.id;", "SELECT COUNT(*) FROM sj WHERE a = 'P' AND b = 'Q';", strconv.Itoa(n)},
	} {
		hist := []string{c.stmt, c.probe}
		if res := s.Exec(c.stmt); res.Err != nil {
			continue // (a refusal would be a clean answer)
		}
		res := s.Exec(c.probe)
		if res.Err == nil && len(res.Views) == 1 && res.Views[0].Rows[0][0].S != c.want {
			w.Violation("two-aliases-of-one-table-as-targets", fmt.Sprintf("%s on a table of %d rows: %s gives %s, expected %s (each alias worked on its own copy of the table and one copy replaced the other)", c.stmt, n, c.probe, res.Views[0].Rows[0][0].S, c.want), c05Replay{Files: files, History: hist, Detail: c.stmt})
		}
		s.Exec("ROLLBACK;")
		w.Count("statements_with_two_aliases_of_one_table_as_targets", 1)
	}
}

func c05Case(w *core.Worker, i int) {
	if i%60 == 13 {
		c05FromParallelCalls(w, i)
	}
	if i%100 == 17 {
		c05TwoAliases(w, i)
	}
	r := w.Rng(i, "")
	big := i%6 == 5
	n := pickSize(r, big)
	cpu := 1
	if big {
		cpu = r.Range(2, 8)
	}
	tp := colProfile{Kind: "text", Vals: c05Texts, NullPct: 15}
	gt := genTable(r, "t", n, []colProfile{tp, tp}, []string{"c1", "c2"})
	wideT := i%12 == 7
	if wideT {
		// a wide table (22..32 columns): statements that name more than twenty columns at once
		var profs []colProfile
		var cn []string
		for c := r.Range(22, 32); c > 0; c-- {
			profs = append(profs, tp)
			cn = append(cn, fmt.Sprintf("c%d", len(cn)+1))
		}
		gt = genTable(r, "t", r.Range(1, 6), profs, cn)
		w.Count("histories_over_a_wide_table", 1)
	}
	gu := genTable(r, "u", r.Range(0, 10), []colProfile{tp}, []string{"c1"})
	files := map[string]string{"t.csv": gt.CSV(), "u.tsv": renderFile("tsv", gu)}
	tabs := map[string]*mTable{"t": modelFromG(gt), "u": modelFromG(gu)}
	// temporary table
	tmp := &mTable{Name: "tmp", Cols: []string{"id", "c1"}}
	tabs["tmp"] = tmp
	type step struct {
		sql     string
		count   int // expected affected rows, -1 = not judged
		changed bool
		snap    map[string]*mTable
	}
	var steps []step
	snapAll := func() map[string]*mTable {
		m := map[string]*mTable{}
		for k, t := range tabs {
			m[k] = t.clone()
		}
		return m
	}
	nextID := n + 100
	defCtr := 0
	noWrap := map[int]bool{}
	names := []string{"t", "t", "t", "u", "tmp"}
	nst := r.Range(3, 12)
	for k := 0; k < nst; k++ {
		if len(steps) > 0 && steps[len(steps)-1].snap == nil {
			steps[len(steps)-1].snap = snapAll()
		}
		t := tabs[names[r.Intn(len(names))]]
		tn := t.Name
		opk := r.Intn(13)
		if wideT && k == 1 {
			opk, t = 12, tabs["t"]
			tn = t.Name
		}
		switch opk {
		case 0, 1: // INSERT VALUES (all columns)
			var rowsSQL []string
			cnt := r.Range(1, 3)
			for c := 0; c < cnt; c++ {
				nextID++
				row := make([]*string, len(t.Cols))
				for j := range t.Cols {
					if t.Cols[j] == "id" {
						row[j] = core.Sp(strconv.Itoa(nextID))
					} else if !r.P(20) {
						row[j] = core.Sp(c05Texts[r.Intn(len(c05Texts))])
					}
				}
				t.Rows = append(t.Rows, row)
				var lits []string
				for _, c := range row {
					lits = append(lits, litOf(c))
				}
				rowsSQL = append(rowsSQL, "("+strings.Join(lits, ", ")+")")
			}
			steps = append(steps, step{fmt.Sprintf("INSERT INTO %s VALUES %s;", tn, strings.Join(rowsSQL, ", ")), cnt, true, nil})
		case 2: // INSERT subset of columns
			nextID++
			oc := otherCol(r, t)
			row := make([]*string, len(t.Cols))
			row[t.col("id")] = core.Sp(strconv.Itoa(nextID))
			v := c05Texts[r.Intn(len(c05Texts))]
			if oc >= 0 {
				row[oc] = core.Sp(v)
			}
			t.Rows = append(t.Rows, row)
			if oc >= 0 {
				steps = append(steps, step{fmt.Sprintf("INSERT INTO %s (%s, id) VALUES (%s, '%d');", tn, t.Cols[oc], core.SQLStr(v), nextID), 1, true, nil})
			} else {
				steps = append(steps, step{fmt.Sprintf("INSERT INTO %s (id) VALUES ('%d');", tn, nextID), 1, true, nil})
			}
		case 3: // INSERT ... SELECT from another table
			src := tabs[[]string{"t", "u"}[r.Intn(2)]]
			toc, soc := otherCol(r, t), otherCol(r, src)
			if src == t || toc < 0 || soc < 0 {
				continue
			}
			p := genPred(r, src, 1)
			cnt := 0
			for _, row := range src.Rows {
				if p.eval(src, row) == 1 {
					nr := make([]*string, len(t.Cols))
					nr[t.col("id")], nr[toc] = row[src.col("id")], row[soc]
					t.Rows = append(t.Rows, nr)
					cnt++
				}
			}
			steps = append(steps, step{fmt.Sprintf("INSERT INTO %s (id, %s) SELECT id, %s FROM %s WHERE %s;", tn, t.Cols[toc], src.Cols[soc], src.Name, p.SQL("")), cnt, cnt > 0, nil})
		case 4, 5: // UPDATE
			ci := otherCol(r, t)
			if ci < 0 {
				continue
			}
			p := genPred(r, t, 2)
			var set string
			var newv func(row []*string) *string
			selfRef := false
			switch r.Intn(4) {
			case 3:
				// a sub-query over the table being updated: it must see the table as it was before the statement
				q := genPred(r, t, 1)
				cnt := 0
				for _, row := range t.Rows {
					if q.eval(t, row) == 1 {
						cnt++
					}
				}
				v := "n" + strconv.Itoa(cnt)
				set, newv = fmt.Sprintf("(SELECT 'n' || COUNT(*) FROM %s x WHERE %s)", tn, q.SQL("x.")), func([]*string) *string { return core.Sp(v) }
				selfRef = true
			case 0:
				v := c05Texts[r.Intn(len(c05Texts))] + "!"
				set, newv = core.SQLStr(v), func([]*string) *string { return core.Sp(v) }
			case 1:
				set, newv = "NULL", func([]*string) *string { return nil }
			default:
				oc := r.Intn(len(t.Cols))
				set, newv = t.Cols[oc], func(row []*string) *string { return row[oc] }
			}
			cnt := 0
			for _, row := range t.Rows {
				if p.eval(t, row) == 1 {
					row[ci] = newv(append([]*string{}, row...))
					cnt++
				}
			}
			if selfRef && cnt > 1 {
				w.Count("updates_with_subquery_over_the_updated_table", 1)
			}
			steps = append(steps, step{fmt.Sprintf("UPDATE %s SET %s = %s WHERE %s;", tn, t.Cols[ci], set, p.SQL("")), cnt, cnt > 0, nil})
		case 6: // multi-table UPDATE: t.c1 := u.c1 for matching ids
			a, b := tabs["t"], tabs["u"]
			ac, bc := otherCol(r, a), otherCol(r, b)
			if ac < 0 || bc < 0 || !uniqueIDs(b) {
				continue
			}
			ai, bi := a.col("id"), b.col("id")
			cnt := 0
			for _, row := range a.Rows {
				for _, ur := range b.Rows {
					if row[ai] != nil && ur[bi] != nil && *row[ai] == *ur[bi] {
						row[ac] = ur[bc]
						cnt++
						break
					}
				}
			}
			steps = append(steps, step{fmt.Sprintf("UPDATE t SET t.%s = u.%s FROM t JOIN u ON t.id = u.id;", a.Cols[ac], b.Cols[bc]), cnt, cnt > 0, nil})
		case 11: // one UPDATE with two target tables: every assignment lands in the row of ITS table that took part in the joined row
			a, b := tabs["t"], tabs["u"]
			ac, bc := otherCol(r, a), otherCol(r, b)
			if ac < 0 || bc < 0 || !uniqueIDs(a) || !uniqueIDs(b) {
				continue
			}
			ai, bi := a.col("id"), b.col("id")
			off := r.Range(0, 2)
			cnt := 0
			for _, row := range a.Rows {
				x, ok := cellRV(row[ai]).asIntStrict()
				if !ok {
					continue
				}
				for _, ur := range b.Rows {
					if y, ok2 := cellRV(ur[bi]).asIntStrict(); ok2 && x == y+int64(off) {
						row[ac], ur[bc] = core.Sp("mt!"), core.Sp("mu!")
						cnt++
						break
					}
				}
			}
			steps = append(steps, step{fmt.Sprintf("UPDATE t, u SET t.%s = 'mt!', u.%s = 'mu!' FROM t JOIN u ON t.id = u.id + %d;", a.Cols[ac], b.Cols[bc], off), -1, cnt > 0, nil})
			if cnt > 0 {
				w.Count("updates_with_two_target_tables", 1)
			}
		case 7: // DELETE
			p := genPred(r, t, 2)
			var keep [][]*string
			cnt := 0
			for _, row := range t.Rows {
				if p.eval(t, row) == 1 {
					cnt++
				} else {
					keep = append(keep, row)
				}
			}
			t.Rows = keep
			steps = append(steps, step{fmt.Sprintf("DELETE FROM %s WHERE %s;", tn, p.SQL("")), cnt, cnt > 0, nil})
		case 8: // multi-table DELETE
			// a target row matched by several joined rows is deleted — and counted — once
			a, b := tabs["t"], tabs["u"]
			var keep [][]*string
			cnt := 0
			ai, bi := a.col("id"), b.col("id")
			wide := r.Bool()
			for _, row := range a.Rows {
				del := false
				x, okx := cellRV(row[ai]).asIntStrict()
				for _, ur := range b.Rows {
					y, oky := cellRV(ur[bi]).asIntStrict()
					if okx && oky && (x == y || (wide && x == y+1)) {
						del = true
					}
				}
				if del {
					cnt++
				} else {
					keep = append(keep, row)
				}
			}
			a.Rows = keep
			if wide {
				steps = append(steps, step{"DELETE t FROM t JOIN u ON t.id = u.id OR t.id = u.id + 1;", cnt, cnt > 0, nil})
			} else {
				steps = append(steps, step{"DELETE t FROM t JOIN u ON t.id = u.id;", cnt, cnt > 0, nil})
			}
		case 9: // REPLACE USING (id), or USING a text column that may hold duplicates (every matching row is updated)
			oc, idc := otherCol(r, t), t.col("id")
			if oc < 0 {
				continue
			}
			if kc := otherCol(r, t); r.P(40) && kc != oc && kc >= 0 {
				var vals []string
				used := map[string]bool{}
				matched, appended := 0, 0
				for c := r.Range(1, 3); c > 0; c-- {
					key := c05Texts[r.Intn(len(c05Texts))]
					norm := strings.ToUpper(trimSp(key))
					if used[norm] {
						continue
					}
					used[norm] = true
					v := "rk" + strconv.Itoa(k) + norm
					hit := false
					for _, row := range t.Rows {
						if row[kc] != nil && strings.ToUpper(trimSp(*row[kc])) == norm {
							row[oc] = core.Sp(v)
							matched++
							hit = true
						}
					}
					if !hit {
						nr := make([]*string, len(t.Cols))
						nr[kc], nr[oc] = core.Sp(key), core.Sp(v)
						t.Rows = append(t.Rows, nr)
						appended++
					}
					vals = append(vals, fmt.Sprintf("(%s, %s)", core.SQLStr(key), core.SQLStr(v)))
				}
				steps = append(steps, step{fmt.Sprintf("REPLACE INTO %s (%s, %s) USING (%s) VALUES %s;", tn, t.Cols[kc], t.Cols[oc], t.Cols[kc], strings.Join(vals, ", ")), matched + appended, true, nil})
				continue
			}
			var vals []string
			used := map[string]bool{}
			matched, appended := 0, 0
			for c := r.Range(1, 3); c > 0; c-- {
				var id string
				if len(t.Rows) > 0 && r.Bool() {
					x := t.Rows[r.Intn(len(t.Rows))][idc]
					if x == nil {
						continue
					}
					id = *x
				} else {
					nextID++
					id = strconv.Itoa(nextID)
				}
				if used[id] {
					continue
				}
				used[id] = true
				v := "rep" + id
				hit := false
				for _, row := range t.Rows {
					if row[idc] != nil && *row[idc] == id {
						row[oc] = core.Sp(v)
						matched++
						hit = true
					}
				}
				if !hit {
					nr := make([]*string, len(t.Cols))
					nr[idc], nr[oc] = core.Sp(id), core.Sp(v)
					t.Rows = append(t.Rows, nr)
					appended++
				}
				keySQL := fmt.Sprintf("'%s'", id)
				if _, e := strconv.Atoi(id); hit && e == nil && r.P(35) {
					// the key of an existing row given as a number of the other kind: 2.0 and 2e0 are the key 2
					keySQL = id + []string{".0", "e0", ".00"}[r.Intn(3)]
				}
				vals = append(vals, fmt.Sprintf("(%s, %s)", keySQL, core.SQLStr(v)))
			}
			if len(vals) == 0 {
				continue
			}
			steps = append(steps, step{fmt.Sprintf("REPLACE INTO %s (id, %s) USING (id) VALUES %s;", tn, t.Cols[oc], strings.Join(vals, ", ")), matched + appended, true, nil})
		case 10: // ALTER ADD
			if len(t.Cols) > 5 {
				continue
			}
			nc := fmt.Sprintf("n%d", k)
			var def *string
			counting := false
			sql := fmt.Sprintf("ALTER TABLE %s ADD %s", tn, nc)
			switch r.Intn(3) {
			case 0:
				def = core.Sp("dflt")
				sql += " DEFAULT 'dflt'"
			case 1:
				if !big {
					// a default that is evaluated for every record (one worker: in table order) and has a side effect
					counting = true
					sql += " DEFAULT 's' || (@c05n := @c05n + 1)"
				}
			}
			pos := len(t.Cols)
			switch r.Intn(4) {
			case 0:
				pos = 0
				sql += " FIRST"
			case 1:
				sql += " LAST"
			case 2:
				ref := r.Intn(len(t.Cols))
				pos = ref + 1
				sql += " AFTER " + t.Cols[ref]
			case 3:
				ref := r.Intn(len(t.Cols))
				pos = ref
				sql += " BEFORE " + t.Cols[ref]
			}
			t.Cols = append(t.Cols[:pos], append([]string{nc}, t.Cols[pos:]...)...)
			for ri, row := range t.Rows {
				if counting {
					defCtr++
					def = core.Sp("s" + strconv.Itoa(defCtr))
				}
				t.Rows[ri] = append(append(append([]*string{}, row[:pos]...), def), row[pos:]...)
			}
			if counting {
				noWrap[len(steps)] = true
				w.Count("defaults_with_a_side_effect", 1)
			}
			steps = append(steps, step{sql + ";", -1, true, nil})
		default: // DROP / RENAME (never the id column)
			ci := otherCol(r, t)
			if len(t.Cols) < 3 || ci < 0 {
				continue
			}
			if len(t.Cols) >= 4 && r.P(70) {
				// several columns in one DROP, listed in any order
				idc := t.col("id")
				var cand []int
				for j := range t.Cols {
					if j != idc {
						cand = append(cand, j)
					}
				}
				perm := r.Perm(len(cand))
				nd := r.Range(2, len(cand)-0)
				if wideT && len(cand) > 22 && r.P(70) {
					nd = r.Range(21, len(cand)-1)
					w.Count("drops_of_more_than_twenty_columns", 1)
				}
				if nd > len(cand)-1 {
					nd = len(cand) - 1
				}
				if nd >= 2 {
					drop := map[int]bool{}
					var names []string
					for _, x := range perm[:nd] {
						drop[cand[x]] = true
						names = append(names, t.Cols[cand[x]])
					}
					sql := fmt.Sprintf("ALTER TABLE %s DROP (%s);", tn, strings.Join(names, ", "))
					var nc []string
					for j, c := range t.Cols {
						if !drop[j] {
							nc = append(nc, c)
						}
					}
					for ri, row := range t.Rows {
						var nr []*string
						for j, c := range row {
							if !drop[j] {
								nr = append(nr, c)
							}
						}
						t.Rows[ri] = nr
					}
					t.Cols = nc
					steps = append(steps, step{sql, -1, true, nil})
					w.Count("drops_of_several_columns", 1)
					continue
				}
			}
			if r.Bool() {
				sql := fmt.Sprintf("ALTER TABLE %s DROP %s;", tn, t.Cols[ci])
				t.Cols = append(append([]string{}, t.Cols[:ci]...), t.Cols[ci+1:]...)
				for ri, row := range t.Rows {
					t.Rows[ri] = append(append([]*string{}, row[:ci]...), row[ci+1:]...)
				}
				steps = append(steps, step{sql, -1, true, nil})
			} else {
				nn := t.Cols[ci] + "r"
				steps = append(steps, step{fmt.Sprintf("ALTER TABLE %s RENAME %s TO %s;", tn, t.Cols[ci], nn), -1, true, nil})
				t.Cols[ci] = nn
			}
		}
	}
	if len(steps) > 0 && steps[len(steps)-1].snap == nil {
		steps[len(steps)-1].snap = snapAll()
	}
	// some statements run inside a nested block (IF / WHILE / user function): the change must land in the table itself,
	// not in something that disappears with the block
	for k := range steps {
		if noWrap[k] {
			continue
		}
		switch r.Intn(10) {
		case 0:
			steps[k].sql = "IF 1 = 1 THEN " + steps[k].sql + " END IF;"
			steps[k].count = -1 // the harness reads the count from the transaction after the outermost statement; a block statement resets it
			w.Count("statements_inside_a_block", 1)
		case 1:
			steps[k].sql = "VAR @w := 0; WHILE @w < 1 DO @w := @w + 1; " + steps[k].sql + " END WHILE; DISPOSE @w;"
			steps[k].count = -1
			w.Count("statements_inside_a_block", 1)
		case 2:
			steps[k].sql = fmt.Sprintf("DECLARE fw%d FUNCTION () AS BEGIN %s RETURN 1; END; VAR @fw%d := fw%d();", k, steps[k].sql, k, k)
			steps[k].count = -1
			w.Count("statements_inside_a_block", 1)
		}
	}
	var sqls []string
	changed := 0
	for _, st := range steps {
		sqls = append(sqls, st.sql)
		if st.changed {
			changed++
		}
	}
	reps := 1
	if big {
		reps = 2
	}
	compared := 0
	for rep := 0; rep < reps; rep++ {
		dir := core.FreshDir(w.Work, "repo")
		core.WriteFiles(dir, files)
		s, err := core.NewSess(core.SessOpts{Dir: dir, CPU: cpu})
		if err != nil {
			w.Inconclusive(err.Error())
			return
		}
		viol := func(k int, sig, what string) {
			w.Violation(sig, fmt.Sprintf("step %d %q [%d rows, cpu %d]: %s", k, sqls[k], n, cpu, what), c05Replay{Files: small(files), History: sqls, Step: k, CPU: cpu, Detail: what})
		}
		s.Exec("DECLARE tmp VIEW (id, c1);")
		s.Exec("VAR @c05n := 0;")
		ok := true
		for k, st := range steps {
			res := s.Exec(st.sql)
			if res.Err != nil {
				viol(k, "statement-error", res.Err.Error())
				ok = false
				break
			}
			if st.count >= 0 && res.Affected != st.count {
				viol(k, "affected-count:"+strings.Fields(st.sql)[0], fmt.Sprintf("reported %d affected records, the specification gives %d", res.Affected, st.count))
			}
			for _, tn := range []string{"t", "u", "tmp"} {
				v := s.Exec("SELECT * FROM " + tn + ";")
				if v.Err != nil || len(v.Views) != 1 {
					viol(k, "select-error", fmt.Sprint(v.Err))
					ok = false
					continue
				}
				if d := c05Diff(st.snap[tn], v.Views[0]); d != "" {
					viol(k, "table-differs:"+strings.Fields(st.sql)[0], "table "+tn+" after the statement: "+d)
					ok = false
				}
				compared++
			}
			if !ok {
				break
			}
		}
		if ok {
			// final commit and reload from disk in a fresh session
			if res := s.Exec("COMMIT;"); res.Err != nil {
				viol(len(steps)-1, "commit-error", res.Err.Error())
			}
			s.Close()
			s2, _ := core.NewSess(core.SessOpts{Dir: dir, CPU: 1})
			for tn, fn := range map[string]string{"t": "t.csv", "u": "u.tsv"} {
				v := s2.Exec("SELECT * FROM `" + fn + "`;")
				if v.Err != nil || len(v.Views) != 1 {
					viol(len(steps)-1, "reload-error", fmt.Sprint(v.Err))
					continue
				}
				if len(steps) > 0 {
					if d := c05DiffDisk(steps[len(steps)-1].snap[tn], v.Views[0]); d != "" {
						viol(len(steps)-1, "file-differs", "file "+fn+" after COMMIT: "+d)
					}
				}
			}
			s2.Close()
		} else {
			s.Close()
		}
	}
	// the STDIN table as DML target (every 10th case): two data-changing statements in one transaction
	if i%10 == 3 {
		st := modelFromG(gt)
		ss, err := core.NewSess(core.SessOpts{Dir: w.Work, Stdin: gt.CSV(), WaitTimeout: 0.2, Quiet: true})
		if err == nil {
			q1 := "UPDATE STDIN SET c1 = 'zz' WHERE id % 2 = 0;"
			cnt := 0
			for _, row := range st.Rows {
				if v, ok := cellRV(row[0]).asIntStrict(); ok && v%2 == 0 {
					row[1] = core.Sp("zz")
					cnt++
				}
			}
			r1 := ss.Exec(q1)
			hist := []string{"(stdin = t.csv)", q1}
			sviol := func(sig, what string) {
				w.Violation(sig, fmt.Sprintf("STDIN table, %v: %s", hist, what), c05Replay{Files: small(files), History: hist, Detail: what})
			}
			if r1.Err != nil {
				sviol("stdin:statement-error", r1.Err.Error())
			} else {
				if r1.Affected != cnt {
					sviol("stdin:affected-count", fmt.Sprintf("reported %d, expected %d", r1.Affected, cnt))
				}
				if v := ss.Exec("SELECT * FROM STDIN;"); v.Err == nil && len(v.Views) == 1 {
					st.Cols = append([]string{}, gt.Cols...)
					if d := c05Diff(st, v.Views[0]); d != "" {
						sviol("stdin:table-differs", d)
					}
					compared++
				}
				q2 := "DELETE FROM STDIN WHERE id % 3 = 0;"
				hist = append(hist, q2)
				r2 := ss.Exec(q2)
				if r2.Err != nil {
					sig := "stdin:statement-error"
					if strings.Contains(r2.Err.Error(), "lock wait timeout") {
						sig = "stdin:second-data-changing-statement-waits-for-its-own-lock"
					}
					sviol(sig, r2.Err.Error())
				} else {
					var keep [][]*string
					for _, row := range st.Rows {
						if v, ok := cellRV(row[0]).asIntStrict(); !(ok && v%3 == 0) {
							keep = append(keep, row)
						}
					}
					st.Rows = keep
					if v := ss.Exec("SELECT * FROM STDIN;"); v.Err == nil && len(v.Views) == 1 {
						if d := c05Diff(st, v.Views[0]); d != "" {
							sviol("stdin:table-differs", d)
						}
						compared++
					}
				}
			}
			ss.Close()
			w.Count("stdin_histories", 1)
		}
	}
	if i < 30 {
		w.Sample(map[string]interface{}{"history": sqls, "rows_t": n, "cpu": cpu})
	}
	w.Count("steps_compared", int64(compared))
	if big {
		w.Count("cases_parallel_path", 1)
	}
	w.Case(core.Digest(append([]string{files["t.csv"]}, sqls...)...), changed >= 3 && compared >= 3*len(steps)*reps && len(steps) > 0)
}

// c05Diff compares the model with a selected view: column names, column order, row order, cells (typed: S or N).
func c05Diff(m *mTable, v *core.Table) string {
	if strings.Join(m.Cols, ",") != strings.Join(v.Header, ",") {
		return fmt.Sprintf("columns are %v, expected %v", v.Header, m.Cols)
	}
	if len(m.Rows) != len(v.Rows) {
		return fmt.Sprintf("%d rows, expected %d", len(v.Rows), len(m.Rows))
	}
	for i, r := range m.Rows {
		for j, c := range r {
			g := v.Rows[i][j]
			if c == nil {
				if g.T != 'N' {
					return fmt.Sprintf("row %d column %s is %v, expected NULL", i, m.Cols[j], g)
				}
			} else if g.T != 'S' || g.S != *c {
				return fmt.Sprintf("row %d column %s is %v, expected %q", i, m.Cols[j], g, *c)
			}
		}
	}
	return ""
}

// c05DiffDisk: as c05Diff but NULL and empty text coincide (CSV/TSV spell both the same).
func c05DiffDisk(m *mTable, v *core.Table) string {
	if strings.Join(m.Cols, ",") != strings.Join(v.Header, ",") {
		return fmt.Sprintf("columns are %v, expected %v", v.Header, m.Cols)
	}
	if len(m.Rows) != len(v.Rows) {
		return fmt.Sprintf("%d rows, expected %d", len(v.Rows), len(m.Rows))
	}
	for i, r := range m.Rows {
		for j, c := range r {
			g := v.Rows[i][j]
			want := ""
			if c != nil {
				want = *c
			}
			if g.S != want {
				return fmt.Sprintf("row %d column %s is %v, expected %q", i, m.Cols[j], g, want)
			}
		}
	}
	return ""
}

func otherCol(r *core.Rng, t *mTable) int {
	idc := t.col("id")
	var cand []int
	for j := range t.Cols {
		if j != idc {
			cand = append(cand, j)
		}
	}
	if len(cand) == 0 {
		return -1
	}
	return cand[r.Intn(len(cand))]
}

func uniqueIDs(t *mTable) bool {
	seen := map[string]bool{}
	idc := t.col("id")
	for _, r := range t.Rows {
		if r[idc] == nil || seen[*r[idc]] {
			return false
		}
		seen[*r[idc]] = true
	}
	return true
}
