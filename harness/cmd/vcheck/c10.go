package main

import (
	"bytes"
	"fmt"
	"os"
	"path/filepath"
	"sort"
	"strconv"
	"strings"
	"time"

	"verif/internal/core"
)

func init() {
	core.Register(&core.Spec{
		ID: "C10", Level: "fault_enumeration",
		Rule: "one case = one generated transaction (updates 1..3 existing tables in csv/tsv/json/jsonl/ltsv, creates 0..2, 0 rows .. ~200 KB) ; a tracing run lists every hook point hit from txcommit.begin to process exit and the process is then killed (SIGKILL to itself) at EVERY such (point,hit), each time on a fresh copy of the directory; " +
			"thorough (and the first three cases of quick) additionally walks every file-system syscall of the commit with strace kill-injection, and repeats the walk with the rename refused (EPERM). Every case ends with one of seven transactions whose new contents cannot be written in the table's format (JSON path, line break in a fixed-length cell, TAB / colon in LTSV, nothing to write): only the previous contents are admissible, at the normal end and at every crash point from txcommit.begin on. non-trivial = the crash run really died by SIGKILL at that point; distinct = (transaction digest, crash point).",
		Quick: 12, Thorough: 400, FloorQuick: 200, FloorThorough: 6000, Workers: 16,
		CaseTimeout: 20 * time.Minute,
		Assumptions: []string{"crash = process death at hook-point (and, thorough, syscall) granularity; torn single write(2) calls and power-loss reordering of unsynced data are not produced (csvq never fsyncs; the property speaks of the process dying)",
			"tables created by the transaction are outside the promise and only recorded"},
		Fn: c10Case,
	})
}

type c10Replay struct {
	Files   map[string]string `json:"files"`
	Links   []string          `json:"tables_that_are_symbolic_links_to_store"`
	Program string            `json:"program"`
	CrashAt string            `json:"crash_at"`
	Detail  string            `json:"detail"`
}

type c10Tx struct {
	files   map[string]string
	program string
	tables  []string // pre-existing tables touched
	links   []string // those of them that are symbolic links to store/<name>
	stale   []string // those of them next to which a stale temp file lies
	ro      []string // those of them whose file mode is 0444
	hard    []string // those of them that have a second name (hard link) in aliases/
}

// c10HardLink gives the named tables a second directory entry (aliases/<name>): a table somebody keeps under two names. What the
// other name shows after a COMMIT is csvq's business; the table at its own path must be complete, old or new, at every instant.
func c10HardLink(dir string, names []string) {
	for _, n := range names {
		_ = os.MkdirAll(filepath.Join(dir, "aliases"), 0755)
		_ = os.Link(filepath.Join(dir, n), filepath.Join(dir, "aliases", n))
	}
}

// c10Link turns the named tables of a freshly copied directory into symbolic links to store/<name>.
func c10Link(dir string, links []string) {
	for _, n := range links {
		_ = os.MkdirAll(filepath.Join(dir, "store"), 0755)
		_ = os.Rename(filepath.Join(dir, n), filepath.Join(dir, "store", n))
		_ = os.Symlink(filepath.Join("store", n), filepath.Join(dir, n))
	}
}

// c10Stale leaves the temp file of an earlier, killed run next to the named tables (the user removed only the lock file).
// c10ReadOnly takes the owner's write permission from the named tables (mode 0444: a table somebody protected, still writable for
// the super-user these runs are, or through an ACL).
func c10ReadOnly(dir string, names []string) {
	for _, n := range names {
		_ = os.Chmod(filepath.Join(dir, n), 0444)
	}
}

func c10Stale(dir string, names []string) {
	for _, n := range names {
		_ = os.WriteFile(filepath.Join(dir, "."+n+".temp"), []byte("half written by a run that was killed\n"), 0600)
	}
}

// c10Read reads a table through its path name (following a link).
func c10Read(dir, name string) ([]byte, bool) {
	b, err := os.ReadFile(filepath.Join(dir, name))
	return b, err == nil
}

func genC10Tx(r *core.Rng, forceLink bool) c10Tx {
	formats := []string{"csv", "csv", "tsv", "json", "jsonl", "ltsv"}
	nExisting := r.Range(1, 3)
	tx := c10Tx{files: map[string]string{}}
	var prog []string
	for k := 0; k < nExisting; k++ {
		f := formats[r.Intn(len(formats))]
		nrows := []int{0, 1, 3, 20, 300, 4000}[r.Intn(6)]
		if (f == "ltsv" || f == "json" || f == "jsonl") && nrows == 0 {
			nrows = 2 // these formats carry the column names in the records: an empty file has no columns
		}
		vals := []string{"alpha", "beta", "gamma", "delta", "x", "yy", "zzz", strings.Repeat("w", 40)}
		t := genTable(r, "t", nrows, []colProfile{{Kind: "v", Vals: vals}, {Kind: "v", Vals: vals, NullPct: 10}}, []string{"c1", "c2"})
		if f == "ltsv" || f == "tsv" {
			for _, row := range t.Rows {
				for j := range row {
					if row[j] == nil {
						row[j] = core.Sp("")
					}
				}
			}
		}
		name := fmt.Sprintf("t%d.%s", k+1, f)
		tx.files[name] = renderFile(f, t)
		tx.tables = append(tx.tables, name)
		if r.P(25) || (k == 0 && forceLink) {
			tx.links = append(tx.links, name)
		} else if r.P(30) {
			tx.ro = append(tx.ro, name)
		}
		tbl := "`" + name + "`"
		switch r.Intn(4) {
		case 0:
			prog = append(prog, fmt.Sprintf("UPDATE %s SET c2 = 'U%d' WHERE id %% 2 = 0", tbl, r.Intn(100)))
		case 1:
			prog = append(prog, fmt.Sprintf("INSERT INTO %s VALUES (%d, 'new', 'row'), (%d, 'new2', NULL)", tbl, nrows+1, nrows+2))
		case 2:
			prog = append(prog, fmt.Sprintf("DELETE FROM %s WHERE id %% 3 = 1", tbl))
		default:
			prog = append(prog, fmt.Sprintf("UPDATE %s SET c1 = c1 || '!'", tbl), fmt.Sprintf("INSERT INTO %s VALUES (%d, 'tail', 'row')", tbl, nrows+1))
		}
	}
	// an untouched bystander table and a read-only one
	tx.files["bystander.csv"] = "id,v\n1,keep\n"
	prog = append(prog, "SELECT COUNT(*) FROM bystander")
	for k := 0; k < r.Intn(3); k++ {
		name := fmt.Sprintf("n%d.csv", k+1)
		prog = append(prog, fmt.Sprintf("CREATE TABLE `%s` (a, b)", name), fmt.Sprintf("INSERT INTO `%s` VALUES (1, 'created'), (2, 'table')", name))
	}
	tx.program = strings.Join(prog, ";\n") + ";"
	return tx
}

func c10Case(w *core.Worker, i int) {
	r := w.Rng(i, "")
	tx := genC10Tx(r, i%4 == 1)
	if i%4 == 3 {
		tx.stale = tx.tables[:1]
	}
	if i%4 == 2 && len(tx.ro) == 0 {
		for _, n := range tx.tables {
			isLink := false
			for _, l := range tx.links {
				isLink = isLink || l == n
			}
			if !isLink {
				tx.ro = []string{n}
				break
			}
		}
	}
	if i%2 == 0 && i > 0 {
		for k := len(tx.tables) - 1; k >= 0; k-- {
			n := tx.tables[k]
			isLink := false
			for _, l := range tx.links {
				isLink = isLink || l == n
			}
			if !isLink {
				tx.hard = []string{n}
				break
			}
		}
	}
	base := core.FreshDir(w.Work, "base")
	core.WriteFiles(base, tx.files)
	txDigest := core.Digest(tx.program, fmt.Sprint(len(tx.files)))
	run := func(dir string, env []string, prefix []string) core.ProcResult {
		return core.RunProc(core.ProcOpts{Dir: dir, Args: csvqArgs("-q", "--wait-timeout", "1", tx.program), Env: env, Prefix: prefix, Timeout: 120 * time.Second})
	}
	// clean run → new bytes
	clean := filepath.Join(w.Work, "clean")
	_ = os.RemoveAll(clean)
	copyDir(base, clean)
	c10Link(clean, tx.links)
	c10Stale(clean, tx.stale)
	c10ReadOnly(clean, tx.ro)
	c10HardLink(clean, tx.hard)
	res := run(clean, nil, nil)
	if res.Code != 0 && len(tx.stale) > 0 && !strings.Contains(res.Stderr, "Fatal Error") {
		// refusing to touch a table next to a stale temp file is a legitimate answer — then nothing may have changed;
		// a csvq that goes ahead instead is walked through the crash points below like any other transaction
		for _, name := range tx.tables {
			if b, _ := c10Read(clean, name); !bytes.Equal(b, []byte(tx.files[name])) {
				w.Violation("refused-but-changed", fmt.Sprintf("the transaction was refused (exit %d) next to a stale temp file but %s changed", res.Code, name), c10Replay{Files: small(tx.files), Program: tx.program})
			}
		}
		w.Count("transactions_refused_next_to_a_stale_temp_file", 1)
		w.Case(core.Digest(tx.program, "stale"), true)
		return
	}
	if res.Code != 0 {
		if strings.Contains(res.Stderr, "Fatal Error") || strings.Contains(res.Stderr, "panic:") {
			w.Violation("clean-run-internal-failure", fmt.Sprintf("the transaction itself failed internally: %s", res), c10Replay{Files: small(tx.files), Links: tx.links, Program: tx.program})
		} else {
			w.Inconclusive(fmt.Sprintf("the generated transaction fails by itself: %s", res))
		}
		return
	}
	newSnap := core.TakeSnap(clean)
	oldSnap := core.TakeSnap(base)
	oldData, newData := map[string][]byte{}, map[string][]byte{}
	for _, name := range tx.tables {
		oldData[name], _ = c10Read(base, name)
		newData[name], _ = c10Read(clean, name)
	}
	for _, n := range newSnap.Names() {
		planted := false
		for _, st := range tx.stale {
			if n == "."+st+".temp" && string(newSnap[n].Data) == "half written by a run that was killed\n" {
				planted = true // the stale file this case put there itself, untouched: not a leftover of this run
			}
		}
		if core.IsControlFile(n) && !planted {
			w.Violation("leftover-after-clean-run", "control file left after a successful run: "+n, c10Replay{Files: small(tx.files), Links: tx.links, Program: tx.program})
		}
	}
	// trace run → crash points
	tr := filepath.Join(w.Work, "trace")
	_ = os.RemoveAll(tr)
	copyDir(base, tr)
	c10Link(tr, tx.links)
	c10Stale(tr, tx.stale)
	c10ReadOnly(tr, tx.ro)
	c10HardLink(tr, tx.hard)
	tracePath := filepath.Join(w.Work, "trace.log")
	_ = os.Remove(tracePath)
	res = run(tr, []string{"VERIF_TRACE=" + tracePath}, nil)
	evs := core.ReadTrace(tracePath)
	var points []string
	started := false
	for _, e := range evs {
		if e.Point == "txcommit.begin#1" {
			started = true
		}
		if started && !strings.HasPrefix(e.Name, "worker.") {
			points = append(points, e.Point)
		}
	}
	if len(points) < 5 {
		w.Inconclusive(fmt.Sprintf("trace run produced only %d commit points", len(points)))
		return
	}
	judge := func(dir, at string) {
		snap := core.TakeSnap(dir)
		for _, name := range tx.tables {
			data, ok := c10Read(dir, name)
			if !ok {
				w.Violation("table-missing@"+pointName(at), fmt.Sprintf("after dying at %s table %s does not exist any more; directory: %v", at, name, snap.Names()),
					c10Replay{Files: small(tx.files), Links: tx.links, Program: tx.program, CrashAt: at})
				continue
			}
			if !bytes.Equal(data, oldData[name]) && !bytes.Equal(data, newData[name]) {
				w.Violation("table-mixed@"+pointName(at), fmt.Sprintf("after dying at %s table %s (%d bytes) equals neither its old (%d bytes) nor its new (%d bytes) contents", at, name, len(data), len(oldData[name]), len(newData[name])),
					c10Replay{Files: small(tx.files), Links: tx.links, Program: tx.program, CrashAt: at})
			}
		}
		if e, ok := snap["bystander.csv"]; !ok || !bytes.Equal(e.Data, oldSnap["bystander.csv"].Data) {
			w.Violation("bystander-changed@"+pointName(at), "a table the transaction only read was changed", c10Replay{Files: small(tx.files), Links: tx.links, Program: tx.program, CrashAt: at})
		}
		// usability after removing the leftover control files
		removeControlFiles(dir)
		for _, name := range tx.tables {
			p := core.RunProc(core.ProcOpts{Dir: dir, Args: csvqArgs("-q", "--wait-timeout", "10", fmt.Sprintf("SELECT COUNT(*) FROM `%s`; UPDATE `%s` SET c1 = 'probe' WHERE id = 1;", name, name)), Timeout: 60 * time.Second})
			if p.Code != 0 {
				w.Violation("unusable@"+pointName(at), fmt.Sprintf("after dying at %s and removing the control files, table %s is not usable: %s", at, name, p), c10Replay{Files: small(tx.files), Links: tx.links, Program: tx.program, CrashAt: at})
			}
		}
	}
	fired := 0
	for _, at := range points {
		d := filepath.Join(w.Work, "crash")
		_ = os.RemoveAll(d)
		copyDir(base, d)
		c10Link(d, tx.links)
		c10Stale(d, tx.stale)
		c10ReadOnly(d, tx.ro)
		c10HardLink(d, tx.hard)
		p := run(d, []string{"VERIF_CRASH_AT=" + at}, nil)
		if p.Signal != 9 {
			w.Inconclusive(fmt.Sprintf("crash at %s did not kill the process (%s)", at, p))
			w.Case(core.Digest(txDigest, at), false)
			continue
		}
		fired++
		w.Note("crash_points_fired", pointName(at))
		judge(d, at)
		w.Case(core.Digest(txDigest, at), true)
	}
	w.Count("crash_runs", int64(fired))
	if len(tx.links) > 0 {
		w.Count("transactions_with_a_symlinked_table", 1)
	}
	if len(tx.ro) > 0 {
		w.Count("transactions_with_a_write-protected_table", 1)
	}
	if len(tx.hard) > 0 {
		w.Count("transactions_with_a_table_that_has_a_second_hard_link", 1)
	}

	// syscall walk with strace (thorough, first 20 transactions)
	if (w.Tier == "thorough" && i < 20) || i < 3 || len(tx.stale) > 0 {
		c10Syscalls(w, tx, base, run, judge, txDigest)
	}
	if i < 3 {
		w.Sample(map[string]interface{}{"program": tx.program, "tables": tx.tables, "crash_points": points})
	}
	c10Unencodable(w, i)
	_ = os.RemoveAll(clean)
	_ = os.RemoveAll(tr)
}

func pointName(at string) string {
	if i := strings.LastIndex(at, "#"); i >= 0 {
		return at[:i]
	}
	return at
}

func small(files map[string]string) map[string]string {
	out := map[string]string{}
	for k, v := range files {
		if len(v) > 2000 {
			v = v[:2000] + fmt.Sprintf("…(%d bytes)", len(v))
		}
		out[k] = v
	}
	return out
}

// c10Syscalls kills the process at the N-th occurrence of each file-system
// syscall class, N = 1..count seen in a counting run (GOMAXPROCS=1 keeps the
// per-thread counters of strace meaningful; a kill that does not fire is skipped).
func c10Syscalls(w *core.Worker, tx c10Tx, base string, run func(string, []string, []string) core.ProcResult, judge func(string, string), txDigest string) {
	calls := []string{"rename", "renameat", "unlink", "unlinkat", "ftruncate", "close", "write", "openat"}
	cnt := filepath.Join(w.Work, "cnt")
	_ = os.RemoveAll(cnt)
	copyDir(base, cnt)
	c10Link(cnt, tx.links)
	c10Stale(cnt, tx.stale)
	c10ReadOnly(cnt, tx.ro)
	c10HardLink(cnt, tx.hard)
	out := filepath.Join(w.Work, "strace.cnt")
	p := run(cnt, []string{"GOMAXPROCS=1"}, []string{"strace", "-f", "-c", "-o", out, "-e", "trace=" + strings.Join(calls, ",")})
	if p.Code != 0 {
		w.Inconclusive("strace counting run failed: " + p.String())
		return
	}
	b, _ := os.ReadFile(out)
	counts := map[string]int{}
	for _, l := range strings.Split(string(b), "\n") {
		f := strings.Fields(l)
		if len(f) >= 5 {
			if n, err := strconv.Atoi(f[3]); err == nil {
				counts[f[len(f)-1]] = n
			}
		}
	}
	keys := make([]string, 0, len(counts))
	for k := range counts {
		keys = append(keys, k)
	}
	sort.Strings(keys)
	fired := 0
	for _, sc := range keys {
		maxN := counts[sc]
		if maxN > 60 {
			maxN = 60
		}
		for n := 1; n <= maxN; n++ {
			d := filepath.Join(w.Work, "scrash")
			_ = os.RemoveAll(d)
			copyDir(base, d)
			c10Link(d, tx.links)
			c10Stale(d, tx.stale)
			c10ReadOnly(d, tx.ro)
			c10HardLink(d, tx.hard)
			at := fmt.Sprintf("syscall:%s#%d", sc, n)
			p := run(d, []string{"GOMAXPROCS=1"}, []string{"strace", "-f", "-o", "/dev/null", "-e", "trace=" + sc, "-e", fmt.Sprintf("inject=%s:signal=SIGKILL:when=%d", sc, n)})
			if p.Signal != 9 && p.Code != 137 && p.Code != -1 {
				continue // the n-th call of this thread did not happen
			}
			fired++
			judge(d, at)
			w.Case(core.Digest(txDigest, at), true)
		}
	}
	w.Count("syscall_crash_runs", int64(fired))
	// the rename of the temp file over the table is refused (EPERM: a sticky directory owned by somebody else, a bind
	// mount): COMMIT may fail, but whatever csvq does instead is subject to the same rule — killed at its n-th write
	maxW := counts["write"]
	if maxW > 40 {
		maxW = 40
	}
	refused := 0
	for n := 0; n <= maxW; n++ {
		d := filepath.Join(w.Work, "rcrash")
		_ = os.RemoveAll(d)
		copyDir(base, d)
		c10Link(d, tx.links)
		c10Stale(d, tx.stale)
		c10ReadOnly(d, tx.ro)
		c10HardLink(d, tx.hard)
		pre := []string{"strace", "-f", "-o", "/dev/null", "-e", "trace=rename,renameat,renameat2,write", "-e", "inject=rename,renameat,renameat2:error=EPERM"}
		at := "rename-refused"
		if n > 0 {
			pre = append(pre, "-e", fmt.Sprintf("inject=write:signal=SIGKILL:when=%d", n))
			at = fmt.Sprintf("syscall:write-after-refused-rename#%d", n)
		}
		p := run(d, []string{"GOMAXPROCS=1"}, pre)
		if n > 0 && p.Signal != 9 && p.Code != 137 && p.Code != -1 {
			continue
		}
		refused++
		judge(d, at)
		w.Case(core.Digest(txDigest, at), true)
	}
	w.Count("runs_with_the_rename_refused", int64(refused))
	// a write of the commit fails (ENOSPC: the disk is full, a quota or a file-size limit is hit): the process survives and
	// may report the failure or not — either way every table holds its complete old or its complete new contents, and a
	// run that reports success must have written the new ones
	failed := 0
	for n := 1; n <= maxW; n++ {
		d := filepath.Join(w.Work, "wcrash")
		_ = os.RemoveAll(d)
		copyDir(base, d)
		c10Link(d, tx.links)
		c10Stale(d, tx.stale)
		c10ReadOnly(d, tx.ro)
		c10HardLink(d, tx.hard)
		p := run(d, []string{"GOMAXPROCS=1"}, []string{"strace", "-f", "-o", "/dev/null", "-e", "trace=write", "-e", fmt.Sprintf("inject=write:error=ENOSPC:when=%d", n)})
		if p.Code == 0 && !strings.Contains(p.Stderr, "no space left") {
			// the failing write was not one of the commit's (or did not happen in this thread): judged all the same
			w.Count("write_error_runs_that_still_succeeded", 1)
		}
		failed++
		judge(d, fmt.Sprintf("syscall:write-error#%d", n))
		w.Case(core.Digest(txDigest, fmt.Sprintf("write-error#%d", n)), true)
	}
	w.Count("runs_with_a_failing_write", int64(failed))
}

// c10Unencodable: the new contents of one table of the transaction cannot be written in the table's format (a column
// name that is no JSON path, a line break for a fixed-length file, a TAB or a colon for LTSV, nothing at all for a file
// without a header line). No new contents exist then, so the only admissible contents — at the normal end and at every
// point the process can die at — are the complete previous ones, for that table and for the ordinary table updated in the
// same transaction before or after it. (A csvq that reports success instead must have written something a fresh process
// reads back with the record count the session saw.)
func c10Unencodable(w *core.Worker, i int) {
	files := map[string]string{
		"a.csv":   "id,c1,c2\n1,a,b\n2,c,d\n3,e,f\n",
		"t.jsonl": "{\"id\":1,\"c1\":\"a\",\"c2\":\"b\"}\n{\"id\":2,\"c1\":\"c\",\"c2\":\"d\"}\n",
		"t.json":  "[{\"id\":1,\"c1\":\"a\",\"c2\":\"b\"},{\"id\":2,\"c1\":\"c\",\"c2\":\"d\"}]",
		"t.csv":   "id,c1,c2\n1,a,b\n2,c,d\n",
		"t.ltsv":  "id:1\tc1:a\tc2:b\nid:2\tc1:c\tc2:d\n",
	}
	type tpl struct{ table, stmts string }
	tpls := []tpl{
		{"t.jsonl", "ALTER TABLE `t.jsonl` RENAME c1 TO `na..me`; UPDATE `t.jsonl` SET id = id + 10;"},
		{"t.json", "ALTER TABLE `t.json` RENAME c1 TO `na..me`; UPDATE `t.json` SET id = id + 10;"},
		{"t.csv", "ALTER TABLE `t.csv` SET FORMAT TO FIXED; UPDATE `t.csv` SET c1 = 'a\\nb' WHERE id = 1;"},
		{"t.ltsv", "ALTER TABLE `t.ltsv` RENAME c1 TO `a:b`; UPDATE `t.ltsv` SET id = id + 10;"},
		{"t.csv", "ALTER TABLE `t.csv` SET HEADER TO FALSE; DELETE FROM `t.csv`;"},
		{"t.csv", "ALTER TABLE `t.csv` SET FORMAT TO LTSV; UPDATE `t.csv` SET c1 = 'a\\tb' WHERE id = 1;"},
		{"t.jsonl", "INSERT INTO `t.jsonl` VALUES (3, 'x', 'y'); ALTER TABLE `t.jsonl` RENAME c2 TO `[`;"},
	}
	tp := tpls[i%len(tpls)]
	other := "UPDATE `a.csv` SET c2 = 'changed' WHERE id = 2;"
	prog := other + "\n" + tp.stmts
	if (i/len(tpls))%2 == 1 {
		prog = tp.stmts + "\n" + other
	}
	prog += "\nSELECT COUNT(*) AS n FROM `" + tp.table + "`;"
	base := core.FreshDir(w.Work, "ubase")
	core.WriteFiles(base, files)
	run := func(dir string, env []string) core.ProcResult {
		return core.RunProc(core.ProcOpts{Dir: dir, Args: csvqArgs("-q", "-f", "CSV", "-N", "--wait-timeout", "1", prog), Env: env, Timeout: 60 * time.Second})
	}
	judge := func(dir, at string, res core.ProcResult) {
		for _, name := range []string{"a.csv", tp.table} {
			b, _ := os.ReadFile(filepath.Join(dir, name))
			if string(b) != files[name] {
				w.Violation("table-mixed@unencodable", fmt.Sprintf("the transaction cannot be written (%s), yet after %s table %s holds %d bytes %q instead of its previous contents (%d bytes)", truncateStr(res.Stderr, 120), at, name, len(b), truncateStr(string(b), 80), len(files[name])),
					c10Replay{Files: files, Program: prog, CrashAt: at})
			}
		}
	}
	d := filepath.Join(w.Work, "urun")
	_ = os.RemoveAll(d)
	copyDir(base, d)
	tracePath := filepath.Join(w.Work, "utrace.log")
	_ = os.Remove(tracePath)
	res := run(d, []string{"VERIF_TRACE=" + tracePath})
	if strings.Contains(res.Stderr, "Fatal Error") || strings.Contains(res.Stderr, "panic:") {
		w.Violation("clean-run-internal-failure", fmt.Sprintf("the transaction failed internally: %s", res), c10Replay{Files: files, Program: prog})
		return
	}
	if res.Code == 0 {
		// csvq found a way to write it: a fresh process must read back what the session saw
		want := strings.TrimSpace(res.Stdout)
		chk := core.RunProc(core.ProcOpts{Dir: d, Args: csvqArgs("-q", "-f", "CSV", "-N", "SELECT COUNT(*) FROM `"+tp.table+"`;"), Timeout: 60 * time.Second})
		if got := strings.TrimSpace(chk.Stdout); chk.Code != 0 || got != want {
			w.Violation("table-mixed@unencodable", fmt.Sprintf("csvq reported the transaction as committed; the session counted %s records in %s, a fresh process reads %q (exit %d %s)", want, tp.table, got, chk.Code, truncateStr(chk.Stderr, 120)),
				c10Replay{Files: files, Program: prog, CrashAt: "normal end"})
		}
		w.Count("unencodable_transactions_csvq_wrote_anyway", 1)
		w.Case(core.Digest("unenc", prog), true)
		return
	}
	judge(d, "the normal end", res)
	w.Count("transactions_whose_new_contents_cannot_be_written", 1)
	w.Case(core.Digest("unenc", prog), strings.Contains(res.Stderr, "failed to commit"))
	started := false
	for _, e := range core.ReadTrace(tracePath) {
		if e.Point == "txcommit.begin#1" {
			started = true
		}
		if !started || strings.HasPrefix(e.Name, "worker.") {
			continue
		}
		cd := filepath.Join(w.Work, "ucrash")
		_ = os.RemoveAll(cd)
		copyDir(base, cd)
		p := run(cd, []string{"VERIF_CRASH_AT=" + e.Point})
		if p.Signal != 9 {
			continue
		}
		judge(cd, "dying at "+e.Point, res)
		w.Count("crash_runs_of_unwritable_transactions", 1)
		w.Case(core.Digest("unenc", prog, e.Point), true)
	}
}
