package main

import (
	"fmt"
	"math"
	"sort"
	"strconv"
	"strings"
	"time"

	"verif/internal/core"
)

func init() {
	core.Register(&core.Spec{
		ID: "C17", Level: "exploration",
		Rule: "one case = one generated table (unique id, partition key p and order key o with ties and NULLs, value v with NULLs; sizes 0..30 and, every 8th case, 200..900 rows over many partitions with --cpu 2..8) and ~12 analytic expressions: ROW_NUMBER, RANK, DENSE_RANK, CUME_DIST, PERCENT_RANK, NTILE(n), LAG/LEAD(v, offset, default) [IGNORE NULLS], FIRST/LAST/NTH_VALUE [IGNORE NULLS], COUNT/SUM/AVG/MIN/MAX/LISTAGG and a user-defined aggregate with OVER, each with a random PARTITION BY / ORDER BY (ASC/DESC, NULLS FIRST/LAST) and, where allowed, a random ROWS frame. " +
			"Oracle: an independent evaluator partitions, orders and applies each definition to each row's frame; the other columns and the row count must be unchanged. Order-dependent functions are evaluated on key lists made total with id; tie-invariant ones with ties present. non-trivial = at least 8 expressions judged on a table with >= 3 rows; distinct = table digest + expressions.",
		Quick: 300, Thorough: 36000, FloorQuick: 200, FloorThorough: 24000,
		Assumptions: []string{"the frame of an analytic clause that has ORDER BY but no windowing clause is not defined by the manual: such clauses are generated only for the functions that do not take a windowing clause (ranking, LAG/LEAD)",
			"NTILE follows the usual rule (the first n mod k groups get one more row)"},
		Setup: func(w *core.Worker) { core.HermeticProcess(w.Work) },
		Fn:    c17Case,
	})
}

type c17Row struct {
	id      int
	p, o, v *int
}

type c17Clause struct {
	part     bool
	order    bool
	desc     bool
	nullsF   bool
	total    bool // ", id" appended
	frame    string
	lo, hi   int // frame offsets relative to the current row; math.MinInt / MaxInt = unbounded
	hasFrame bool
	sql      string
}

func genClause(r *core.Rng, needOrder, total, allowFrame bool) c17Clause {
	c := c17Clause{part: r.P(75), order: needOrder || r.P(60), total: total}
	var parts []string
	if c.part {
		parts = append(parts, "PARTITION BY p")
	}
	if c.order {
		o := "ORDER BY o"
		c.nullsF = true
		switch r.Intn(3) {
		case 1:
			c.desc = true
			c.nullsF = false
			o += " DESC"
		case 2:
			o += " ASC"
		}
		switch r.Intn(3) {
		case 1:
			c.nullsF = true
			o += " NULLS FIRST"
		case 2:
			c.nullsF = false
			o += " NULLS LAST"
		}
		if total {
			o += ", id"
		}
		parts = append(parts, o)
		if allowFrame {
			c.hasFrame = true
			// (offsets far beyond any partition — up to the largest integer — bound the frame like UNBOUNDED does)
			lows := []int{math.MinInt, -2, -1, 0, 1, -(math.MaxInt - 1), -(1 << 40), math.MaxInt - 1}
			highs := []int{math.MaxInt, -1, 0, 1, 2, math.MaxInt - 1, 1 << 40, -(math.MaxInt - 1)}
			for {
				c.lo, c.hi = lows[r.Intn(len(lows))], highs[r.Intn(len(highs))]
				if c.lo <= c.hi {
					break
				}
			}
			name := func(x int, low bool) string {
				switch {
				case x == math.MinInt:
					return "UNBOUNDED PRECEDING"
				case x == math.MaxInt:
					return "UNBOUNDED FOLLOWING"
				case x < 0:
					return fmt.Sprintf("%d PRECEDING", -x)
				case x > 0:
					return fmt.Sprintf("%d FOLLOWING", x)
				}
				return "CURRENT ROW"
			}
			if c.hi == 0 && c.lo <= 0 && r.Bool() {
				c.frame = "ROWS " + name(c.lo, true)
			} else {
				c.frame = "ROWS BETWEEN " + name(c.lo, true) + " AND " + name(c.hi, false)
			}
			parts = append(parts, c.frame)
		}
	}
	if !c.hasFrame {
		c.lo, c.hi = math.MinInt, math.MaxInt
	}
	c.sql = strings.Join(parts, " ")
	return c
}

func cmpIntPtr(a, b *int) int {
	switch {
	case *a < *b:
		return -1
	case *a > *b:
		return 1
	}
	return 0
}

// orderCmp compares two rows under the clause's ORDER BY (ignoring the id tiebreak): <0, 0, >0
func (c c17Clause) orderCmp(a, b c17Row) int {
	if !c.order {
		return 0
	}
	if a.o == nil || b.o == nil {
		if a.o == nil && b.o == nil {
			return 0
		}
		if (a.o == nil) == c.nullsF {
			return -1
		}
		return 1
	}
	x := cmpIntPtr(a.o, b.o)
	if c.desc {
		return -x
	}
	return x
}

func (c c17Clause) partitions(rows []c17Row) [][]c17Row {
	groups := map[string][]c17Row{}
	var keys []string
	for _, r := range rows {
		k := "all"
		if c.part {
			k = "null"
			if r.p != nil {
				k = strconv.Itoa(*r.p)
			}
		}
		if _, ok := groups[k]; !ok {
			keys = append(keys, k)
		}
		groups[k] = append(groups[k], r)
	}
	var out [][]c17Row
	for _, k := range keys {
		g := groups[k]
		sort.SliceStable(g, func(i, j int) bool {
			if x := c.orderCmp(g[i], g[j]); x != 0 {
				return x < 0
			}
			if c.total {
				return g[i].id < g[j].id
			}
			return false
		})
		out = append(out, g)
	}
	return out
}

type c17Expr struct {
	sql      string
	clause   c17Clause
	eval     func(part []c17Row, i int, frame []c17Row) string // expected value as "T:text"
	float    bool
	needSame bool // tie-invariant: judged although ties are present
}

func iv(p *int) string {
	if p == nil {
		return "N:"
	}
	return "S:" + strconv.Itoa(*p)
}

func nonNull(fr []c17Row) []int {
	var o []int
	for _, r := range fr {
		if r.v != nil {
			o = append(o, *r.v)
		}
	}
	return o
}

func fl(f float64) string { return "F:" + core.FloatText(f) }

func genC17Expr(r *core.Rng) c17Expr {
	switch r.Intn(16) {
	case 0:
		c := genClause(r, true, true, false)
		return c17Expr{sql: "ROW_NUMBER() OVER (" + c.sql + ")", clause: c, eval: func(p []c17Row, i int, _ []c17Row) string { return "I:" + strconv.Itoa(i+1) }}
	case 1, 2, 3, 4:
		c := genClause(r, true, false, false)
		fn := []string{"RANK", "DENSE_RANK", "CUME_DIST", "PERCENT_RANK"}[r.Intn(4)]
		return c17Expr{sql: fn + "() OVER (" + c.sql + ")", clause: c, needSame: true, float: fn == "CUME_DIST" || fn == "PERCENT_RANK", eval: func(p []c17Row, i int, _ []c17Row) string {
			less, leq := 0, 0
			distinct := map[string]bool{}
			for _, x := range p {
				cm := c.orderCmp(x, p[i])
				if cm < 0 {
					less++
					distinct[iv(x.o)] = true
				}
				if cm <= 0 {
					leq++
				}
			}
			switch fn {
			case "RANK":
				return "I:" + strconv.Itoa(less+1)
			case "DENSE_RANK":
				return "I:" + strconv.Itoa(len(distinct)+1)
			case "CUME_DIST":
				return fl(float64(leq) / float64(len(p)))
			}
			if len(p) == 1 {
				return "U:" // (rank-1)/(n-1) is undefined for a single row; the manual gives no value
			}
			return fl(float64(less) / float64(len(p)-1))
		}}
	case 5:
		c := genClause(r, true, true, false)
		k := r.Range(1, 5)
		return c17Expr{sql: fmt.Sprintf("NTILE(%d) OVER (%s)", k, c.sql), clause: c, eval: func(p []c17Row, i int, _ []c17Row) string {
			n := len(p)
			base, extra := n/k, n%k
			pos := 0
			for g := 1; g <= k; g++ {
				size := base
				if g <= extra {
					size++
				}
				if i < pos+size {
					return "I:" + strconv.Itoa(g)
				}
				pos += size
			}
			return "I:?"
		}}
	case 6, 7:
		c := genClause(r, true, true, false)
		fn := []string{"LAG", "LEAD"}[r.Intn(2)]
		off := r.Range(0, 3)
		ign := r.P(35)
		def := r.P(50)
		args := "v"
		switch r.Intn(3) {
		case 1:
			args = fmt.Sprintf("v, %d", off)
		case 2:
			if def {
				args = fmt.Sprintf("v, %d, -99", off)
			} else {
				args = fmt.Sprintf("v, %d", off)
			}
		default:
			off = 1
		}
		if ign {
			// with IGNORE NULLS the manual does not say whether the offset counts the skipped rows: only offset 1 is judged
			off = 1
			args = "v"
			if def {
				args = "v, 1, -99"
			}
		}
		hasDef := strings.Count(args, ",") == 2
		sql := fn + "(" + args + ")"
		if ign {
			sql += " IGNORE NULLS"
		}
		return c17Expr{sql: sql + " OVER (" + c.sql + ")", clause: c, eval: func(p []c17Row, i int, _ []c17Row) string {
			dir := -1
			if fn == "LEAD" {
				dir = 1
			}
			j, left := i, off
			if !ign {
				j = i + dir*off
				if j >= 0 && j < len(p) {
					return iv(p[j].v)
				}
			} else {
				if off == 0 {
					// offset 0 addresses the current row itself
					if p[i].v != nil {
						return iv(p[i].v)
					}
				}
				for j = i + dir; j >= 0 && j < len(p); j += dir {
					if p[j].v != nil {
						left--
						if left <= 0 {
							return iv(p[j].v)
						}
					}
				}
			}
			if hasDef {
				return "I:-99"
			}
			return "N:"
		}}
	case 11:
		c := genClause(r, false, false, false)
		c.order = false
		c.sql = ""
		if c.part {
			c.sql = "PARTITION BY p"
		}
		c.lo, c.hi = math.MinInt, math.MaxInt
		return c17Expr{sql: "pick(v, id) OVER (" + c.sql + ")", clause: c, needSame: true, eval: func(p []c17Row, i int, fr []c17Row) string {
			return "I:" + strconv.Itoa(p[i].id*1000+len(fr))
		}}
	case 8, 9, 10:
		c := genClause(r, true, true, true)
		fn := []string{"FIRST_VALUE", "LAST_VALUE", "NTH_VALUE"}[r.Intn(3)]
		ign := r.P(40)
		nth := r.Range(1, 3)
		sql := fn + "(v)"
		if fn == "NTH_VALUE" {
			sql = fmt.Sprintf("NTH_VALUE(v, %d)", nth)
		}
		if ign {
			sql += " IGNORE NULLS"
		}
		return c17Expr{sql: sql + " OVER (" + c.sql + ")", clause: c, eval: func(_ []c17Row, _ int, fr []c17Row) string {
			var vals []*int
			for _, x := range fr {
				if ign && x.v == nil {
					continue
				}
				vals = append(vals, x.v)
			}
			if len(vals) == 0 {
				return "N:"
			}
			switch fn {
			case "FIRST_VALUE":
				return iv(vals[0])
			case "LAST_VALUE":
				return iv(vals[len(vals)-1])
			}
			if nth > len(vals) {
				return "N:"
			}
			return iv(vals[nth-1])
		}}
	default:
		withOrder := r.P(60)
		fn := []string{"COUNT", "SUM", "AVG", "MIN", "MAX", "LISTAGG", "usum", "COUNT*"}[r.Intn(8)]
		if fn == "LISTAGG" {
			withOrder = false // LISTAGG takes no windowing clause, and without one the frame of an ordered clause is not defined
		}
		c := genClause(r, withOrder, true, withOrder)
		if !withOrder {
			c = genClause(r, false, false, false)
			c.order = false
			parts := []string{}
			if c.part {
				parts = append(parts, "PARTITION BY p")
			}
			c.sql = strings.Join(parts, " ")
			c.lo, c.hi = math.MinInt, math.MaxInt
		}
		sql := fn + "(v)"
		// DISTINCT inside the function: the values of the row's own frame, each once
		dist := r.P(30) && fn != "LISTAGG" && fn != "COUNT*"
		if dist {
			sql = fn + "(DISTINCT v)"
		}
		switch fn {
		case "LISTAGG":
			sql = "LISTAGG(v, ',')"
		case "COUNT*":
			if withOrder {
				fn, sql = "COUNT", "COUNT(v)"
			} else {
				sql = "COUNT(*)"
			}
		}
		return c17Expr{sql: sql + " OVER (" + c.sql + ")", clause: c, float: fn == "SUM" || fn == "AVG" || fn == "usum", needSame: !withOrder, eval: func(_ []c17Row, _ int, fr []c17Row) string {
			nn := nonNull(fr)
			if dist {
				seen := map[int]bool{}
				var u []int
				for _, x := range nn {
					if !seen[x] {
						seen[x] = true
						u = append(u, x)
					}
				}
				nn = u
			}
			sum := 0
			for _, x := range nn {
				sum += x
			}
			switch fn {
			case "COUNT*":
				return "I:" + strconv.Itoa(len(fr))
			case "COUNT":
				return "I:" + strconv.Itoa(len(nn))
			case "usum":
				return fl(float64(sum))
			}
			if len(nn) == 0 {
				return "N:"
			}
			switch fn {
			case "SUM":
				return fl(float64(sum))
			case "AVG":
				return fl(float64(sum) / float64(len(nn)))
			case "MIN", "MAX":
				m := nn[0]
				for _, x := range nn {
					if (fn == "MIN" && x < m) || (fn == "MAX" && x > m) {
						m = x
					}
				}
				return "S:" + strconv.Itoa(m)
			}
			var ss []string
			for _, x := range nn {
				ss = append(ss, strconv.Itoa(x))
			}
			if !withOrder {
				sort.Strings(ss) // no order defined inside the partition: compared as a multiset
			}
			return "L:" + strings.Join(ss, ",")
		}}
	}
}

type c17Replay struct {
	Table string `json:"table_csv"`
	Query string `json:"query"`
	CPU   int    `json:"cpu"`
}

// c17SessionFormat: the ordering and partitioning column of the OVER clause holds datetimes written in a format only the session
// knows (SET @@DATETIME_FORMAT, here a format that begins with the month's name): they are ordered and grouped as the instants
// they denote, not as texts.
func c17SessionFormat(w *core.Worker, i int) {
	r := w.Rng(i, "session-format")
	n := r.Range(4, 40)
	type rw struct {
		id int
		ts time.Time
		g  int
	}
	var rows []rw
	var sb strings.Builder
	sb.WriteString("id,ts,g\n")
	for k := 1; k <= n; k++ {
		t := time.Date(2020+r.Intn(2), time.Month(1+r.Intn(12)), 1+r.Intn(28), 0, 0, 0, 0, time.UTC)
		rows = append(rows, rw{k, t, r.Intn(3)})
		fmt.Fprintf(&sb, "%d,%s,%d\n", k, t.Format("Jan 2 2006"), rows[k-1].g)
	}
	core.WriteFiles(w.Work, map[string]string{"sf.csv": sb.String()})
	s, err := core.NewSess(core.SessOpts{Dir: w.Work, Quiet: true})
	if err != nil {
		w.Inconclusive(err.Error())
		return
	}
	defer s.Close()
	s.Exec("SET @@DATETIME_FORMAT TO '%b %e %Y';")
	q := "SELECT id, RANK() OVER (ORDER BY ts) AS rk, ROW_NUMBER() OVER (PARTITION BY g ORDER BY ts DESC, id) AS rn, COUNT(*) OVER (PARTITION BY ts) AS same, LAG(id) OVER (ORDER BY ts, id) AS prev FROM sf"
	res := s.Exec(q + ";")
	if res.Err != nil || len(res.Views) != 1 || len(res.Views[0].Rows) != n {
		w.Violation("session-format:query-error", fmt.Sprintf("%s: %v", q, res.Err), c17Replay{Table: sb.String(), Query: q})
		return
	}
	byTs := append([]rw{}, rows...)
	sort.SliceStable(byTs, func(a, b int) bool {
		if !byTs[a].ts.Equal(byTs[b].ts) {
			return byTs[a].ts.Before(byTs[b].ts)
		}
		return byTs[a].id < byTs[b].id
	})
	prev := map[int]string{}
	for k, x := range byTs {
		prev[x.id] = "N:"
		if k > 0 {
			prev[x.id] = "S:" + strconv.Itoa(byTs[k-1].id)
		}
	}
	for _, row := range res.Views[0].Rows {
		id, _ := strconv.Atoi(row[0].S)
		me := rows[id-1]
		rk, rn, same := 1, 1, 0
		for _, o := range rows {
			if o.ts.Before(me.ts) {
				rk++
			}
			if o.ts.Equal(me.ts) {
				same++
			}
			if o.g == me.g && (o.ts.After(me.ts) || (o.ts.Equal(me.ts) && o.id < me.id)) {
				rn++
			}
		}
		if row[1].S != strconv.Itoa(rk) || row[2].S != strconv.Itoa(rn) || row[3].S != strconv.Itoa(same) || (row[4].String() != prev[id] && strings.TrimPrefix(row[4].String(), "I:") != strings.TrimPrefix(prev[id], "S:")) {
			w.Violation("value:session-datetime-format", fmt.Sprintf("%s under DATETIME_FORMAT '%%b %%e %%Y': row id %d (%s, g=%d) has RANK %s, ROW_NUMBER %s, COUNT OVER (PARTITION BY ts) %s, LAG(id) %v; by instants: %d, %d, %d, %s", q, id, me.ts.Format("Jan 2 2006"), me.g, row[1].S, row[2].S, row[3].S, row[4], rk, rn, same, prev[id]), c17Replay{Table: sb.String(), Query: q})
			return
		}
	}
	w.Count("tables_ordered_by_datetimes_in_a_format_of_the_session", 1)
}

func c17Case(w *core.Worker, i int) {
	if i%10 == 4 {
		c17SessionFormat(w, i)
	}
	r := w.Rng(i, "")
	big := i%8 == 7
	n := pickSize(r, big)
	if big {
		n = []int{200, 320, 500, 900}[r.Intn(4)]
	}
	cpu := 1
	if big {
		cpu = r.Range(2, 8)
	}
	pvals := []string{"1", "2", "3"}
	if big {
		pvals = nil
		for k := 0; k < 60; k++ {
			pvals = append(pvals, strconv.Itoa(k))
		}
	}
	t := genTable(r, "t", n, []colProfile{{Kind: "ints", Vals: pvals, NullPct: 10}, {Kind: "ints", Vals: []string{"1", "2", "3", "4", "5"}, NullPct: 15}, {Kind: "ints", Vals: []string{"0", "1", "2", "5", "7", "-3", "10"}, NullPct: 25}}, []string{"p", "o", "v"})
	var rows []c17Row
	pi := func(c *string) *int {
		if c == nil {
			return nil
		}
		x, _ := strconv.Atoi(*c)
		return &x
	}
	for k, row := range t.Rows {
		rows = append(rows, c17Row{id: k + 1, p: pi(row[1]), o: pi(row[2]), v: pi(row[3])})
	}
	// the same numbers in several spellings (integer and float typed) in the ordering column: peers are decided by value
	// (not in the partitioning column: whether 2 and 2.0 share a bucket is left open by the manual, see C04)
	if i%3 == 1 {
		for _, row := range t.Rows {
			for _, j := range []int{2} {
				if row[j] != nil && r.P(35) {
					row[j] = core.Sp(*row[j] + []string{".0", ".00", "e0"}[r.Intn(3)])
				}
			}
		}
		w.Count("cases_with_mixed_number_spellings", 1)
	}
	core.WriteFiles(w.Work, map[string]string{"t.csv": t.CSV()})
	s, err := core.NewSess(core.SessOpts{Dir: w.Work, CPU: cpu})
	if err != nil {
		w.Inconclusive(err.Error())
		return
	}
	defer s.Close()
	s.Exec("DECLARE usum AGGREGATE (c) AS BEGIN VAR @s := 0; VAR @x; WHILE @x IN c DO IF @x IS NOT NULL THEN @s := @s + @x; END IF; END WHILE; RETURN @s; END;")
	// a user aggregate with a scalar parameter: every invocation (one per row, on several goroutines) must see its own argument
	s.Exec("DECLARE pick AGGREGATE (c, @k) AS BEGIN VAR @n := 0; VAR @x; WHILE @x IN c DO @n := @n + 1; END WHILE; RETURN @k * 1000 + @n; END;")
	judged := 0
	var exprs []string
	if n > 0 {
		// analytic functions nested in analytic functions, two of them side by side (the inner ones are evaluated first,
		// whatever order the select list is walked in): executed three times
		nq := "SELECT id, SUM(ROW_NUMBER() OVER (ORDER BY id)) OVER () AS a, MAX(RANK() OVER (ORDER BY id DESC)) OVER () AS b, COUNT(*) OVER () + MIN(DENSE_RANK() OVER (ORDER BY id)) OVER () AS c FROM t"
		for rep := 0; rep < 3; rep++ {
			res := s.Exec(nq)
			if res.Err != nil || len(res.Views) != 1 || len(res.Views[0].Rows) != n {
				w.Violation("nested:query-error", fmt.Sprintf("%s [%d rows, run %d]: %v", nq, n, rep+1, res.Err), c17Replay{Table: t.CSV(), Query: nq, CPU: cpu})
				break
			}
			for _, row := range res.Views[0].Rows {
				if row[1].S != strconv.Itoa(n*(n+1)/2) || row[2].S != strconv.Itoa(n) || row[3].S != strconv.Itoa(n+1) {
					w.Violation("nested:value", fmt.Sprintf("%s [%d rows]: row %v, expected a = %d, b = %d, c = %d", nq, n, valsToStrs(row), n*(n+1)/2, n, n+1), c17Replay{Table: t.CSV(), Query: nq, CPU: cpu})
					break
				}
			}
			w.Count("nested_analytic_queries_judged", 1)
		}
		// two functions that differ only in the letter case of a literal argument are two functions
		lq := "SELECT id, LISTAGG(id, 'x') OVER () AS l1, LISTAGG(id, 'X') OVER () AS l2, LAG(v, 1, 'none') OVER (ORDER BY id) AS g1, LAG(v, 1, 'NONE') OVER (ORDER BY id) AS g2 FROM t ORDER BY id LIMIT 1"
		if res := s.Exec(lq); res.Err == nil && len(res.Views) == 1 && len(res.Views[0].Rows) == 1 {
			row := res.Views[0].Rows[0]
			if (n > 1 && (strings.Contains(row[1].S, "X") || strings.Contains(row[2].S, "x"))) || row[3].S != "none" || row[4].S != "NONE" {
				w.Violation("value:functions-differing-in-the-case-of-a-literal-share-one-result", fmt.Sprintf("%s [%d rows]: %v", lq, n, valsToStrs(row)), c17Replay{Table: t.CSV(), Query: lq, CPU: cpu})
			}
		}
	}
	for q := 0; q < 6; q++ {
		e1, e2 := genC17Expr(r), genC17Expr(r)
		sql := fmt.Sprintf("SELECT id, p, o, v, %s AS f1, %s AS f2 FROM t", e1.sql, e2.sql)
		exprs = append(exprs, e1.sql, e2.sql)
		res := s.Exec(sql)
		viol := func(sig, what string) {
			w.Violation(sig, fmt.Sprintf("%s [%d rows, cpu %d]: %s", sql, n, cpu, what), c17Replay{Table: t.CSV(), Query: sql, CPU: cpu})
		}
		if res.Err != nil || len(res.Views) != 1 {
			viol("query-error", fmt.Sprint(res.Err))
			continue
		}
		v := res.Views[0]
		if len(v.Rows) != n {
			viol("row-count", fmt.Sprintf("%d rows returned, the table has %d", len(v.Rows), n))
			continue
		}
		got := map[int][]core.Val{}
		for _, row := range v.Rows {
			id, _ := strconv.Atoi(row[0].S)
			got[id] = row
		}
		if len(got) != n {
			viol("rows-duplicated", "ids are not unique in the result")
			continue
		}
		bad := false
		for k, row := range t.Rows {
			g := got[k+1]
			for c := 1; c <= 3; c++ {
				want := "N:"
				if row[c] != nil {
					want = "S:" + *row[c]
				}
				if g[c].String() != want {
					viol("other-column-changed", fmt.Sprintf("row id %d column %s is %v, the table holds %s", k+1, t.Cols[c], g[c], want))
					bad = true
				}
			}
			if bad {
				break
			}
		}
		for ei, e := range []c17Expr{e1, e2} {
			parts := e.clause.partitions(rows)
			mism := ""
			for _, p := range parts {
				for idx := range p {
					lo, hi := 0, len(p)-1
					// (the bounds are positions on the unbounded integer line: far offsets must not wrap around)
					farAdd := func(i, off int) int {
						switch {
						case off > 1<<30:
							return 1 << 30
						case off < -(1 << 30):
							return -(1 << 30)
						}
						return i + off
					}
					if e.clause.lo != math.MinInt {
						lo = farAdd(idx, e.clause.lo)
					}
					if e.clause.hi != math.MaxInt {
						hi = farAdd(idx, e.clause.hi)
					}
					if lo < 0 {
						lo = 0
					}
					if hi > len(p)-1 {
						hi = len(p) - 1
					}
					var frame []c17Row
					if lo <= hi {
						frame = p[lo : hi+1]
					}
					want := e.eval(p, idx, frame)
					g := got[p[idx].id][4+ei]
					if !c17Equal(g, want) {
						mism = fmt.Sprintf("row id %d (p=%s o=%s v=%s): %s = %v, the definition gives %s", p[idx].id, iv(p[idx].p), iv(p[idx].o), iv(p[idx].v), e.sql, g, want)
						break
					}
				}
				if mism != "" {
					break
				}
			}
			judged++
			if mism != "" {
				viol("value:"+strings.SplitN(e.sql, "(", 2)[0]+c17FrameSig(e.clause), mism)
			}
		}
	}
	if i < 30 {
		w.Sample(map[string]interface{}{"table": t.Dump(5), "expressions": exprs, "cpu": cpu})
	}
	w.Count("expressions_judged", int64(judged))
	if big {
		w.Count("cases_parallel_path", 1)
	}
	w.Case(core.Digest(append([]string{t.CSV()}, exprs...)...), judged >= 8 && n >= 3)
}

func c17FrameSig(c c17Clause) string {
	if !c.hasFrame {
		return ""
	}
	return "+frame"
}

func c17Equal(g core.Val, want string) bool {
	k, txt := want[0], want[2:]
	switch k {
	case 'U':
		return true
	case 'N':
		return g.T == 'N'
	case 'I':
		if g.T != 'I' && g.T != 'F' && g.T != 'S' {
			return false
		}
		a, err1 := strconv.ParseFloat(g.S, 64)
		b, err2 := strconv.ParseFloat(txt, 64)
		return err1 == nil && err2 == nil && a == b
	case 'F':
		a, err1 := strconv.ParseFloat(g.S, 64)
		b, err2 := strconv.ParseFloat(txt, 64)
		return g.T != 'N' && err1 == nil && err2 == nil && math.Abs(a-b) <= 1e-9*math.Max(1, math.Abs(b))
	case 'S':
		if g.T == 'N' {
			return false
		}
		a, err1 := strconv.ParseFloat(g.S, 64)
		b, err2 := strconv.ParseFloat(txt, 64)
		return g.S == txt || (err1 == nil && err2 == nil && a == b)
	case 'L':
		if g.T == 'N' {
			return txt == ""
		}
		if strings.Contains(want, "L:") {
			a := strings.Split(g.S, ",")
			b := strings.Split(txt, ",")
			if len(a) != len(b) {
				return false
			}
			if strings.Join(a, ",") == strings.Join(b, ",") {
				return true
			}
			sort.Strings(a)
			bs := append([]string{}, b...)
			sort.Strings(bs)
			// unordered comparison is only legitimate when the expectation was itself sorted (no ORDER BY)
			return strings.Join(b, ",") == strings.Join(bs, ",") && strings.Join(a, ",") == strings.Join(bs, ",")
		}
	}
	return false
}
