package main

// Reference value model written from the manual (docs/_posts/*value*,
// *comparison-operators*, *arithmetic-operators*, *logic-operators*); it does
// not import csvq.

import (
	"math"
	"regexp"
	"strconv"
	"strings"
	"time"
)

type RV struct {
	K   byte // N I F S B T D
	I   int64
	F   float64
	S   string
	B   bool
	T   int8 // 1 TRUE, 0 UNKNOWN, -1 FALSE
	D   time.Time
	Odd bool // spelling whose conversion the manual does not pin down: never judged against the reference
}

func rvNull() RV            { return RV{K: 'N'} }
func rvInt(i int64) RV      { return RV{K: 'I', I: i} }
func rvFloat(f float64) RV  { return RV{K: 'F', F: f} }
func rvStr(s string) RV     { return RV{K: 'S', S: s} }
func rvBool(b bool) RV      { return RV{K: 'B', B: b} }
func rvTern(t int8) RV      { return RV{K: 'T', T: t} }
func rvTime(t time.Time) RV { return RV{K: 'D', D: t} }

var (
	reInt   = regexp.MustCompile(`^[+-]?[0-9]+$`)
	reFloat = regexp.MustCompile(`^[+-]?([0-9]+\.?[0-9]*|\.[0-9]+)([eE][+-]?[0-9]+)?$`)
)

func trimSp(s string) string { return strings.Trim(s, " \t\r\n") }

// asIntStrict: Integer, or String spelling a decimal integer (blank-trimmed).
func (v RV) asIntStrict() (int64, bool) {
	switch v.K {
	case 'I':
		return v.I, true
	case 'S':
		t := trimSp(v.S)
		if reInt.MatchString(t) {
			if i, err := strconv.ParseInt(t, 10, 64); err == nil {
				return i, true
			}
		}
	}
	return 0, false
}

func (v RV) asFloat() (float64, bool) {
	switch v.K {
	case 'I':
		return float64(v.I), true
	case 'F':
		return v.F, true
	case 'S':
		t := trimSp(v.S)
		switch t {
		case "Inf", "+Inf":
			return math.Inf(1), true
		case "-Inf":
			return math.Inf(-1), true
		case "NaN":
			return math.NaN(), true
		}
		if reFloat.MatchString(t) {
			if f, err := strconv.ParseFloat(t, 64); err == nil {
				return f, true
			}
		}
	}
	return 0, false
}

var dtLayouts = []string{
	"2006-01-02", "2006/01/02", "2006-1-2", "2006/1/2",
	"2006-01-02 15:04:05.999999999", "2006/01/02 15:04:05.999999999", "2006-1-2 15:04:05.999999999", "2006/1/2 15:04:05.999999999",
	"2006-01-02 15:04:05.999999999 -07:00", "2006-01-02 15:04:05.999999999 -0700",
	"2006-01-02T15:04:05.999999999", time.RFC3339Nano,
}

func (v RV) asTime() (time.Time, bool) {
	switch v.K {
	case 'D':
		return v.D, true
	case 'S':
		for _, l := range dtLayouts {
			if t, err := time.ParseInLocation(l, v.S, time.UTC); err == nil {
				return t, true
			}
		}
	}
	return time.Time{}, false
}

// asTern: the ternary value of a value (conversion table of the manual).
func (v RV) asTern() int8 {
	switch v.K {
	case 'T':
		return v.T
	case 'B':
		if v.B {
			return 1
		}
		return -1
	case 'I':
		if v.I == 1 {
			return 1
		}
		if v.I == 0 {
			return -1
		}
	case 'F':
		if v.F == 1 {
			return 1
		}
		if v.F == 0 {
			return -1
		}
	case 'S':
		switch trimSp(v.S) {
		case "1", "t", "true":
			return 1
		case "0", "f", "false":
			return -1
		}
	}
	return 0
}

func (v RV) asBool() (bool, bool) {
	t := v.asTern()
	if v.K == 'N' || v.K == 'D' || t == 0 {
		return false, false
	}
	return t == 1, true
}

func (v RV) numeric() bool {
	_, ok := v.asFloat()
	return ok
}

// cmpRes: -1 less, 0 equal, 1 greater, 2 not-equal-without-order, 3 unknown
const (
	cLess   = -1
	cEq     = 0
	cGt     = 1
	cNe     = 2
	cUnk    = 3
	cBoolEq = 4 // equal as booleans: = is TRUE, ordering operators are UNKNOWN
)

// refCompare applies the documented ladder. specified=false where the manual
// leaves the answer open (odd spellings, NaN, number against non-numeric text).
func refCompare(a, b RV) (res int, specified bool) {
	if a.Odd || b.Odd {
		return cUnk, false
	}
	if a.K == 'N' || b.K == 'N' {
		return cUnk, true
	}
	if x, ok := a.asIntStrict(); ok {
		if y, ok := b.asIntStrict(); ok {
			switch {
			case x < y:
				return cLess, true
			case x > y:
				return cGt, true
			}
			return cEq, true
		}
	}
	if x, ok := a.asFloat(); ok {
		if y, ok := b.asFloat(); ok {
			if math.IsNaN(x) || math.IsNaN(y) {
				return cNe, false
			}
			switch {
			case x < y:
				return cLess, true
			case x > y:
				return cGt, true
			}
			return cEq, true
		}
	}
	if x, ok := a.asTime(); ok {
		if y, ok := b.asTime(); ok {
			switch {
			case x.Before(y):
				return cLess, true
			case x.After(y):
				return cGt, true
			}
			return cEq, true
		}
	}
	if x, ok := a.asBool(); ok {
		if y, ok := b.asBool(); ok {
			if x == y {
				return cBoolEq, true
			}
			return cNe, true
		}
	}
	if a.K == 'S' && b.K == 'S' {
		x, y := strings.ToUpper(trimSp(a.S)), strings.ToUpper(trimSp(b.S))
		ascii := isASCII(x) && isASCII(y)
		switch {
		case x == y:
			return cEq, true
		case x < y:
			return cLess, ascii
		}
		return cGt, ascii
	}
	// the manual converts integers and floats "at last to string" while the
	// text comparison of a number with non-numeric text is not spelled out
	if (a.K == 'S' && (b.K == 'I' || b.K == 'F')) || (b.K == 'S' && (a.K == 'I' || a.K == 'F')) {
		return cUnk, false
	}
	return cUnk, true
}

func isASCII(s string) bool {
	for i := 0; i < len(s); i++ {
		if s[i] >= 0x80 {
			return false
		}
	}
	return true
}

// ternary results of the six operators from a comparison result
func opFromCmp(op string, c int) int8 {
	b2t := func(b bool) int8 {
		if b {
			return 1
		}
		return -1
	}
	if c == cUnk {
		return 0
	}
	switch op {
	case "=":
		return b2t(c == cEq || c == cBoolEq)
	case "<>":
		return b2t(c != cEq && c != cBoolEq)
	}
	if c == cNe || c == cBoolEq {
		return 0
	}
	switch op {
	case "<":
		return b2t(c == cLess)
	case "<=":
		return b2t(c != cGt)
	case ">":
		return b2t(c == cGt)
	case ">=":
		return b2t(c != cLess)
	}
	return 0
}

func tAnd(a, b int8) int8 {
	if a == -1 || b == -1 {
		return -1
	}
	if a == 0 || b == 0 {
		return 0
	}
	return 1
}
func tOr(a, b int8) int8 {
	if a == 1 || b == 1 {
		return 1
	}
	if a == 0 || b == 0 {
		return 0
	}
	return -1
}
func tNot(a int8) int8 { return -a }

func ternName(t int8) string {
	switch t {
	case 1:
		return "TRUE"
	case -1:
		return "FALSE"
	}
	return "UNKNOWN"
}

func ternOf(s string) int8 {
	switch s {
	case "TRUE":
		return 1
	case "FALSE":
		return -1
	}
	return 0
}
