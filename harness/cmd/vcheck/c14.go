package main

import (
	"fmt"
	"hash/fnv"
	"math"
	"reflect"
	"sort"
	"strconv"
	"strings"

	"github.com/mithrandie/csvq/lib/parser"
	"github.com/mithrandie/csvq/lib/query"
	"github.com/mithrandie/csvq/lib/verifhook"

	"verif/internal/core"
)

func init() {
	core.Register(&core.Spec{
		ID: "C14", Level: "exploration",
		Rule: "one case = one expression: case i uses the (i mod N)-th name of csvq's built-in function table (enumerated at run time, N ~ 120) or an operator / CASE / aggregate / analytic form, with arguments drawn from a typed pool (integers, floats, strings, datetimes, booleans, NULL). The expression is evaluated through six embeddings — literals, variables, table cells (SELECT over a cached table, twice), a WHILE loop (3 iterations), a user function body called three times, a prepared statement executed twice, and one parsed statement executed twice — once with the shipped allocator (pool recycling on) and once with poison-on-discard (a discarded value is overwritten with a sentinel and never re-issued). " +
			"Monitors: (1) no sentinel may ever appear in a result, a variable, a table cell or a cursor row, and no object may be discarded twice; (2) a structural digest of the parsed syntax tree is unchanged by execution; (3) repeated evaluation gives the same values, and the variables and the cached table are unchanged. Plus fixed statement families around cached tables (sub-queries, CTEs, COUNT(*) forms, cursors kept across later statements). non-trivial = the expression evaluated without error in at least three embeddings; distinct = expression text.",
		Quick: 1200, Thorough: 40000, FloorQuick: 400, FloorThorough: 9000,
		Assumptions: []string{"functions whose result legitimately varies (NOW, RAND, UUID-like, CALL, …) are excluded from the equality monitors but still run under the poison monitor", "the digest walks the tree by reflection incl. unexported fields; scalar payloads of literals are part of it"},
		Setup:       func(w *core.Worker) { core.HermeticProcess(w.Work) },
		Fn:          c14Case,
	})
}

var c14Pool = []string{"1", "0", "-3", "2", "10", "1.5", "-0.25", "100.0", "'abc'", "'a b c'", "'2012-02-03 09:18:15'", "'12'", "'x,y,z'", "''", "' pad '", "NULL", "TRUE", "FALSE",
	"DATETIME('2012-02-03 09:18:15')", "DATETIME('2020-12-31')", "'%Y-%m-%d'", "'utf8'", "'[1,2,{\"a\":3}]'", "'a'", "3", "'b'", "'^a(b)c$'", "'UTC'", "7.25", "255"}

var c14Volatile = map[string]bool{"NOW": true, "RAND": true, "CALL": true, "UNIX_TIME": true, "UNIX_NANO_TIME": true, "UUID": true}

var c14FuncNames []string

func c14Names() []string {
	if c14FuncNames == nil {
		for n := range query.Functions {
			c14FuncNames = append(c14FuncNames, n)
		}
		c14FuncNames = append(c14FuncNames, "NOW", "JSON_OBJECT")
		sort.Strings(c14FuncNames)
	}
	return c14FuncNames
}

// ---- structural digest of a syntax tree --------------------------------------------

func astDigest(v interface{}) uint64 {
	h := fnv.New64a()
	seen := map[uintptr]bool{}
	var walk func(rv reflect.Value, depth int)
	wr := func(s string) { _, _ = h.Write([]byte(s)); _, _ = h.Write([]byte{0}) }
	walk = func(rv reflect.Value, depth int) {
		if depth > 60 || !rv.IsValid() {
			wr("~")
			return
		}
		switch rv.Kind() {
		case reflect.Interface:
			if rv.IsNil() {
				wr("nil")
				return
			}
			wr(rv.Elem().Type().String())
			walk(rv.Elem(), depth+1)
		case reflect.Ptr:
			if rv.IsNil() {
				wr("nil")
				return
			}
			p := rv.Pointer()
			if seen[p] && rv.Elem().Kind() == reflect.Struct && rv.Elem().NumField() > 3 {
				wr("cycle")
				return
			}
			seen[p] = true
			walk(rv.Elem(), depth+1)
		case reflect.Struct:
			t := rv.Type()
			if t.String() == "time.Time" {
				// wall/ext only; the location pointer is shared runtime state
				wr(fmt.Sprint(rv.Field(0).Uint(), rv.Field(1).Int()))
				return
			}
			wr(t.String())
			for i := 0; i < rv.NumField(); i++ {
				if t.Field(i).Name == "mtx" || strings.HasPrefix(t.Field(i).Type.String(), "*sync.") || strings.HasPrefix(t.Field(i).Type.String(), "sync.") {
					continue
				}
				walk(rv.Field(i), depth+1)
			}
		case reflect.Slice, reflect.Array:
			wr(fmt.Sprintf("[%d", rv.Len()))
			for i := 0; i < rv.Len(); i++ {
				walk(rv.Index(i), depth+1)
			}
		case reflect.Map:
			keys := rv.MapKeys()
			strs := make([]string, 0, len(keys))
			for _, k := range keys {
				strs = append(strs, fmt.Sprint(k))
			}
			sort.Strings(strs)
			wr(fmt.Sprintf("{%d %v", len(keys), strs))
		case reflect.String:
			wr("s" + rv.String())
		case reflect.Bool:
			wr(fmt.Sprint(rv.Bool()))
		case reflect.Int, reflect.Int8, reflect.Int16, reflect.Int32, reflect.Int64:
			wr(strconv.FormatInt(rv.Int(), 10))
		case reflect.Uint, reflect.Uint8, reflect.Uint16, reflect.Uint32, reflect.Uint64, reflect.Uintptr:
			wr(strconv.FormatUint(rv.Uint(), 10))
		case reflect.Float32, reflect.Float64:
			wr(strconv.FormatUint(math.Float64bits(rv.Float()), 16))
		default:
			wr("?" + rv.Kind().String())
		}
	}
	walk(reflect.ValueOf(v), 0)
	return h.Sum64()
}

func isSentinel(v core.Val) bool {
	switch v.T {
	case 'S':
		return strings.Contains(v.S, "DISCARDED")
	case 'I':
		return v.S == strconv.FormatInt(verifhook.PoisonInt, 10)
	case 'F':
		return v.S == "POISON"
	case 'D':
		return strings.HasPrefix(v.S, "9999-12-31T23:59:59")
	}
	return false
}

type c14Replay struct {
	Expr   string   `json:"expression"`
	Mode   string   `json:"allocator"`
	Stmts  []string `json:"statements"`
	Detail string   `json:"detail"`
}

func c14Expr(r *core.Rng, i int) (expr string, volatile bool, args []string) {
	names := c14Names()
	pick := func() string { return c14Pool[r.Intn(len(c14Pool))] }
	kind := i % (len(names) + 24)
	if kind < len(names) {
		fn := names[kind]
		n := []int{1, 2, 1, 3, 0, 2}[r.Intn(6)]
		for k := 0; k < n; k++ {
			args = append(args, pick())
		}
		return fn + "(" + strings.Join(args, ", ") + ")", c14Volatile[fn], args
	}
	a, b, c := pick(), pick(), pick()
	args = []string{a, b, c}
	forms := []string{
		"%s + %s", "%s - %s", "%s * %s", "%s / %s", "%s %% %s", "%s || %s", "%s = %s", "%s < %s", "%s == %s", "%s LIKE %s",
		"%s BETWEEN %s AND %s", "%s IN (%s, %s)", "CASE WHEN %s THEN %s ELSE %s END", "CASE %s WHEN %s THEN %s END", "%s IS NULL OR %s", "NOT %s AND %s",
		"COALESCE(%s, %s, %s)", "IF(%s, %s, %s)", "-%s + %s", "(%s, %s) = (%s, 1)", "%s = ANY (%s, %s)", "%s <> ALL (%s, %s)", "NULLIF(%s, %s)", "%s IS TRUE AND %s IS NOT NULL",
	}
	f := forms[kind-len(names)]
	n := strings.Count(f, "%s")
	xs := []interface{}{a, b, c, a}
	return fmt.Sprintf(f, xs[:n]...), false, args[:minInt(n, 3)]
}

func minInt(a, b int) int {
	if a < b {
		return a
	}
	return b
}

// c14Sweep: one built-in function against every single, every pair and sampled triples of the operand pool,
// operands held in variables; both allocators. A value that a function discards although the caller still
// references it shows up as a sentinel (poison) or as a changed variable (recycling).
func c14Sweep(w *core.Worker, i int) {
	r := w.Rng(i, "sweep")
	fn := c14Names()[i]
	evaluated, okCalls := 0, 0
	for _, mode := range []string{"poison", "pool"} {
		verifhook.SetPoison(mode == "poison")
		verifhook.TakeDiscardStats(true)
		s, err := core.NewSess(core.SessOpts{Dir: w.Work, Quiet: true})
		if err != nil {
			w.Inconclusive(err.Error())
			return
		}
		s.Exec("VAR @v1; VAR @v2; VAR @v3;")
		var tuples [][]string
		tuples = append(tuples, []string{})
		for _, a := range c14Pool {
			tuples = append(tuples, []string{a})
		}
		for _, a := range c14Pool {
			for _, b := range c14Pool {
				tuples = append(tuples, []string{a, b})
			}
		}
		for k := 0; k < 150; k++ {
			tuples = append(tuples, []string{c14Pool[r.Intn(len(c14Pool))], c14Pool[r.Intn(len(c14Pool))], c14Pool[r.Intn(len(c14Pool))]})
		}
		reported := 0
		for _, tu := range tuples {
			set := ""
			var refs []string
			for j, a := range tu {
				set += fmt.Sprintf("@v%d := %s; ", j+1, a)
				refs = append(refs, fmt.Sprintf("@v%d", j+1))
			}
			call := fn + "(" + strings.Join(refs, ", ") + ")"
			varsQ := "SELECT 1, @v1, @v2, @v3;"
			if set != "" {
				s.Exec(set)
			}
			before := s.Exec(varsQ)
			res := s.Exec("SELECT " + call + ", " + call + ";")
			after := s.Exec(varsQ)
			evaluated++
			if res.Err == nil {
				okCalls++
			}
			viol := func(sig, what string) {
				if reported < 3 {
					reported++
					w.Violation(sig+":"+fn, fmt.Sprintf("%s with %s [allocator: %s]: %s", call, strings.TrimSpace(set), mode, what), c14Replay{Expr: call, Mode: mode, Stmts: []string{"VAR @v1; VAR @v2; VAR @v3;", set, "SELECT " + call + ", " + call + ";", varsQ}, Detail: what})
				}
			}
			if core.IsFatal(res.Err) {
				w.Count("internal_failures_seen_(judged_by_C19)", 1)
			}
			if before.Err != nil || after.Err != nil || len(before.Views) != 1 || len(after.Views) != 1 {
				continue
			}
			for _, c := range after.Views[0].Rows[0] {
				if isSentinel(c) {
					viol("use-after-discard", fmt.Sprintf("a variable that was only read now holds a discarded value: %v", valsToStrs(after.Views[0].Rows[0])))
				}
			}
			if viewRows(before.Views[0]) != viewRows(after.Views[0]) {
				viol("variable-changed", fmt.Sprintf("variables were %s and are %s after the call", strings.TrimSpace(viewRows(before.Views[0])), strings.TrimSpace(viewRows(after.Views[0]))))
			}
			if res.Err == nil && len(res.Views) == 1 && !c14Volatile[fn] {
				row := res.Views[0].Rows[0]
				if isSentinel(row[0]) || isSentinel(row[1]) {
					viol("use-after-discard", fmt.Sprintf("the call returned a discarded value: %v", valsToStrs(row)))
				} else if row[0] != row[1] {
					viol("repeat-differs:call", fmt.Sprintf("two evaluations in one row returned %v", valsToStrs(row)))
				}
			}
		}
		s.Close()
		st := verifhook.TakeDiscardStats(true)
		if mode == "poison" && len(st.DoubleDiscards) > 0 {
			w.Violation("double-discard:"+fn, fmt.Sprintf("%s: an object was discarded twice: %v", fn, st.DoubleDiscards[0]), c14Replay{Expr: fn, Mode: mode})
		}
	}
	verifhook.SetPoison(false)
	w.Count("sweep_calls_evaluated", int64(evaluated))
	w.Count("sweep_calls_without_error", int64(okCalls))
	if i%20 == 0 {
		w.Sample(map[string]interface{}{"sweep": fn, "operand_tuples": evaluated / 2})
	}
	w.Case("sweep:"+fn, okCalls > 0)
}

// c14Transparent: a statement that only reads or lists (SHOW .., SELECT, PRINT, a cursor status) is put in front of a change made
// inside a nested block; what the program reads inside the block and after it must be what it reads without that statement.
func c14Transparent(w *core.Worker, i int) {
	r := w.Rng(i, "transparent")
	core.WriteFiles(w.Work, map[string]string{"f.csv": "a\n1\n"})
	ros := []string{"SHOW VIEWS;", "SHOW TABLES;", "SHOW CURSORS;", "SHOW FUNCTIONS;", "SHOW FIELDS FROM t;", "SELECT COUNT(*) FROM t;", "SHOW VIEWS; SHOW VIEWS;", "PRINT (SELECT MAX(a) FROM t);", "SELECT * FROM t WHERE a < 0;", "SHOW FLAGS;", "SHOW STATEMENTS;", "SELECT CURSOR c IS OPEN;", "SHOW VIEWS; SHOW CURSORS; SHOW FUNCTIONS;"}
	changes := []string{"UPDATE t SET a = a + 1;", "INSERT INTO t VALUES (7);", "DELETE FROM t WHERE a = 1;", "ALTER TABLE t ADD b DEFAULT 5;", "@v := @v + 1; UPDATE t SET a = @v;", "OPEN c; FETCH c INTO @v;", "DISPOSE CURSOR c; DECLARE c CURSOR FOR SELECT 9;", "DECLARE g FUNCTION () AS BEGIN RETURN 2; END; @v := g();"}
	blocks := []string{"IF TRUE THEN\n%s\nEND IF;", "VAR @w := 0; WHILE @w < 1 DO\n@w := @w + 1;\n%s\nEND WHILE;", "CASE WHEN TRUE THEN\n%s\nEND CASE;", "DECLARE blk FUNCTION () AS BEGIN\n%s\nRETURN 0; END; VAR @r := blk();", "IF TRUE THEN IF TRUE THEN\n%s\nEND IF; END IF;"}
	for k := 0; k < 12; k++ {
		ro, ch, blk := ros[r.Intn(len(ros))], changes[r.Intn(len(changes))], blocks[r.Intn(len(blocks))]
		tdecl := []string{"DECLARE t VIEW (a) AS SELECT 1;", "DECLARE t VIEW (a) AS SELECT a FROM f;"}[r.Intn(2)]
		prog := func(with bool) string {
			body := ch + "\nSELECT 'inside', a FROM t;"
			if with {
				body = ro + "\n" + body
			}
			return tdecl + " VAR @v := 1; DECLARE c CURSOR FOR SELECT 3; DECLARE g FUNCTION () AS BEGIN RETURN 1; END;\n" + fmt.Sprintf(blk, body) + "\nSELECT 'after', a, @v, g() FROM t; SELECT 'cursor', CURSOR c IS OPEN;"
		}
		tail := func(res core.ExecResult) string {
			var parts []string
			for _, v := range res.Views {
				if len(v.Rows) > 0 && len(v.Rows[0]) > 0 && (v.Rows[0][0].S == "inside" || v.Rows[0][0].S == "after" || v.Rows[0][0].S == "cursor") {
					parts = append(parts, viewRows(v))
				}
			}
			return strings.Join(parts, " | ") + fmt.Sprint(" err=", res.Err != nil)
		}
		var out [2]string
		for j, with := range []bool{false, true} {
			s, err := core.NewSess(core.SessOpts{Dir: w.Work, Quiet: true})
			if err != nil {
				w.Inconclusive(err.Error())
				return
			}
			res := s.Exec(prog(with))
			out[j] = tail(res)
			s.Close()
		}
		if out[0] != out[1] {
			w.Violation("read-only-statement-changes-later-readings", fmt.Sprintf("with %q in front of %q inside the block the program reads [%s], without it [%s]\n%s", ro, ch, out[1], out[0], prog(true)), c14Replay{Expr: ro, Stmts: []string{prog(true)}, Detail: "without the statement: " + out[0] + "; with it: " + out[1]})
		}
		w.Count("programs_compared_with_and_without_a_read-only_statement", 1)
	}
	w.Case(core.Digest("transparent", fmt.Sprint(i)), true)
}

// c14AfterOverflow: arithmetic whose result does not fit an integer (whatever it evaluates to) between the creation of values and
// later readings of them: the values created before and after are what they were, under both allocators, and nothing is handed
// back to the allocator twice.
func c14AfterOverflow(w *core.Worker, i int) {
	r := w.Rng(i, "overflow")
	core.WriteFiles(w.Work, map[string]string{"ov.csv": "a,b\n9223372036854775807,1\n5,6\n-9223372036854775807,-2\n7,8\n4611686018427387904,2\n"})
	ops := []string{"9223372036854775807 + 1", "9223372036854775807 * 2", "-9223372036854775807 - 2", "9223372036854775807 - (-1)", "4611686018427387904 * 4", "(-9223372036854775807 - 1) / -1", "9223372036854775807 + 9223372036854775807"}
	for _, mode := range []string{"pool", "poison"} {
		verifhook.SetPoison(mode == "poison")
		verifhook.TakeDiscardStats(true)
		s, err := core.NewSess(core.SessOpts{Dir: w.Work, Quiet: true})
		if err != nil {
			verifhook.SetPoison(false)
			w.Inconclusive(err.Error())
			return
		}
		op := ops[r.Intn(len(ops))]
		prog := "VAR @d := INTEGER('12'); VAR @x := 0; @x := " + op + "; SELECT " + op + ", " + ops[r.Intn(len(ops))] + "; SELECT a + b, a * b, a - b FROM ov; VAR @e := INTEGER('34'); VAR @f := 10 + 1; SELECT 'after', @d, @e, @f, 20 + 2, INTEGER('56');"
		res := s.Exec(prog)
		got := ""
		for _, v := range res.Views {
			if len(v.Rows) == 1 && len(v.Rows[0]) == 6 && v.Rows[0][0].S == "after" {
				got = strings.Join(valsToStrs(v.Rows[0][1:]), " ")
			}
		}
		st := verifhook.TakeDiscardStats(true)
		s.Close()
		verifhook.SetPoison(false)
		if res.Err == nil && got != "I:12 I:34 I:11 I:22 I:56" {
			w.Violation("value-changed-after-overflowing-arithmetic", fmt.Sprintf("[allocator: %s] after %s the program reads %s, expected 12 34 11 22 56\n%s", mode, op, got, prog), c14Replay{Expr: op, Mode: mode, Stmts: []string{prog}, Detail: got})
		}
		if mode == "poison" && len(st.DoubleDiscards) > 0 {
			w.Violation("double-discard", fmt.Sprintf("%s: an object was discarded twice: %v", op, st.DoubleDiscards[0]), c14Replay{Expr: op, Mode: mode, Stmts: []string{prog}})
		}
		w.Count("programs_reading_values_after_overflowing_arithmetic", 1)
	}
}

func c14Case(w *core.Worker, i int) {
	if i < len(c14Names()) {
		c14Sweep(w, i)
		return
	}
	if i%9 == 2 {
		c14Transparent(w, i)
	}
	if i%9 == 5 {
		c14AfterOverflow(w, i)
	}
	r := w.Rng(i, "")
	expr, volatile, args := c14Expr(r, i)
	// a table whose cells are the argument texts (strings in a file), plus rows of other pool values
	hdr := []string{"id", "c1", "c2", "c3"}
	var rows [][]*string
	unq := func(s string) *string {
		if s == "NULL" {
			return nil
		}
		if strings.HasPrefix(s, "DATETIME(") {
			s = s[9 : len(s)-1]
		}
		s = strings.Trim(s, "'")
		return &s
	}
	nrows := 6
	if i%10 == 9 {
		nrows = 330
	}
	for k := 0; k < nrows; k++ {
		row := []*string{core.Sp(strconv.Itoa(k + 1))}
		for j := 0; j < 3; j++ {
			if k == 0 && j < len(args) {
				row = append(row, unq(args[j]))
			} else {
				row = append(row, unq(c14Pool[r.Intn(len(c14Pool))]))
			}
		}
		rows = append(rows, row)
	}
	core.WriteFiles(w.Work, map[string]string{"t.csv": core.CSVFile(hdr, rows)})
	cellExpr := expr
	for j, a := range args {
		cellExpr = strings.Replace(cellExpr, a, fmt.Sprintf("c%d", j+1), 1)
	}
	varExpr := expr
	for j, a := range args {
		varExpr = strings.Replace(varExpr, a, fmt.Sprintf("@v%d", j+1), 1)
	}
	okEmbeddings := 0
	for _, mode := range []string{"pool", "poison"} {
		verifhook.SetPoison(mode == "poison")
		verifhook.TakeDiscardStats(true)
		cpu := 1
		if nrows > 100 {
			cpu = 4
		}
		s, err := core.NewSess(core.SessOpts{Dir: w.Work, CPU: cpu, Quiet: true})
		if err != nil {
			w.Inconclusive(err.Error())
			return
		}
		var stmts []string
		viol := func(sig, what string) {
			w.Violation(sig, fmt.Sprintf("%s [allocator: %s]: %s", expr, mode, what), c14Replay{Expr: expr, Mode: mode, Stmts: append([]string{}, stmts...), Detail: what})
		}
		exec := func(q string) core.ExecResult {
			stmts = append(stmts, q)
			res := s.Exec(q)
			if core.IsFatal(res.Err) {
				w.Count("internal_failures_seen_(judged_by_C19)", 1)
			}
			for _, v := range res.Views {
				for _, row := range v.Rows {
					for _, c := range row {
						if isSentinel(c) {
							viol("use-after-discard", fmt.Sprintf("a discarded value is still referenced: %q returned %v", q, c))
							return res
						}
					}
				}
			}
			if strings.Contains(res.Stdout, "DISCARDED") {
				viol("use-after-discard", fmt.Sprintf("a discarded value was printed by %q", q))
			}
			return res
		}
		same := func(a, b core.ExecResult) bool {
			if (a.Err != nil) != (b.Err != nil) {
				return false
			}
			if a.Err != nil {
				return true
			}
			if len(a.Views) != len(b.Views) {
				return false
			}
			for k := range a.Views {
				if viewRows(a.Views[k]) != viewRows(b.Views[k]) {
					return false
				}
			}
			return len(a.Views) > 0 || a.Stdout == b.Stdout
		}
		// variables
		for j, a := range args {
			exec(fmt.Sprintf("VAR @v%d := %s;", j+1, a))
		}
		varsQ := "SELECT 1"
		for j := range args {
			varsQ += fmt.Sprintf(", @v%d", j+1)
		}
		vars0 := exec(varsQ + ";")
		tab0 := exec("SELECT * FROM t;")
		// (0) one statement reads a column through the same aggregate before and after another aggregate (with DISTINCT, with
		// an ordering) has read it: both readings agree
		{
			ag := []string{"SUM(%s)", "AVG(%s)", "MEDIAN(%s)", "LISTAGG(%s, '|')", "JSON_AGG(%s)", "COUNT(%s)", "MIN(%s)", "MAX(%s)", "VAR(%s)", "STDEV(%s)"}
			mid := []string{"COUNT(DISTINCT %s)", "SUM(DISTINCT %s)", "LISTAGG(DISTINCT %s, '|')", "JSON_AGG(DISTINCT %s)", "MEDIAN(DISTINCT %s)", "LISTAGG(%s, '|') WITHIN GROUP (ORDER BY %s DESC)", "MIN(%s)", "AVG(DISTINCT %s)"}
			f1, f2 := ag[r.Intn(len(ag))], ag[r.Intn(len(ag))]
			m1, m2 := strings.ReplaceAll(mid[r.Intn(len(mid))], "%s", "c1"), strings.ReplaceAll(mid[r.Intn(len(mid))], "%s", "c2")
			a, b := fmt.Sprintf(f1, "c1"), fmt.Sprintf(f2, "c2")
			for _, q := range []string{
				fmt.Sprintf("SELECT %s, %s, %s, %s, %s, %s FROM t;", a, m1, a, b, m2, b),
				fmt.Sprintf("SELECT %s, %s, %s, %s, %s, %s FROM t GROUP BY c3 IS NULL;", a, m1, a, b, m2, b),
				fmt.Sprintf("SELECT %s, %s FROM t GROUP BY id %% 2 HAVING %s IS NOT NULL OR TRUE;", a, b, m1),
			} {
				res := exec(q)
				if res.Err != nil || len(res.Views) != 1 {
					continue
				}
				w.Count("aggregate_readings_compared", 1)
				for _, row := range res.Views[0].Rows {
					if len(row) == 6 && (row[0] != row[2] || row[3] != row[5]) {
						viol("reading-changed-by-another-aggregate", fmt.Sprintf("%s returned %v: the same aggregate over the same column gives two values", q, valsToStrs(row)))
						break
					}
				}
			}
			// the third statement has no second reading: its values are those of the statement without the HAVING clause
			h1 := exec(fmt.Sprintf("SELECT %s, %s FROM t GROUP BY id %% 2;", a, b))
			h2 := exec(fmt.Sprintf("SELECT %s, %s FROM t GROUP BY id %% 2 HAVING %s IS NOT NULL OR TRUE;", a, b, m1))
			if h1.Err == nil && h2.Err == nil && !same(h1, h2) {
				viol("reading-changed-by-another-aggregate", fmt.Sprintf("SELECT %s, %s .. GROUP BY id %% 2 gives other values once HAVING has evaluated %s", a, b, m1))
			}
		}
		// (1) literals, three times
		l1 := exec("SELECT " + expr + ";")
		l2 := exec("SELECT " + expr + ";")
		if l1.Err == nil {
			okEmbeddings++
		}
		if !volatile && !same(l1, l2) {
			viol("repeat-differs:literal", fmt.Sprintf("first %v, second %v", resText(l1), resText(l2)))
		}
		// (2) variables
		v1 := exec("SELECT " + varExpr + ";")
		v2 := exec("SELECT " + varExpr + ";")
		if v1.Err == nil {
			okEmbeddings++
		}
		if !volatile && !same(v1, v2) {
			viol("repeat-differs:variables", fmt.Sprintf("first %v, second %v", resText(v1), resText(v2)))
		}
		if !volatile && !strings.HasPrefix(expr, "JSON_OBJECT(") && l1.Err == nil && v1.Err == nil && resText(l1) != resText(v1) { // JSON_OBJECT names its members after the operand texts
			viol("carrier-differs", fmt.Sprintf("with literal operands %v, with the same values in variables %v", resText(l1), resText(v1)))
		}
		// (3) table cells, twice, and the cached table afterwards
		c1 := exec("SELECT id, " + cellExpr + " FROM t;")
		c2 := exec("SELECT id, " + cellExpr + " FROM t;")
		if c1.Err == nil {
			okEmbeddings++
		}
		if !volatile && !same(c1, c2) {
			viol("repeat-differs:cells", "the same SELECT over the cached table gave different rows the second time")
		}
		// (3b) evaluating the expression on a row must not change what the same statement reads from that row
		if rq := exec("SELECT id, c1, c2, c3, " + cellExpr + " AS e14, id AS id_, c1 AS c1_, c2 AS c2_, c3 AS c3_ FROM t;"); rq.Err == nil && len(rq.Views) == 1 && tab0.Err == nil && len(tab0.Views) == 1 && len(rq.Views[0].Rows) == len(tab0.Views[0].Rows) {
			w.Count("rows_compared_around_the_expression", int64(len(rq.Views[0].Rows)))
		rowLoop:
			for k, row := range rq.Views[0].Rows {
				for j := 0; j < 4; j++ {
					want := tab0.Views[0].Rows[k][j]
					if row[j] != want || row[5+j] != want {
						viol("row-changed-by-evaluation", fmt.Sprintf("row %d: the table holds %v; selected before the expression %v, after it %v", k+1, valsToStrs(tab0.Views[0].Rows[k]), valsToStrs(row[:4]), valsToStrs(row[5:])))
						break rowLoop
					}
				}
			}
		}
		if wq := exec("SELECT * FROM t WHERE (" + cellExpr + ") IS NULL OR 1 = 1;"); wq.Err == nil && tab0.Err == nil && !same(tab0, wq) {
			viol("row-changed-by-evaluation", "SELECT * with the expression in a WHERE clause that keeps every row returns other rows than SELECT *")
		}
		// (4) loop: the same syntax tree evaluated three times
		lp := exec("VAR @i := 0; WHILE @i < 3 DO @i := @i + 1; PRINT " + expr + "; END WHILE; DISPOSE @i;")
		if lp.Err == nil && !volatile {
			ls := strings.Split(strings.TrimSpace(lp.Stdout), "\n")
			if len(ls) == 3 && (ls[0] != ls[1] || ls[1] != ls[2]) {
				viol("repeat-differs:loop", fmt.Sprintf("three iterations printed %v", ls))
			}
		}
		// (5) function body called three times
		exec("DECLARE g14 FUNCTION () AS BEGIN RETURN " + expr + "; END;")
		fb := exec("SELECT g14(), g14(), g14();")
		if fb.Err == nil && !volatile && len(fb.Views) == 1 {
			row := fb.Views[0].Rows[0]
			if row[0] != row[1] || row[1] != row[2] {
				viol("repeat-differs:function", fmt.Sprintf("three calls returned %v", valsToStrs(row)))
			}
		}
		// (6) prepared statement executed twice
		ph := expr
		using := ""
		for j, a := range args {
			if strings.Contains(ph, a) {
				ph = strings.Replace(ph, a, "?", 1)
				if using != "" {
					using += ", "
				}
				using += a
			}
			_ = j
		}
		exec("PREPARE p14 FROM " + core.SQLStr("SELECT "+ph+";") + ";")
		eq := "EXECUTE p14;"
		if using != "" {
			eq = "EXECUTE p14 USING " + using + ";"
		}
		p1 := exec(eq)
		p2 := exec(eq)
		if p1.Err == nil {
			okEmbeddings++
		}
		if !volatile && !same(p1, p2) {
			viol("repeat-differs:prepared", fmt.Sprintf("first %v, second %v", resText(p1), resText(p2)))
		}
		exec("DISPOSE PREPARE p14;")
		// (7) one parsed statement, digest before / after two executions
		text := "SELECT id, " + cellExpr + ", " + expr + " FROM t WHERE id <= 3; SELECT " + expr + ";"
		if parsed, _, perr := parser.Parse(text, "", false, false); perr == nil {
			d0 := astDigest(parsed)
			r1 := s.ExecStmts(parsed)
			d1 := astDigest(parsed)
			r2 := s.ExecStmts(parsed)
			d2 := astDigest(parsed)
			stmts = append(stmts, "(parsed once, executed twice) "+text)
			if d0 != d1 || d1 != d2 {
				viol("syntax-tree-modified", "the structural digest of the parsed statements changed when they were executed")
			}
			if !volatile && !same(r1, r2) {
				viol("repeat-differs:same-tree", "executing the same parsed statements twice gave different results")
			}
		}
		// cursor rows kept across later statements
		exec("DECLARE cur14 CURSOR FOR SELECT id, " + cellExpr + " FROM t WHERE id <= 2;")
		if o := exec("OPEN cur14;"); o.Err == nil {
			exec("VAR @f1; VAR @f2; FETCH cur14 INTO @f1, @f2;")
			before := exec("SELECT @f1, @f2;")
			exec("SELECT " + expr + ", " + expr + ";")
			exec("SELECT id, " + cellExpr + " FROM t;")
			exec("FETCH FIRST cur14 INTO @f1, @f2;")
			after := exec("SELECT @f1, @f2;")
			if !volatile && !same(before, after) {
				viol("cursor-row-changed", fmt.Sprintf("the first cursor row was %v and later %v", resText(before), resText(after)))
			}
			exec("CLOSE cur14;")
		}
		// variables and cached table unchanged
		vars1 := exec(varsQ + ";")
		tab1 := exec("SELECT * FROM t;")
		if !same(vars0, vars1) {
			viol("variable-changed", fmt.Sprintf("variables were %v and are now %v", resText(vars0), resText(vars1)))
		}
		if !same(tab0, tab1) {
			viol("cached-table-changed", "SELECT * FROM t differs after evaluating expressions that only read it")
		}
		// fixed families around cached tables
		if i%7 == 0 {
			for _, q := range []string{
				"SELECT COUNT(*) FROM (SELECT * FROM t) s;", "UPDATE t SET c1 = c1 WHERE id = 1;", "SELECT COUNT(*) OVER () FROM t WHERE id <= 2;",
				"WITH w AS (SELECT id FROM t) SELECT COUNT(*) FROM w;", "SELECT COUNT(*), COUNT(c1), COUNT(DISTINCT c1) FROM t;", "SELECT id FROM t WHERE id IN (SELECT id FROM t WHERE id < 3);",
				"INSERT INTO t SELECT id + 1000, c1, c2, c3 FROM t WHERE id = 1;", "SELECT COUNT(*) FROM t;", "ROLLBACK;",
			} {
				if res := exec(q); res.Err != nil {
					viol("statement-after-read-fails", fmt.Sprintf("%q failed after the table had only been read through sub-queries: %v", q, res.Err))
				}
			}
			tab2 := exec("SELECT * FROM t;")
			if !same(tab0, tab2) {
				viol("cached-table-changed", "the table differs after ROLLBACK of the only change")
			}
			// a WITH table referenced several times in one statement: every reference reads the same rows, whatever the other does with them
			for _, pair := range [][2]string{
				{"WITH w AS (SELECT id, c1 FROM t) SELECT id FROM w WHERE id >= 3 UNION ALL SELECT id FROM w;", "SELECT id FROM t WHERE id >= 3 UNION ALL SELECT id FROM t;"},
				{"WITH w AS (SELECT id, c1 FROM t) SELECT id, (SELECT MAX(id) FROM w WHERE id < 4) FROM w ORDER BY id DESC;", "SELECT id, (SELECT MAX(id) FROM t WHERE id < 4) FROM t ORDER BY id DESC;"},
				{"WITH w AS (SELECT id, c1 FROM t) SELECT id FROM w WHERE id NOT IN (SELECT id FROM w ORDER BY id DESC LIMIT 1 OFFSET 2);", "SELECT id FROM t WHERE id NOT IN (SELECT id FROM t ORDER BY id DESC LIMIT 1 OFFSET 2);"},
				{"WITH w AS (SELECT id, c1 FROM t) SELECT a.id, b.c1 FROM w a JOIN (SELECT c1, COUNT(*) AS n FROM w GROUP BY c1) b ON a.c1 = b.c1 ORDER BY a.id, b.c1;", "SELECT a.id, b.c1 FROM t a JOIN (SELECT c1, COUNT(*) AS n FROM t GROUP BY c1) b ON a.c1 = b.c1 ORDER BY a.id, b.c1;"},
			} {
				rc, rp := exec(pair[0]), exec(pair[1])
				if rc.Err == nil && rp.Err == nil && !same(rc, rp) {
					viol("with-table-reference-changed-another", fmt.Sprintf("%s returns other rows than the same query written without WITH", pair[0]))
				}
			}
			// integer operands outside ordinary function calls (analytic-function arguments, FETCH positions, LIMIT/OFFSET):
			// as literals of one parsed tree executed twice, and as variables that are read again afterwards
			exec("VAR @n14 := 2; VAR @m14 := 1; VAR @g14;")
			exec("DECLARE curp14 CURSOR FOR SELECT id FROM t ORDER BY id; OPEN curp14;")
			n0 := exec("SELECT @n14, @m14;")
			for _, pair := range [][2]string{
				{"SELECT id, NTH_VALUE(c1, 2) OVER (ORDER BY id), NTILE(2) OVER (ORDER BY id), LAG(c1, 2, 0) OVER (ORDER BY id), LEAD(id, 1, 7) OVER (ORDER BY id) FROM t;", "SELECT id, NTH_VALUE(c1, @n14) OVER (ORDER BY id), NTILE(@n14) OVER (ORDER BY id), LAG(c1, @n14, @m14) OVER (ORDER BY id), LEAD(id, @m14, @n14) OVER (ORDER BY id) FROM t;"},
				{"FETCH ABSOLUTE 2 curp14 INTO @g14; FETCH RELATIVE 1 curp14 INTO @g14; FETCH RELATIVE -2 curp14 INTO @g14; SELECT @g14;", "FETCH ABSOLUTE @n14 curp14 INTO @g14; FETCH RELATIVE @m14 curp14 INTO @g14; FETCH RELATIVE -@n14 curp14 INTO @g14; SELECT @g14;"},
				{"SELECT id FROM t ORDER BY id LIMIT 2 OFFSET 1; SELECT id FROM t ORDER BY id LIMIT 50 PERCENT; SELECT id FROM t ORDER BY id FETCH FIRST 2 ROWS ONLY;", "SELECT id FROM t ORDER BY id LIMIT @n14 OFFSET @m14; SELECT id FROM t ORDER BY id LIMIT @n14 + 48 PERCENT;"},
				{"SELECT id, SUM(id) OVER (ORDER BY id ROWS BETWEEN 2 PRECEDING AND 1 FOLLOWING), LISTAGG(c1, ',') WITHIN GROUP (ORDER BY id) OVER () FROM t;", "SELECT SUBSTRING(c1 FROM @m14 FOR @n14), SUBSTR(c1, @m14, @n14), LPAD(c1, @n14 + 3, 'x'), ROUND(id / 3, @n14) FROM t;"},
			} {
				for _, text := range pair {
					parsed, _, perr := parser.Parse(text, "", false, false)
					if perr != nil {
						continue
					}
					d0 := astDigest(parsed)
					r1 := s.ExecStmts(parsed)
					exec("SELECT 41 + 1, 7 * 6, 1000 - 958;") // integers allocated in between
					d1 := astDigest(parsed)
					r2 := s.ExecStmts(parsed)
					d2 := astDigest(parsed)
					stmts = append(stmts, "(parsed once, executed twice) "+text)
					if d0 != d1 || d1 != d2 {
						viol("syntax-tree-modified", "the structural digest of "+truncateStr(text, 80)+" changed when it was executed")
					}
					if r1.Err == nil && !same(r1, r2) {
						viol("repeat-differs:same-tree", "executing "+truncateStr(text, 80)+" twice gave different results")
					}
					for _, rr := range []core.ExecResult{r1, r2} {
						for _, v := range rr.Views {
							for _, row := range v.Rows {
								for _, c := range row {
									if isSentinel(c) {
										viol("use-after-discard", "a discarded value was returned by "+truncateStr(text, 80))
									}
								}
							}
						}
					}
				}
			}
			if n1 := exec("SELECT @n14, @m14;"); !same(n0, n1) {
				viol("variable-changed", fmt.Sprintf("variables used as operands were %v and are now %v", resText(n0), resText(n1)))
			}
			exec("CLOSE curp14; DISPOSE CURSOR curp14; DISPOSE @n14; DISPOSE @m14; DISPOSE @g14;")
			// value operands of statements that are no queries (environment variables, flags, PRINT / PRINTF / ECHO, EXECUTE,
			// PREPARE .. USING, CHDIR): given as variables that are read again afterwards, as cells of the table, and as
			// literals of one parsed tree executed twice
			exec("VAR @s14 := 'text14'; VAR @i14 := 3; VAR @q14 := 'VAR @x14 := 1; DISPOSE @x14;'; VAR @fmt14 := '%s-%s'; VAR @dot14 := '.';")
			o0 := exec("SELECT @s14, @i14, @q14, @fmt14, @dot14;")
			t0 := exec("SELECT * FROM t;")
			for _, text := range []string{
				"SET @%ENV14 TO @s14; SELECT @%ENV14;", "SET @%ENV14 TO 'literal14'; SELECT @%ENV14;", "SET @%ENV14 TO @i14; SET @%ENV14B TO 14; SELECT @%ENV14, @%ENV14B;",
				"SET @%ENV14 TO (SELECT c1 FROM t WHERE id = 2); SELECT @%ENV14;", "SET @%ENV14 TO @s14 || 'x'; UNSET @%ENV14;",
				"PRINT @s14; PRINT 'literal14'; ECHO @s14; PRINTF @fmt14 USING @s14, @i14; PRINTF '%s|%d' USING 'literal14', 14;",
				"EXECUTE @q14; EXECUTE 'VAR @y14 := 2; DISPOSE @y14;'; EXECUTE 'SELECT %s' USING @s14;",
				"PREPARE p14 FROM 'SELECT ?, ?'; EXECUTE p14 USING @s14, @i14; EXECUTE p14 USING 'literal14', 14; DISPOSE PREPARE p14;",
				"PREPARE p14 FROM @q14; DISPOSE PREPARE p14;", "CHDIR @dot14; CHDIR '.';",
				"SET @@LIMIT_RECURSION TO @i14; SET @@LIMIT_RECURSION TO 1000; SET @@WAIT_TIMEOUT TO @i14; SET @@WAIT_TIMEOUT TO 10; SET @@TIMEZONE TO 'UTC'; SET @@DATETIME_FORMAT TO @s14; SET @@DATETIME_FORMAT TO '';",
				"ADD @s14 TO @@DATETIME_FORMAT; REMOVE @s14 FROM @@DATETIME_FORMAT; ADD 'literal14' TO @@DATETIME_FORMAT; REMOVE 'literal14' FROM @@DATETIME_FORMAT;",
				"VAR @c14 := 0; WHILE @c14 < 3 DO SET @%ENV14 TO 'loop14'; @c14 := @c14 + 1; END WHILE; SELECT @%ENV14, @c14; DISPOSE @c14;",
			} {
				parsed, _, perr := parser.Parse(text, "", false, false)
				if perr != nil {
					continue
				}
				d0 := astDigest(parsed)
				r1 := s.ExecStmts(parsed)
				exec("SELECT 'a' || 'b', 'c' || 'd', 'e' || 'f', 41 + 1, 7 * 6;") // texts and integers allocated in between
				d1 := astDigest(parsed)
				r2 := s.ExecStmts(parsed)
				exec("SELECT 'g' || 'h', 'i' || 'j', 1000 - 958;")
				d2 := astDigest(parsed)
				stmts = append(stmts, "(parsed once, executed twice) "+text)
				if d0 != d1 || d1 != d2 {
					viol("syntax-tree-modified", "the structural digest of "+truncateStr(text, 80)+" changed when it was executed")
				}
				if r1.Err == nil && !same(r1, r2) {
					viol("repeat-differs:same-tree", "executing "+truncateStr(text, 80)+" twice gave different results")
				}
				for _, rr := range []core.ExecResult{r1, r2} {
					for _, v := range rr.Views {
						for _, row := range v.Rows {
							for _, c := range row {
								if isSentinel(c) {
									viol("use-after-discard", "a discarded value was returned by "+truncateStr(text, 80))
								}
							}
						}
					}
				}
				if o1 := exec("SELECT @s14, @i14, @q14, @fmt14, @dot14;"); !same(o0, o1) {
					viol("variable-changed", fmt.Sprintf("variables used as operands of %s were %v and are now %v", truncateStr(text, 60), resText(o0), resText(o1)))
					break
				}
				if t1 := exec("SELECT * FROM t;"); !same(t0, t1) {
					viol("row-changed-by-evaluation", "the table read by "+truncateStr(text, 60)+" shows other rows afterwards")
					break
				}
			}
			exec("UNSET @%ENV14; UNSET @%ENV14B; DISPOSE @s14; DISPOSE @i14; DISPOSE @q14; DISPOSE @fmt14; DISPOSE @dot14;")
			// rows derived from the cached table before a change (a view materialised from it, an open cursor, a variable)
			// are only read by the later UPDATE of the table: they keep their values
			exec("UPDATE t SET c1 = c1 WHERE id = 1;") // the table is now held as an updatable cached copy
			exec("DECLARE snap14 VIEW AS SELECT id, c1, c2 FROM t;")
			exec("DECLARE curd14 CURSOR FOR SELECT id, c1 FROM t; OPEN curd14;")
			exec("VAR @d14 := (SELECT c1 FROM t WHERE id = 2);")
			d0 := exec("SELECT * FROM snap14;")
			v0 := exec("SELECT @d14;")
			exec("UPDATE t SET c1 = 'changed14', c2 = c3;")
			exec("UPDATE t SET c3 = c1, c1 = c3 WHERE id <= 3;")
			d1 := exec("SELECT * FROM snap14;")
			v1 := exec("SELECT @d14;")
			if !same(d0, d1) {
				viol("derived-rows-changed", "a view materialised from the table before an UPDATE of the table shows other rows after it")
			}
			if !same(v0, v1) {
				viol("derived-rows-changed", fmt.Sprintf("a variable assigned from a cell was %v and is %v after an UPDATE of the table", resText(v0), resText(v1)))
			}
			exec("VAR @f14a; VAR @f14b; FETCH ABSOLUTE 1 curd14 INTO @f14a, @f14b;")
			if len(tab0.Views) == 1 && len(tab0.Views[0].Rows) > 1 {
				if f := exec("SELECT @f14b;"); f.Err == nil && len(f.Views) == 1 && f.Views[0].Rows[0][0] != tab0.Views[0].Rows[1][1] {
					viol("derived-rows-changed", fmt.Sprintf("a cursor opened before the UPDATE returns %v for a cell that held %v", f.Views[0].Rows[0][0], tab0.Views[0].Rows[1][1]))
				}
			}
			exec("CLOSE curd14; DISPOSE CURSOR curd14; DISPOSE VIEW snap14; DISPOSE @d14; DISPOSE @f14a; DISPOSE @f14b; ROLLBACK;")
		}
		s.Close()
		st := verifhook.TakeDiscardStats(true)
		if mode == "poison" {
			w.Count("discards_observed", int64(st.Discarded))
			if len(st.DoubleDiscards) > 0 {
				viol("double-discard", fmt.Sprintf("an object was discarded twice: %v", st.DoubleDiscards[0]))
			}
		}
	}
	verifhook.SetPoison(false)
	if i < 60 && i%4 == 0 {
		w.Sample(map[string]interface{}{"expression": expr, "as_cells": cellExpr, "as_variables": varExpr})
	}
	w.Case(core.Digest(expr), okEmbeddings >= 3)
}

func resText(r core.ExecResult) string {
	if r.Err != nil {
		return "error: " + truncateStr(r.Err.Error(), 80)
	}
	var p []string
	for _, v := range r.Views {
		for k, row := range v.Rows {
			if k > 2 {
				break
			}
			p = append(p, strings.Join(valsToStrs(row), ","))
		}
	}
	if len(r.Views) > 0 {
		return "[" + strings.Join(p, "; ") + "]"
	}
	return strings.TrimSpace(truncateStr(r.Stdout, 60))
}

// viewRows renders the rows of a view without its header (labels differ between operand carriers).
func viewRows(t *core.Table) string {
	var sb strings.Builder
	for _, r := range t.Rows {
		sb.WriteString(strings.Join(valsToStrs(r), ","))
		sb.WriteString("\n")
	}
	return sb.String()
}
