package main

import (
	"fmt"
	"os"
	"path/filepath"
	"sort"
	"strings"
	"time"

	"github.com/mithrandie/csvq/lib/query"

	"verif/internal/core"
)

func init() {
	core.Register(&core.Spec{
		ID: "C19", Level: "exploration",
		Rule: "case kinds (i mod 4): 0,1 = loader fuzz, in-process: 120 byte strings per case (random bytes, well-formed files of each format mutated at byte level, truncated multi-byte sequences, lone quotes, NULs, BOMs, long fields, empty input, only line breaks) x format function CSV/TSV-delimiter/FIXED(SPACES | explicit positions incl. out of range)/LTSV/JSON/JSONL x encoding (AUTO, UTF8, UTF8M, UTF16 variants, SJIS) x no_header x without_null x ALLOW_UNEVEN_FIELDS x json query; oracle: a documented error or a rectangular table. " +
			"2 = program fuzz, in-process: every built-in function (table enumerated at run time), aggregate and analytic function and the LIMIT/OFFSET/PERCENT/WITH TIES/NTILE/NTH_VALUE/LAG clauses with boundary arguments (0, -1, int64 bounds, 1e308, NaN, '', NULL, wrong type, too few/many), deep nesting and recursion limits; a sample is re-run through the real binary to check the exit code set. 3 = file-system states through the real binary: missing file, directory in place of a file, unreadable file and read-only directory (child run as uid 65534), removed working directory, --repository / --out pointing nowhere, ENOSPC/EIO injected into the k-th write with strace. " +
			"Violations: '[Fatal Error]' / panic / Go runtime dump, an exit status outside {0,1,2,4,8,16,32,64, requested codes}, death by a signal, a hang (watchdog), a loaded table with a record whose length differs from the header. non-trivial = the input was really handed to the loader / the program parsed / the scenario ran; distinct = digest of input+options.",
		Quick: 400, Thorough: 20000, FloorQuick: 10000, FloorThorough: 500000,
		HangIsViol:  true,
		CaseTimeout: 240 * time.Second,
		Assumptions: []string{"'documented error' is judged by exit code and absence of the internal-failure markers, not by message text", "permission states use --wait-timeout 0.1: a lock file that cannot be created is retried until the timeout (documented exit code 8)"},
		Setup:       func(w *core.Worker) { core.HermeticProcess(w.Work); c18LoadSeeds() },
		Fn:          c19Case,
	})
}

type c19Replay struct {
	Kind    string `json:"kind"`
	Query   string `json:"query"`
	Input   []byte `json:"input_bytes,omitempty"`
	Options string `json:"options,omitempty"`
	Detail  string `json:"detail"`
}

var c19Encodings = []string{"AUTO", "UTF8", "UTF8M", "UTF16", "UTF16BE", "UTF16LE", "UTF16BEM", "UTF16LEM", "SJIS"}

func c19WellFormed(r *core.Rng, format string) []byte {
	n := []int{0, 1, 2, 5, 301}[r.Intn(5)]
	vals := []string{"a", "b c", "1", "2.5", "", "日本語", "x\"y", "p,q", "t\tu", "long " + strings.Repeat("z", r.Range(0, 300)), "é"}
	t := genTable(r, "t", n, []colProfile{{Kind: "v", Vals: vals, NullPct: 10}, {Kind: "v", Vals: vals, NullPct: 10}}, []string{"c1", "c2"})
	switch format {
	case "FIXED":
		var sb strings.Builder
		sb.WriteString("id    c1        c2   \n")
		for _, row := range t.Rows {
			f := func(c *string, w int) string {
				s := ""
				if c != nil {
					s = strings.Map(func(r rune) rune {
						if r < 32 {
							return ' '
						}
						return r
					}, *c)
				}
				if len(s) > w {
					s = s[:w]
				}
				return fmt.Sprintf("%-*s", w, s)
			}
			sb.WriteString(f(row[0], 6) + f(row[1], 10) + f(row[2], 5) + "\n")
		}
		return []byte(sb.String())
	case "LTSV":
		for _, row := range t.Rows {
			for j := range row {
				if row[j] != nil {
					s := strings.NewReplacer("\t", " ", "\n", " ").Replace(*row[j])
					row[j] = &s
				}
			}
		}
		return []byte(renderFile("ltsv", t))
	case "JSON":
		return []byte(renderFile("json", t))
	case "JSONL":
		return []byte(renderFile("jsonl", t))
	case "TSV":
		return []byte(renderFile("tsv", t))
	}
	return []byte(t.CSV())
}

func c19MutateBytes(r *core.Rng, b []byte) []byte {
	b = append([]byte{}, b...)
	for n := r.Range(0, 5); n > 0; n-- {
		switch r.Intn(10) {
		case 0:
			if len(b) > 0 {
				b[r.Intn(len(b))] = byte(r.Intn(256))
			}
		case 1:
			if len(b) > 0 {
				b = b[:r.Intn(len(b))]
			}
		case 2:
			sp := [][]byte{{0}, {0xEF, 0xBB, 0xBF}, {0xFF, 0xFE}, {0xFE, 0xFF}, []byte("\""), []byte("\"\""), []byte("\r"), []byte("\r\n"), []byte("\n\n"), {0x82}, {0xE3, 0x81}, []byte(","), []byte("\t"), []byte(":"), []byte("{"), []byte("]"), []byte("\\")}
			i := r.Intn(len(b) + 1)
			b = append(b[:i], append(append([]byte{}, sp[r.Intn(len(sp))]...), b[i:]...)...)
		case 3:
			if len(b) > 2 {
				i := r.Intn(len(b) - 1)
				j := i + r.Intn(minInt(len(b)-i, 30))
				b = append(b[:j], append(append([]byte{}, b[i:j]...), b[j:]...)...)
			}
		case 4:
			if len(b) > 2 {
				i := r.Intn(len(b) - 1)
				j := i + r.Intn(minInt(len(b)-i, 10))
				b = append(b[:i], b[j:]...)
			}
		case 5:
			// re-encode as UTF-16 LE/BE with or without BOM
			var o []byte
			be := r.Bool()
			if r.Bool() {
				if be {
					o = append(o, 0xFE, 0xFF)
				} else {
					o = append(o, 0xFF, 0xFE)
				}
			}
			for _, ru := range string(b) {
				if ru > 0xFFFF {
					ru = '?'
				}
				if be {
					o = append(o, byte(ru>>8), byte(ru))
				} else {
					o = append(o, byte(ru), byte(ru>>8))
				}
			}
			b = o
		case 6:
			b = append(b, []byte(strings.Repeat("x", r.Range(1, 3000)))...)
		}
	}
	return b
}

func c19Loader(w *core.Worker, i int) {
	r := w.Rng(i, "loader")
	s, err := core.NewSess(core.SessOpts{Dir: w.Work, Quiet: true, CPU: 2})
	if err != nil {
		w.Inconclusive(err.Error())
		return
	}
	defer func() { s.Close() }()
	cur := filepath.Join(w.Work, "current-input.bin")
	loaded, rejected := 0, 0
	for k := 0; k < 120; k++ {
		format := []string{"CSV", "CSV", "TSV", "FIXED", "LTSV", "JSON", "JSONL"}[r.Intn(7)]
		var data []byte
		switch r.Intn(8) {
		case 0:
			data = make([]byte, r.Range(0, 200))
			for j := range data {
				data[j] = byte(r.Intn(256))
			}
		case 1:
			data = []byte(strings.Repeat([]string{"\n", "\r\n", "\r", "\"", ",", "\t", "\x00"}[r.Intn(7)], r.Range(0, 20)))
		case 2:
			data = c19WellFormed(r, format)
		default:
			data = c19MutateBytes(r, c19WellFormed(r, format))
		}
		nested := (format == "JSON" || format == "JSONL") && r.P(35)
		if nested {
			// structured documents: nested arrays (also empty ones), objects, scalars where an array is expected — read through
			// queries that walk into them
			var docs []string
			for n := r.Range(1, 5); n > 0; n-- {
				items := []string{`[{"a":1,"b":"x"},{"a":2}]`, `[]`, `[{"a":3}]`, `null`, `{}`, `"text"`, `[1,2]`, `[[]]`, `[{}]`, `[null]`}[r.Intn(10)]
				docs = append(docs, fmt.Sprintf(`{"id":%d,"items":%s,"o":{"items":%s}}`, n, items, []string{"[]", `[{"a":9}]`, "null"}[r.Intn(3)]))
			}
			if format == "JSON" {
				data = []byte([]string{"[" + strings.Join(docs, ",") + "]", docs[0], "[]", "{}", `{"items":[]}`}[r.Intn(5)])
			} else {
				data = []byte(strings.Join(docs, "\n") + "\n")
			}
			if r.P(20) {
				data = c19MutateBytes(r, data)
			}
		}
		fname := fmt.Sprintf("f%d.dat", k%7)
		enc := c19Encodings[r.Intn(len(c19Encodings))]
		nh, wn := []string{"FALSE", "TRUE"}[r.Intn(2)], []string{"FALSE", "TRUE"}[r.Intn(2)]
		var from string
		switch format {
		case "CSV":
			d := []string{",", ";", "|", " ", "\\t", "a", "\""}[r.Intn(7)]
			from = fmt.Sprintf("CSV('%s', `%s`, %s, %s, %s)", d, fname, enc, nh, wn)
		case "TSV":
			from = fmt.Sprintf("CSV('\\t', `%s`, %s, %s, %s)", fname, enc, nh, wn)
		case "FIXED":
			p := []string{"SPACES", "[6, 16, 21]", "[1]", "[0]", "[5, 3]", "[100, 200]", "[]", "S[2, 4]", "[2,2,2]", "SPACES"}[r.Intn(10)]
			from = fmt.Sprintf("FIXED('%s', `%s`, %s, %s, %s)", p, fname, enc, nh, wn)
		case "LTSV":
			from = fmt.Sprintf("LTSV(`%s`, %s, %s)", fname, enc, wn)
		case "JSON", "JSONL":
			q := []string{"", "{}", "[]", "{c1}", "[0]", "a.b", "{c1, c2 as x}", "[", "{id, id}"}[r.Intn(9)]
			if nested {
				q = []string{"items[]", "items[0]", "items{}", "items{a}", "items[].a", "items", "id", "items[5]", "o.items[]", "o.items", "[].items[]", "[0].items[]", "[]", "{}", "items[][]", "items{a, b as c}"}[r.Intn(16)]
				w.Count("loads_of_nested_documents", 1)
			}
			from = fmt.Sprintf("%s('%s', `%s`)", format, q, fname)
		}
		uneven := r.Bool()
		opts := fmt.Sprintf("format=%s from=%s allow_uneven=%v", format, from, uneven)
		_ = os.WriteFile(filepath.Join(w.Work, fname), data, 0644)
		_ = os.WriteFile(cur, append([]byte(opts+"\n"), data...), 0644)
		s.Exec(fmt.Sprintf("SET @@ALLOW_UNEVEN_FIELDS TO %v;", uneven))
		q := "SELECT * FROM " + from + " x;"
		w.Step(60*time.Second, fmt.Sprintf("loader: %s [%s] over the %d bytes in %s", q, opts, len(data), cur))
		res := s.Exec(q)
		dg := core.Digest(string(data), opts)
		viol := func(sig, what string) {
			w.Violation(sig, fmt.Sprintf("%s [%s, %d input bytes]: %s", q, opts, len(data), what), c19Replay{Kind: "loader", Query: q, Input: data, Options: opts, Detail: what})
		}
		if res.Panic != "" || core.IsFatal(res.Err) {
			if res.Panic != "" {
				viol("panic:"+truncateStr(res.Panic, 60), "panic escaped: "+res.Panic)
			} else {
				viol("fatal:"+c19FatalSig(res.Err.Error()), truncateStr(res.Err.Error(), 400))
			}
			// the real process would be gone now; the session may hold a mutex it took before the panic: leave it behind
			if ns, nerr := core.NewSess(core.SessOpts{Dir: w.Work, Quiet: true, CPU: 2}); nerr == nil {
				s = ns
			}
			w.Case(dg, true)
			continue
		} else if res.Err == nil && len(res.Views) == 1 {
			loaded++
			v := res.Views[0]
			for ri, row := range v.Rows {
				if len(row) != len(v.Header) {
					viol("not-rectangular:"+format, fmt.Sprintf("record %d has %d fields, the header has %d", ri, len(row), len(v.Header)))
					break
				}
			}
		} else {
			rejected++
		}
		// the transaction keeps loaded files cached and locked: release them
		s.Exec("ROLLBACK;")
		w.Case(dg, true)
	}
	w.Step(0, "")
	w.Count("loader_inputs_loaded", int64(loaded))
	w.Count("loader_inputs_rejected", int64(rejected))
	if i < 2 {
		w.Sample(map[string]interface{}{"kind": "loader", "example": "SELECT * FROM CSV(';', `f1.dat`, SJIS, TRUE, FALSE) x over mutated bytes", "loaded": loaded, "rejected": rejected})
	}
}

func c19FatalSig(msg string) string {
	// first line of the message + first csvq frame that is not the recover handler
	first := strings.SplitN(msg, "\n", 2)[0]
	fr := ""
	for _, l := range strings.Split(msg, "\n") {
		if strings.Contains(l, "github.com/mithrandie/csvq/lib/") && !strings.Contains(l, "execute.func1") && !strings.Contains(l, ".run.func1") {
			f := strings.Fields(l)
			if len(f) >= 2 {
				fr = f[1]
				if k := strings.LastIndex(fr, "/"); k >= 0 {
					fr = fr[k+1:]
				}
				break
			}
		}
	}
	return truncateStr(first, 80) + "@" + fr
}

var c19Bounds = []string{"0", "-1", "1", "2", "9223372036854775807", "INTEGER::MIN", "1e308", "-1e308", "FLOAT('NaN')", "FLOAT('Inf')", "''", "NULL", "'abc'", "TRUE", "DATETIME('2012-02-03')", "'%'", "100000", "0.5", "'UTF8'", "'\\'"}

func c19Programs(r *core.Rng, n int) []string {
	var names []string
	for k := range query.Functions {
		names = append(names, k)
	}
	sort.Strings(names)
	names = append(names, "NOW", "JSON_OBJECT")
	b := func() string { return c19Bounds[r.Intn(len(c19Bounds))] }
	var out []string
	for len(out) < n {
		switch r.Intn(19) {
		case 18:
			// one file reached through every way of naming it, in every order, inside one transaction: what a later access
			// finds cached (with or without an open handler) depends on the earlier ones
			csvForms := []string{"t", "`t.csv`", "FILE::('t.csv')", "INLINE::('t.csv')", "file:./t.csv", "CSV(',', `t.csv`)", "CSV(',', t)", "CSV(',', INLINE::('t.csv'))", "CSV(',', FILE::('t.csv'))", "CSV_INLINE(',', `t.csv`)", "CSV_INLINE(',', t)", "CSV(',', file:./t.csv)", "CSV(',', DATA::('id,k,v\n1,a,1'))", "CSV_INLINE(',', 'id,k,v\n1,a,1')", "LTSV(`t.csv`)", "FIXED('[1,3]', `t.csv`)"}
			jsonForms := []string{"j", "`j.json`", "FILE::('j.json')", "INLINE::('j.json')", "JSON('', `j.json`)", "JSON('', j)", "JSON_INLINE('', `j.json`)", "JSON_INLINE('', j)", "JSON('', INLINE::('j.json'))", "JSON_TABLE('', `j.json`)", "JSON('', file:./j.json)", "JSONL('', `j.json`)", "JSON_INLINE('', '[{\"id\":1}]')"}
			forms := csvForms
			if r.P(35) {
				forms = jsonForms
			}
			var sb strings.Builder
			for k := r.Range(2, 4); k > 0; k-- {
				f := forms[r.Intn(len(forms))]
				switch r.Intn(7) {
				case 0, 1, 2:
					fmt.Fprintf(&sb, "SELECT COUNT(*) FROM %s x; ", f)
				case 3:
					fmt.Fprintf(&sb, "SELECT COUNT(*) FROM %s x FOR UPDATE; ", f)
				case 4:
					fmt.Fprintf(&sb, "UPDATE %s SET id = id; ", f)
				case 5:
					fmt.Fprintf(&sb, "DELETE FROM %s WHERE id = 1; ", f)
				default:
					fmt.Fprintf(&sb, "SELECT COUNT(*) FROM %s x JOIN %s y ON x.id = y.id; ", f, forms[r.Intn(len(forms))])
				}
			}
			out = append(out, sb.String())
		case 16:
			// format strings: every verb with a flag, widths and precisions around the length of the operand
			verbs := []string{"s", "s", "q", "i", "T", "d", "b", "o", "x", "X", "e", "E", "f", "%", "z", ""}
			flagsF := []string{"", "", "-", "+", " ", "0", "+0", "#"}
			nums := []string{"", "", "0", "1", "2", "5", "9", "40", "100", "1000000", "99999999999999999999"}
			spec := func() string {
				f := "%" + flagsF[r.Intn(len(flagsF))] + nums[r.Intn(len(nums))]
				if r.P(60) {
					f += "." + nums[r.Intn(len(nums))]
				}
				return f + verbs[r.Intn(len(verbs))]
			}
			ops := []string{"'abc'", "''", "'né'", "NULL", "12", "-1.5", "TRUE", "'2012-02-03 09:18:15'", "c1", "id", b()}
			var fs, as, ps []string
			for k := r.Range(1, 2); k > 0; k-- {
				sp := spec()
				fs = append(fs, sp)
				if !strings.HasSuffix(sp, "%") || r.P(10) {
					o := ops[r.Intn(len(ops))]
					as = append(as, o)
					ps = append(ps, map[string]string{"c1": "'c'", "id": "7"}[o]+map[bool]string{true: o, false: ""}[o != "c1" && o != "id"])
				}
			}
			f := core.SQLStr(strings.Join(fs, "|"))
			if len(as) == 0 {
				out = append(out, "SELECT FORMAT("+f+") FROM t; PRINTF "+f+";")
			} else {
				out = append(out, "SELECT FORMAT("+f+", "+strings.Join(as, ", ")+") FROM t; PRINTF "+f+" USING "+strings.Join(ps, ", ")+";")
			}
		case 17:
			// prepared statements that hold no statement, several statements, or no query — wherever a prepared statement is used
			body := []string{"''", "'  '", "'-- only a comment'", "'/* c */'", "';'", "'SELECT 1; SELECT 2'", "'VAR @p19 := 1'", "'SELECT ?'", "'COMMIT'", "'SELECT * FROM t WHERE id = ?'", b()}[r.Intn(11)]
			use := []string{"EXECUTE p19;", "EXECUTE p19 USING 1;", "DECLARE c19 CURSOR FOR p19; OPEN c19; CLOSE c19; DISPOSE CURSOR c19;", "DECLARE c19 CURSOR FOR p19; OPEN c19 USING 1, 2; DISPOSE CURSOR c19;", "DECLARE c19 CURSOR FOR p19; SHOW CURSORS; OPEN c19; VAR @f19; FETCH c19 INTO @f19; DISPOSE CURSOR c19; DISPOSE @f19;", "SHOW STATEMENTS;"}[r.Intn(6)]
			out = append(out, "PREPARE p19 FROM "+body+"; "+use+" DISPOSE PREPARE p19;")
		case 0, 1, 2, 3, 4:
			fn := names[r.Intn(len(names))]
			if fn == "CALL" {
				continue
			}
			var args []string
			for k := r.Intn(5); k > 0; k-- {
				args = append(args, b())
			}
			out = append(out, "SELECT "+fn+"("+strings.Join(args, ", ")+");")
		case 5:
			var ag []string
			for k := range query.AggregateFunctions {
				ag = append(ag, k)
			}
			sort.Strings(ag)
			ag = append(ag, "LISTAGG", "JSON_AGG")
			fn := ag[r.Intn(len(ag))]
			arg := []string{"v", "*", "DISTINCT v", b(), "v, " + b(), ""}[r.Intn(6)]
			out = append(out, fmt.Sprintf("SELECT %s(%s) FROM t;", fn, arg), fmt.Sprintf("SELECT k, %s(%s) FROM t GROUP BY k;", fn, arg))
		case 6:
			var an []string
			for k := range query.AnalyticFunctions {
				an = append(an, k)
			}
			sort.Strings(an)
			fn := an[r.Intn(len(an))]
			sb := func() string {
				return []string{"-1", "-2", "0", "1", "2", "100", "-9223372036854775807", "9223372036854775807", "NULL", "'x'", "1.5", "TRUE"}[r.Intn(12)]
			}
			arg := []string{"", "v", b(), "v, " + b(), "v, " + b() + ", " + b(), "v, " + sb(), "v, " + sb() + ", " + sb(), sb()}[r.Intn(8)]
			// (also frames that hold no row for some or all records: both bounds on one side of the current row, reversed bounds)
			fr := []string{"", " ROWS " + b() + " PRECEDING", " ROWS BETWEEN " + b() + " PRECEDING AND " + b() + " FOLLOWING", " ROWS BETWEEN UNBOUNDED PRECEDING AND CURRENT ROW",
				" ROWS BETWEEN 2 PRECEDING AND 1 PRECEDING", " ROWS BETWEEN 1 FOLLOWING AND 2 FOLLOWING", " ROWS BETWEEN 1 FOLLOWING AND 1 PRECEDING", " ROWS BETWEEN " + sb() + " FOLLOWING AND " + sb() + " FOLLOWING", " ROWS BETWEEN " + sb() + " PRECEDING AND " + sb() + " PRECEDING",
				" ROWS BETWEEN CURRENT ROW AND 1 PRECEDING", " ROWS BETWEEN UNBOUNDED FOLLOWING AND UNBOUNDED PRECEDING"}[r.Intn(11)]
			out = append(out, fmt.Sprintf("SELECT id, %s(%s) OVER (PARTITION BY k ORDER BY v%s) FROM t;", fn, arg, fr), fmt.Sprintf("SELECT v, %s(%s) OVER (ORDER BY id%s) AS a, k FROM %s;", fn, arg, fr, []string{"t", "one", "e", "big"}[r.Intn(4)]))
		case 7:
			cl := []string{"LIMIT " + b(), "LIMIT " + b() + " PERCENT", "LIMIT " + b() + " WITH TIES", "OFFSET " + b(), "LIMIT " + b() + " OFFSET " + b(), "LIMIT " + b() + " PERCENT WITH TIES OFFSET " + b(), "FETCH FIRST " + b() + " ROWS ONLY"}[r.Intn(7)]
			ob := []string{"", "ORDER BY v ", "ORDER BY v DESC NULLS LAST, k "}[r.Intn(3)]
			out = append(out, "SELECT id FROM t "+ob+cl+";")
		case 8:
			d := []int{50, 200, 600}[r.Intn(3)]
			out = append(out, "SELECT "+strings.Repeat("(", d)+"1"+strings.Repeat(")", d)+";", "SELECT "+strings.Repeat("-", d)+"1;")
			sq := "SELECT 1"
			for k := 0; k < 25; k++ {
				sq = "SELECT (" + sq + ")"
			}
			out = append(out, sq+";")
		case 9:
			out = append(out, fmt.Sprintf("WITH RECURSIVE n (i) AS (SELECT 1 UNION ALL SELECT i + 1 FROM n WHERE i < %s) SELECT COUNT(*) FROM n;", []string{"5", "2000", "NULL", "-1"}[r.Intn(4)]),
				"SET @@LIMIT_RECURSION TO "+[]string{"0", "-1", "5", "NULL", "'x'"}[r.Intn(5)]+"; WITH RECURSIVE n (i) AS (SELECT 1 UNION ALL SELECT i + 1 FROM n WHERE i < 50) SELECT COUNT(*) FROM n;")
		case 10:
			out = append(out, "DECLARE c CURSOR FOR SELECT id FROM t; OPEN c; VAR @x; FETCH ABSOLUTE "+b()+" c INTO @x; FETCH RELATIVE "+b()+" c INTO @x; PRINT @x;",
				"SELECT SUBSTR('abc', "+b()+", "+b()+"), SUBSTRING('abc' FROM "+b()+" FOR "+b()+"), LPAD('a', "+b()+", "+b()+"), REPLACE('a', '', "+b()+");")
		case 14:
			// every output format rendering values that are awkward to lay out
			fm := []string{"TEXT", "BOX", "GFM", "ORG", "CSV", "TSV", "FIXED", "JSON", "JSONL", "LTSV"}[r.Intn(10)]
			hv := []string{"'abc\r'", "'\r'", "'a\r\nb'", "'a\nb\n'", "'\n'", "''", "'\t'", "' '", "'日本語の値'", "'e\u0301'", "'🙂🙂'", "'a|b'", "'\\'", "LPAD('x', 300, 'x')", "NULL", "TRUE", "1e308", "DATETIME('2012-02-03')", "'\x1b[31mred'", "'a\u200bb'", "'ＡＢＣ'"}
			pick := func() string { return hv[r.Intn(len(hv))] }
			opt := []string{"", "SET @@EAST_ASIAN_ENCODING TO TRUE; ", "SET @@COUNT_DIACRITICAL_SIGN TO TRUE; ", "SET @@COUNT_FORMAT_CODE TO TRUE; ", "SET @@PRETTY_PRINT TO TRUE; ", "SET @@WITHOUT_HEADER TO TRUE; ", "SET @@ENCLOSE_ALL TO TRUE; ", "SET @@COLOR TO TRUE; ", "SET @@JSON_ESCAPE TO HEXALL; "}[r.Intn(9)]
			out = append(out, fmt.Sprintf("SET @@FORMAT TO %s; %sSELECT %s AS a, %s AS `b\rc`, %s; SELECT %s AS x FROM t; SELECT * FROM e; SET @@FORMAT TO CSV;", fm, opt, pick(), pick(), pick(), pick()))
		case 13:
			// boundary values as operands of statements (not of functions)
			flags := []string{"@@DELIMITER", "@@FORMAT", "@@LINE_BREAK", "@@TIMEZONE", "@@CPU", "@@WAIT_TIMEOUT", "@@LIMIT_RECURSION", "@@DATETIME_FORMAT", "@@ENCODING", "@@WRITE_ENCODING", "@@JSON_ESCAPE", "@@STRICT_EQUAL", "@@QUIET", "@@NO_SUCH_FLAG"}
			fl := flags[r.Intn(len(flags))]
			cands := []string{
				"EXECUTE " + b() + ";", "EXECUTE " + b() + " USING " + b() + ";", "EXECUTE 'SELECT %s, %s' USING " + b() + ";", "SOURCE " + b() + ";",
				"PREPARE p19 FROM " + b() + ";", "PREPARE p19 FROM 'SELECT ?, ?'; EXECUTE p19 USING " + b() + "; DISPOSE PREPARE p19;", "PREPARE p19 FROM 'SELECT :a'; EXECUTE p19 USING " + b() + " AS a, " + b() + " AS zz; DISPOSE PREPARE p19;",
				"SET " + fl + " TO " + b() + ";", "ADD " + b() + " TO @@DATETIME_FORMAT;", "REMOVE " + b() + " FROM @@DATETIME_FORMAT;", "SHOW " + fl + ";",
				"PRINT " + b() + ";", "ECHO " + b() + ";", "PRINTF " + b() + " USING " + b() + ", " + b() + ";", "PRINTF '%s %d %f %q %i %T %%' USING " + b() + ", " + b() + ";",
				"TRIGGER ERROR " + b() + " " + b() + ";", "TRIGGER ERROR " + b() + ";", "IF " + b() + " THEN PRINT 1; ELSEIF " + b() + " THEN PRINT 2; END IF;", "CASE " + b() + " WHEN " + b() + " THEN PRINT 1; ELSE PRINT 2; END CASE;",
				"VAR @w19 := 0; WHILE @w19 < 2 AND " + b() + " DO @w19 := @w19 + 1; END WHILE; DISPOSE @w19;", "DECLARE f19 FUNCTION (@a DEFAULT " + b() + ") AS BEGIN RETURN @a; END; SELECT f19(), f19(" + b() + "); DISPOSE FUNCTION f19;",
				"SYNTAX " + b() + ";", "SHOW FIELDS FROM t;", "SHOW " + []string{"TABLES", "VIEWS", "CURSORS", "FUNCTIONS", "STATEMENTS", "FLAGS", "ENV", "RUNINFO", "NOTHING"}[r.Intn(9)] + ";",
				"DECLARE v19 VIEW (a, b) AS SELECT " + b() + ", " + b() + "; SELECT * FROM v19; DISPOSE VIEW v19;", "CREATE TABLE `n19.csv` (a, a2) AS SELECT " + b() + ", " + b() + "; ROLLBACK;",
				"SELECT " + b() + " INTO @nosuch FROM t;", "VAR @i19; SELECT id INTO @i19 FROM t WHERE id = " + b() + "; DISPOSE @i19;", "SELECT * FROM t WHERE id = " + b() + " FOR UPDATE; ROLLBACK;",
				// a name repeated where a list of distinct names is expected
				[]string{"REPLACE INTO t (id, k) USING (id, id, id) VALUES (1, 'z'); ROLLBACK;", "REPLACE INTO t (id, k) USING (id, id) SELECT id, k FROM d; ROLLBACK;", "REPLACE INTO t (id) USING (id, k) VALUES (1); ROLLBACK;", "REPLACE INTO t (id, id, k) USING (id) VALUES (1, 2, 'z'); ROLLBACK;",
					"INSERT INTO t (id, id) VALUES (1, 2); ROLLBACK;", "INSERT INTO t (id, k, v, id) SELECT id, k, v, id FROM d; ROLLBACK;", "UPDATE t SET v = 1, v = 2; ROLLBACK;", "ALTER TABLE t DROP (v, v); ROLLBACK;", "ALTER TABLE t ADD (n1, n1); ROLLBACK;",
					"ALTER TABLE t ADD (n1, n2) AFTER nosuch; ROLLBACK;", "ALTER TABLE t RENAME v TO v; ROLLBACK;", "ALTER TABLE t RENAME v TO k; ROLLBACK;", "SELECT * FROM t ORDER BY v, v, 1, 1;", "SELECT k, k, COUNT(*) FROM t GROUP BY k, k;",
					"SELECT SUM(id) OVER (PARTITION BY k, k ORDER BY v, v) FROM t;", "SELECT * FROM t x JOIN d y USING (id, id);", "SELECT DISTINCT k, k FROM t;", "DECLARE v19 VIEW (a, a) AS SELECT 1, 2;", "DECLARE f19 FUNCTION (@a, @a) AS BEGIN RETURN @a; END;",
					"DECLARE a19 AGGREGATE (c, c) AS BEGIN RETURN 1; END;", "VAR @d19, @d19;", "WITH w (a, a) AS (SELECT 1, 2) SELECT * FROM w;", "WITH w AS (SELECT 1), w AS (SELECT 2) SELECT * FROM w;", "SELECT 1 AS a, 2 AS a FROM t ORDER BY a;",
					"SELECT * FROM t x JOIN t x ON 1 = 1;", "DELETE x, x FROM t x; ROLLBACK;", "UPDATE t x, t x SET x.v = 1 FROM t x; ROLLBACK;"}[r.Intn(27)],
				"SET @%NOSUCH19 TO " + b() + "; UNSET @%NOSUCH19;", "SELECT @%HOME, @#VERSION, @#NOSUCH;", "CHDIR " + b() + ";", "PWD;", "RELOAD CONFIG;",
			}
			out = append(out, cands[r.Intn(len(cands))])
		case 11, 12:
			// relational operators over degenerate operands: an empty table, tables without a common key, one row, and
			// tables large enough to be split over workers (so that single workers see no row / no match)
			tabs := []string{"t", "e", "d", "one", "big", "big2", "(SELECT * FROM big WHERE id < 0)", "(SELECT * FROM big WHERE id > 390)",
				// tables without columns: one record, two records, none; and a one-column table
				"JSON_TABLE('', '[{}]')", "JSON_TABLE('', '[{},{}]')", "JSON_TABLE('', '[]')", "z", "JSON_TABLE('', '[{\"id\":1}]')"}
			A, B := tabs[r.Intn(len(tabs))], tabs[r.Intn(len(tabs))]
			jk := []string{"INNER", "LEFT", "RIGHT", "FULL", "LEFT OUTER", "FULL OUTER"}[r.Intn(6)]
			switch r.Intn(14) {
			case 12, 13:
				// a whole row wherever one value, or as many values as names, are expected
				out = append(out, []string{
					fmt.Sprintf("VAR @a19; SELECT * INTO @a19 FROM %s x; DISPOSE @a19;", A),
					fmt.Sprintf("VAR @a19, @b19, @c19; SELECT * INTO @a19, @b19, @c19 FROM %s x LIMIT 1; DISPOSE @a19; DISPOSE @b19; DISPOSE @c19;", A),
					fmt.Sprintf("DECLARE c19 CURSOR FOR SELECT * FROM %s x; OPEN c19; VAR @x19; FETCH c19 INTO @x19; WHILE @x19 IN c19 DO PRINT @x19; END WHILE; CLOSE c19; DISPOSE CURSOR c19; DISPOSE @x19;", A),
					fmt.Sprintf("DECLARE c19 CURSOR FOR SELECT * FROM %s x; OPEN c19; VAR @x19, @y19, @z19; FETCH c19 INTO @x19, @y19, @z19; DISPOSE CURSOR c19; DISPOSE @x19; DISPOSE @y19; DISPOSE @z19;", A),
					fmt.Sprintf("SELECT (SELECT * FROM %s x LIMIT 1); SELECT 1 WHERE 1 = (SELECT * FROM %s x LIMIT 1); SELECT 1 WHERE (1, 2, 3) = (SELECT * FROM %s x LIMIT 1);", A, A, A),
					fmt.Sprintf("SELECT 1 WHERE 1 IN (SELECT * FROM %s x); SELECT 1 WHERE (1, 2) IN (SELECT * FROM %s x); SELECT 1 WHERE 1 > ANY (SELECT * FROM %s x); SELECT 1 WHERE EXISTS (SELECT * FROM %s x);", A, A, A, A),
					fmt.Sprintf("INSERT INTO t SELECT * FROM %s x; ROLLBACK; INSERT INTO one SELECT * FROM %s x; ROLLBACK; REPLACE INTO one (id) USING (id) SELECT * FROM %s x; ROLLBACK;", A, A, A),
					fmt.Sprintf("SELECT * FROM %s x UNION SELECT * FROM %s y; SELECT * FROM %s x EXCEPT SELECT * FROM %s y; SELECT DISTINCT * FROM %s x; SELECT * FROM %s x ORDER BY 1;", A, B, A, B, A, A),
					fmt.Sprintf("CREATE TABLE `n19.csv` AS SELECT * FROM %s x; ROLLBACK; DECLARE v19 VIEW AS SELECT * FROM %s x; SELECT * FROM v19; DISPOSE VIEW v19; DECLARE v19 VIEW (a) AS SELECT * FROM %s x; DISPOSE VIEW v19;", A, A, A),
					fmt.Sprintf("SELECT COUNT(*), COUNT(x.*), LISTAGG(1) FROM %s x; SELECT ROW_NUMBER() OVER () FROM %s x; SELECT x.*, y.* FROM %s x CROSS JOIN %s y;", A, A, A, B),
					fmt.Sprintf("DECLARE f19 FUNCTION (@a) AS BEGIN RETURN (SELECT * FROM %s x LIMIT 1); END; SELECT f19(1); DISPOSE FUNCTION f19; VAR @v19 := (SELECT * FROM %s x LIMIT 1); DISPOSE @v19;", A, A),
					fmt.Sprintf("PREPARE p19 FROM 'SELECT * INTO @q19 FROM %s x'; VAR @q19; EXECUTE p19; DISPOSE PREPARE p19; DISPOSE @q19;", strings.ReplaceAll(A, "'", "''")),
				}[r.Intn(12)])
			case 0:
				out = append(out, fmt.Sprintf("SELECT COUNT(*) FROM %s x %s JOIN %s y ON x.k = y.k;", A, jk, B))
			case 1:
				out = append(out, fmt.Sprintf("SELECT COUNT(*) FROM %s x NATURAL %s JOIN %s y;", A, jk, B), fmt.Sprintf("SELECT COUNT(*) FROM %s x %s JOIN %s y USING (k, id);", A, jk, B))
			case 2:
				out = append(out, fmt.Sprintf("SELECT COUNT(*) FROM %s x CROSS JOIN %s y;", A, B), fmt.Sprintf("SELECT COUNT(*) FROM %s x, LATERAL (SELECT * FROM %s y WHERE y.k = x.k) z;", A, B), fmt.Sprintf("SELECT COUNT(*) FROM %s x LEFT JOIN LATERAL (SELECT * FROM %s y WHERE y.id = x.id) z ON 1 = 1;", A, B))
			case 3:
				op := []string{"UNION", "UNION ALL", "EXCEPT", "EXCEPT ALL", "INTERSECT", "INTERSECT ALL"}[r.Intn(6)]
				out = append(out, fmt.Sprintf("SELECT k, v FROM %s x %s SELECT k, v FROM %s y;", A, op, B))
			case 4:
				out = append(out, fmt.Sprintf("SELECT k, COUNT(*), MAX(v), MEDIAN(v), LISTAGG(v, ',') FROM %s x GROUP BY k HAVING COUNT(*) > %d;", A, r.Intn(3)), fmt.Sprintf("SELECT COUNT(*), SUM(v), AVG(v), MIN(k), JSON_AGG(v) FROM %s x;", A))
			case 5:
				out = append(out, fmt.Sprintf("SELECT DISTINCT k, v FROM %s x ORDER BY k DESC NULLS FIRST, v LIMIT %s;", A, b()),
					// names that belong to the outer query, or to nothing, in every clause
					fmt.Sprintf("SELECT COUNT(*) FROM %s x GROUP BY nosuch; SELECT nosuch FROM %s x WHERE nosuch2 = 1 ORDER BY nosuch3;", A, A),
					fmt.Sprintf("SELECT id, (SELECT COUNT(*) FROM %s y GROUP BY x.k), (SELECT MAX(y.v) FROM %s y GROUP BY y.k HAVING x.id > 0 ORDER BY x.v LIMIT 1) FROM %s x;", B, B, A),
					fmt.Sprintf("SELECT k, COUNT(*) FROM %s x GROUP BY k HAVING nosuch > 1; SELECT k FROM %s x GROUP BY 1, 2, 99; SELECT SUM(v) OVER (PARTITION BY nosuch ORDER BY nosuch2) FROM %s x;", A, A, A))
			case 6:
				out = append(out, fmt.Sprintf("SELECT id, RANK() OVER (PARTITION BY k ORDER BY v), SUM(v) OVER (PARTITION BY k), LAG(v, 2) OVER (ORDER BY id), NTILE(3) OVER (ORDER BY id) FROM %s x;", A))
			case 7:
				out = append(out, fmt.Sprintf("SELECT COUNT(*) FROM %s x WHERE k IN (SELECT k FROM %s y) OR EXISTS (SELECT 1 FROM %s z WHERE z.k = x.k) OR v > ALL (SELECT v FROM %s w);", A, B, B, B))
			case 8:
				out = append(out, fmt.Sprintf("SELECT (SELECT MAX(v) FROM %s y WHERE y.k = x.k), (SELECT v FROM %s y WHERE y.id = x.id) FROM %s x;", B, B, A))
			case 9:
				if !strings.HasPrefix(A, "(") {
					out = append(out, fmt.Sprintf("UPDATE %s SET v = 1 WHERE k IN (SELECT k FROM %s y); DELETE FROM %s WHERE id IN (SELECT id FROM %s y); ROLLBACK;", A, B, A, B),
						fmt.Sprintf("INSERT INTO %s SELECT * FROM %s y; REPLACE INTO %s (id, k, v) USING (id) SELECT id, k, v FROM %s y; ROLLBACK;", A, B, A, B))
				}
			case 10:
				if !strings.HasPrefix(A, "(") && !strings.HasPrefix(B, "(") {
					out = append(out, fmt.Sprintf("UPDATE %s SET v = y.v FROM %s x %s JOIN %s y ON x.id = y.id; ROLLBACK;", A, A, []string{"INNER", "LEFT"}[r.Intn(2)], B), fmt.Sprintf("DELETE %s FROM %s JOIN %s y ON %s.k = y.k; ROLLBACK;", A, A, B, A))
				}
			default:
				out = append(out, fmt.Sprintf("WITH w AS (SELECT * FROM %s) SELECT COUNT(*) FROM w a %s JOIN w b ON a.id = b.id + 1;", A, jk), fmt.Sprintf("DECLARE c CURSOR FOR SELECT id FROM %s x ORDER BY id; OPEN c; VAR @x; WHILE @x IN c DO VAR @y := @x; END WHILE; CLOSE c; DISPOSE CURSOR c; DISPOSE @x;", A))
			}
		default:
			e, _, _ := c14Expr(r, r.Intn(500))
			out = append(out, "SELECT "+e+" FROM t;", "UPDATE t SET v = "+e+"; ROLLBACK;", "SELECT * FROM t WHERE "+e+";")
		}
	}
	return out[:n]
}

func c19ProgramFuzz(w *core.Worker, i int) {
	r := w.Rng(i, "prog")
	var big, big2 strings.Builder
	big.WriteString("id,k,v\n")
	big2.WriteString("id,k,v\n")
	for j := 1; j <= 400; j++ {
		// keys are clustered: the first workers of a section see only 'a', later ones only 'b' / 'c'
		fmt.Fprintf(&big, "%d,%s,%d\n", j, []string{"a", "a", "b", "c"}[(j-1)/100], j%7)
		fmt.Fprintf(&big2, "%d,%s,%d\n", j+1000, []string{"x", "y", "a", "y"}[(j-1)/100], j%5)
	}
	core.WriteFiles(w.Work, map[string]string{"t.csv": "id,k,v\n1,a,3\n2,a,\n3,b,-1\n4,b,2.5\n5,,x\n", "e.csv": "id,k,v\n", "d.csv": "id,k,v\n11,p,1\n12,q,2\n", "one.csv": "id,k,v\n1,a,1\n", "j.json": "[{\"id\":1,\"k\":\"a\"},{\"id\":2,\"k\":\"b\"}]\n", "z.json": "[{}]\n",
		"big.csv": big.String(), "big2.csv": big2.String()})
	s, err := core.NewSess(core.SessOpts{Dir: w.Work, Quiet: true, CPU: 4})
	if err != nil {
		w.Inconclusive(err.Error())
		return
	}
	defer func() { s.Close() }()
	cur := filepath.Join(w.Work, "current-program.sql")
	progs := c19Programs(r, 150)
	ok, failed := 0, 0
	for k, p := range progs {
		_ = os.WriteFile(cur, []byte(p), 0644)
		// a program of this list needs milliseconds (the joins of 400 x 400 rows well under a second); one that is still
		// running after a minute never ends (a lock taken twice, a loop that does not look at its context)
		w.Step(60*time.Second, "program: "+p)
		res := s.Exec(p)
		viol := func(sig, what string) {
			w.Violation(sig, fmt.Sprintf("%s: %s", truncateStr(p, 300), what), c19Replay{Kind: "program", Query: p, Detail: what})
		}
		if res.Panic != "" || core.IsFatal(res.Err) {
			if res.Panic != "" {
				viol("panic:"+truncateStr(res.Panic, 60), "panic escaped: "+res.Panic)
			} else {
				viol("fatal:"+c19FatalSig(res.Err.Error()), truncateStr(res.Err.Error(), 400))
			}
			if ns, nerr := core.NewSess(core.SessOpts{Dir: w.Work, Quiet: true, CPU: 4}); nerr == nil {
				s = ns // see c19Loader
			}
			w.Case(core.Digest(p), !res.SynErr)
			continue
		} else if res.Err != nil {
			failed++
			if res.Code != 1 && res.Code != 2 && res.Code != 4 && res.Code != 8 && res.Code != 16 && res.Code != 32 && res.Code != 64 && !strings.HasPrefix(p, "TRIGGER ERROR") { // TRIGGER ERROR n requests its own code
				viol("exit-code", fmt.Sprintf("error code %d is not a documented exit status: %v", res.Code, res.Err))
			}
		} else {
			ok++
		}
		s.Exec("ROLLBACK;")
		w.Case(core.Digest(p), !res.SynErr)
		// a sample through the real binary: exit code set, stderr markers
		if k%25 == 0 && !strings.HasPrefix(p, "TRIGGER ERROR") {
			w.Step(150*time.Second, "program (real binary): "+p)
			pr := core.RunProc(core.ProcOpts{Dir: w.Work, Args: csvqArgs("-q", "--wait-timeout", "1", p), Timeout: 60 * time.Second})
			c19JudgeProc(w, pr, "program", p, nil)
		}
	}
	w.Step(0, "")
	w.Count("programs_succeeded", int64(ok))
	w.Count("programs_failed_cleanly", int64(failed))
	if i < 4 {
		w.Sample(map[string]interface{}{"kind": "program", "examples": progs[:4]})
	}
}

func c19JudgeProc(w *core.Worker, pr core.ProcResult, kind, what string, allowed []int) bool {
	okCodes := map[int]bool{0: true, 1: true, 2: true, 4: true, 8: true, 16: true, 32: true, 64: true}
	for _, c := range allowed {
		okCodes[c] = true
	}
	bad := ""
	if pr.KilledFromOutside() {
		w.Inconclusive(fmt.Sprintf("[%s] the process was ended by signal %d from outside the case", kind, pr.Signal))
		return true
	}
	switch {
	case pr.TimedOut:
		bad = "hang: the process had to be killed by the watchdog"
	case pr.Signal != 0:
		bad = fmt.Sprintf("died by signal %d", pr.Signal)
	case strings.Contains(pr.Stderr, "Fatal Error") || strings.Contains(pr.Stderr, "panic:") || strings.Contains(pr.Stderr, "goroutine ") || strings.Contains(pr.Stderr, "fatal error:"):
		bad = "internal failure: " + truncateStr(pr.Stderr, 300)
	case !okCodes[pr.Code]:
		bad = fmt.Sprintf("exit status %d is not documented (stderr: %s)", pr.Code, truncateStr(pr.Stderr, 150))
	}
	if bad != "" {
		sig := "process:" + kind
		if strings.Contains(bad, "internal failure") {
			sig = "fatal:" + c19FatalSig(pr.Stderr)
		}
		w.Violation(sig, fmt.Sprintf("[%s] %s: %s", kind, truncateStr(what, 300), bad), c19Replay{Kind: kind, Query: what, Detail: bad})
		return false
	}
	return true
}

func c19FS(w *core.Worker, i int) {
	r := w.Rng(i, "fs")
	nobody := []string{"setpriv", "--reuid", "65534", "--regid", "65534", "--clear-groups"}
	stmts := []string{"SELECT * FROM t", "UPDATE t SET v = 1", "INSERT INTO t VALUES (9, 'z', 1)", "DELETE FROM t", "CREATE TABLE `n.csv` (a, b)", "CREATE TABLE IF NOT EXISTS `n.csv` (a, b)", "ALTER TABLE t ADD x",
		"SELECT * FROM `sub/t.csv`", "SELECT COUNT(*) FROM t; UPDATE t SET v = 2; COMMIT", "SELECT * FROM CSV(',', `t.csv`)", "SHOW TABLES", "SELECT @%HOME, @#VERSION", "SOURCE `nofile.sql`", "SELECT * FROM JSON('{}', `t.csv`)"}
	run := 0
	scenario := func(name string, setup func(d string) (args []string, prefix []string, env []string, cwd string)) {
		for k := 0; k < 4; k++ {
			st := stmts[r.Intn(len(stmts))]
			root := core.FreshDir(w.Work, "fs")
			_ = os.Chmod(root, 0777)
			d := filepath.Join(root, "repo")
			_ = os.MkdirAll(d, 0777)
			_ = os.Chmod(d, 0777)
			_ = os.WriteFile(filepath.Join(d, "t.csv"), []byte("id,k,v\n1,a,3\n2,b,4\n"), 0666)
			args, prefix, env, cwd := setup(d)
			full := append(csvqArgs("-q", "--wait-timeout", "0.1"), args...)
			full = append(full, st)
			if cwd == "" {
				cwd = d
			}
			var pr core.ProcResult
			if name == "removed-cwd" {
				sh := fmt.Sprintf("cd %s && rmdir %s 2>/dev/null; rm -rf %s; exec %s %s", d, d, d, core.CsvqBin, shellJoin(full))
				pr = core.RunProc(core.ProcOpts{Bin: "/bin/sh", Dir: root, Args: []string{"-c", sh}, Env: env, Timeout: 60 * time.Second})
			} else {
				pr = core.RunProc(core.ProcOpts{Dir: cwd, Args: full, Prefix: prefix, Env: env, Timeout: 60 * time.Second})
			}
			run++
			c19JudgeProc(w, pr, "fs:"+name, st, nil)
			w.Note("fs_scenarios", name)
			w.Case(core.Digest(name, st, fmt.Sprint(k, i)), true)
			_ = os.Chmod(d, 0777)
		}
	}
	scenario("missing-file", func(d string) ([]string, []string, []string, string) {
		_ = os.Remove(filepath.Join(d, "t.csv"))
		return nil, nil, nil, ""
	})
	scenario("directory-in-place-of-file", func(d string) ([]string, []string, []string, string) {
		_ = os.Remove(filepath.Join(d, "t.csv"))
		_ = os.Mkdir(filepath.Join(d, "t.csv"), 0777)
		_ = os.Mkdir(filepath.Join(d, "n.csv"), 0777)
		return nil, nil, nil, ""
	})
	scenario("unreadable-file", func(d string) ([]string, []string, []string, string) {
		_ = os.Chmod(filepath.Join(d, "t.csv"), 0000)
		return nil, nobody, nil, ""
	})
	scenario("read-only-file", func(d string) ([]string, []string, []string, string) {
		_ = os.Chmod(filepath.Join(d, "t.csv"), 0444)
		return nil, nobody, nil, ""
	})
	scenario("read-only-directory", func(d string) ([]string, []string, []string, string) {
		_ = os.Chmod(d, 0555)
		return nil, nobody, nil, ""
	})
	scenario("removed-cwd", func(d string) ([]string, []string, []string, string) { return nil, nil, nil, "" })
	scenario("repository-nowhere", func(d string) ([]string, []string, []string, string) {
		return []string{"--repository", filepath.Join(d, "no", "such", "dir")}, nil, nil, ""
	})
	scenario("repository-is-a-file", func(d string) ([]string, []string, []string, string) {
		return []string{"--repository", filepath.Join(d, "t.csv")}, nil, nil, ""
	})
	scenario("out-into-missing-directory", func(d string) ([]string, []string, []string, string) {
		return []string{"--out", filepath.Join(d, "nodir", "out.csv")}, nil, nil, ""
	})
	scenario("out-into-read-only-directory", func(d string) ([]string, []string, []string, string) {
		ro := filepath.Join(d, "ro")
		_ = os.Mkdir(ro, 0555)
		return []string{"--out", filepath.Join(ro, "out.csv")}, nobody, nil, ""
	})
	scenario("out-file-exists", func(d string) ([]string, []string, []string, string) {
		return []string{"--out", filepath.Join(d, "t.csv")}, nil, nil, ""
	})
	for _, e := range []string{"ENOSPC", "EIO"} {
		e := e
		scenario("write-error-"+e, func(d string) ([]string, []string, []string, string) {
			k := r.Range(1, 6)
			return nil, []string{"strace", "-f", "-o", "/dev/null", "-e", "trace=write", "-e", fmt.Sprintf("inject=write:error=%s:when=%d+", e, k)}, []string{"GOMAXPROCS=1"}, ""
		})
	}
	scenario("bad-options", func(d string) ([]string, []string, []string, string) {
		o := [][]string{{"--cpu", "0"}, {"--cpu", "-3"}, {"--delimiter", ""}, {"--delimiter", "ab"}, {"--encoding", "latin9"}, {"--wait-timeout", "-1"}, {"--format", "XML"}, {"--import-format", "???"}, {"--timezone", "Mars/Olympus"}, {"--delimiter-positions", "[1,"}, {"--json-query", "{"}, {"--datetime-format", "%"}, {"--line-break", "X"}, {"--limit-recursion", "-5"}}
		return o[r.Intn(len(o))], nil, nil, ""
	})
	w.Count("fs_process_runs", int64(run))
	if i < 8 {
		w.Sample(map[string]interface{}{"kind": "file-system state", "example": "unreadable t.csv, child run as uid 65534: " + stmts[r.Intn(len(stmts))]})
	}
}

func shellJoin(args []string) string {
	var o []string
	for _, a := range args {
		o = append(o, "'"+strings.ReplaceAll(a, "'", `'\''`)+"'")
	}
	return strings.Join(o, " ")
}

// c19Patterns: LIKE patterns with many wildcards over texts that almost match. Matching must not take time exponential in
// the number of wildcards: each statement runs in the real binary under a watchdog three orders of magnitude above what
// it needs; a run the watchdog had to end is repeated once with twice the time before it counts as a hang.
func c19Patterns(w *core.Worker, i int) {
	r := w.Rng(i, "patterns")
	core.WriteFiles(w.Work, map[string]string{"t.csv": "id,k,v\n1,a,3\n2,ab,\n3,b,-1\n"})
	hangs := 0
	for n := 0; n < 12 && hangs == 0; n++ {
		k := []int{3, 8, 14, 25, 40}[r.Intn(5)]
		ln := []int{10, 40, 120, 400}[r.Intn(4)]
		unit := []string{"%a", "%a_", "_%a", "%aa", "%_a%", "%\\%a", "%ab"}[r.Intn(7)]
		tail := []string{"%b", "b", "_b", "%", "", "%c"}[r.Intn(6)]
		pat := strings.Repeat(unit, k) + tail
		p := fmt.Sprintf("SELECT LPAD('a', %d, 'a') LIKE '%s', LPAD('a', %d, 'a') || 'b' LIKE '%s', LPAD('ab', %d, 'ab') NOT LIKE '%s'; SELECT COUNT(*) FROM t WHERE LPAD(k, %d, k) LIKE '%s';", ln, pat, ln, pat, ln, pat, ln, pat)
		pr := core.RunProc(core.ProcOpts{Dir: w.Work, Args: csvqArgs("-q", p), Timeout: 20 * time.Second})
		if pr.TimedOut {
			pr = core.RunProc(core.ProcOpts{Dir: w.Work, Args: csvqArgs("-q", p), Timeout: 40 * time.Second})
			if pr.TimedOut {
				hangs++
				w.Violation("hang:pattern-matching", fmt.Sprintf("%s: still running after 40 s (a pattern of %d wildcards over %d characters)", truncateStr(p, 200), k, ln), c19Replay{Kind: "pattern", Query: p, Detail: "watchdog, twice"})
				continue
			}
		}
		c19JudgeProc(w, pr, "pattern", p, nil)
		w.Count("wildcard_patterns_matched", 1)
		w.Case(core.Digest(p), pr.Code == 0)
	}
}

// c19NestedChange: a data-changing statement whose expressions call a function that runs a data-changing statement itself. Run once
// per check in the real binary under a watchdog of ten seconds (the statement needs milliseconds), repeated with twenty.
func c19NestedChange(w *core.Worker) {
	core.WriteFiles(w.Work, map[string]string{"nd.csv": "a\n1\n2\n", "ndlog.csv": "x\n"})
	clean := func() {
		for _, n := range []string{".nd.csv.lock", ".nd.csv.temp", ".ndlog.csv.lock", ".ndlog.csv.temp"} {
			_ = os.Remove(filepath.Join(w.Work, n))
		}
	}
	defer clean()
	for _, p := range []string{
		"DECLARE f FUNCTION (@x) AS BEGIN INSERT INTO ndlog VALUES (@x); RETURN @x + 1; END; UPDATE nd SET a = f(a);",
	} {
		pr := core.RunProc(core.ProcOpts{Dir: w.Work, Args: csvqArgs("-q", p), Timeout: 10 * time.Second})
		if pr.TimedOut {
			clean() // (the run that was killed could not remove its control files)
			pr = core.RunProc(core.ProcOpts{Dir: w.Work, Args: csvqArgs("-q", p), Timeout: 20 * time.Second})
			if pr.TimedOut {
				w.Violation("hang:data-changing-statement-called-from-a-data-changing-statement", fmt.Sprintf("%s: still running after 20 s", p), c19Replay{Kind: "program", Query: p, Detail: "watchdog, twice"})
				continue
			}
		}
		c19JudgeProc(w, pr, "program", p, nil)
	}
}

func c19Case(w *core.Worker, i int) {
	if i == 7 {
		c19NestedChange(w)
	}
	if i%40 == 7 {
		c19Patterns(w, i)
		return
	}
	switch i % 4 {
	case 0, 1:
		c19Loader(w, i)
	case 2:
		c19ProgramFuzz(w, i)
	default:
		c19FS(w, i)
	}
}
