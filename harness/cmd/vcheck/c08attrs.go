package main

import (
	"bytes"
	"fmt"
	"os"
	"path/filepath"
	"strings"

	"verif/internal/core"
)

// c08FileAttrs — what a failed statement may not change includes how the table is written: a table keeps its file
// attributes (format, delimiter positions, line break, encoding, header …) in an object the working copy of a statement
// shares with the cached table, so a statement that edits them before it fails leaves its mark in what a later COMMIT
// writes although every SELECT shows the old contents. One transaction [successful change,] failing statement,
// successful change, COMMIT is compared byte by byte with a control transaction that never ran the failing statement.
func c08FileAttrs(w *core.Worker, i int) {
	type layout struct {
		name, file, content string
		pre                 []string // session settings needed to read the file
	}
	layouts := []layout{
		{"fixed-auto", "f.txt", "id   v    w\n1    11   a\n2    0    b\n3    5    cc\n4    7    d\n", []string{"SET @@IMPORT_FORMAT TO FIXED;", "SET @@DELIMITER_POSITIONS TO 'SPACES';"}},
		{"fixed-positions", "f.txt", "id   v    w    \n1    11   a    \n2    0    b    \n3    5    cc   \n4    7    d    \n", []string{"SET @@IMPORT_FORMAT TO FIXED;", "SET @@DELIMITER_POSITIONS TO '[5, 10, 15]';"}},
		{"fixed-single-line", "f.txt", "1    11   a    2    0    b    3    5    cc   4    7    d    ", []string{"SET @@IMPORT_FORMAT TO FIXED;", "SET @@DELIMITER_POSITIONS TO 'S[5, 10, 15]';", "SET @@NO_HEADER TO TRUE;"}},
		{"tsv", "f.tsv", "id\tv\tw\n1\t11\ta\n2\t0\tb\n3\t5\tcc\n4\t7\td\n", nil},
		{"csv-crlf", "f.csv", "id,v,w\r\n1,11,a\r\n2,0,b\r\n3,5,cc\r\n4,7,d\r\n", nil},
		{"csv-semicolon", "f.csv", "id;v;w\n1;11;a\n2;0;b\n3;5;cc\n4;7;d\n", []string{"SET @@DELIMITER TO ';';"}},
		{"ltsv", "f.ltsv", "id:1\tv:11\tw:a\nid:2\tv:0\tw:b\nid:3\tv:5\tw:cc\nid:4\tv:7\tw:d\n", nil},
		{"json", "f.json", "[{\"id\":1,\"v\":11,\"w\":\"a\"},{\"id\":2,\"v\":0,\"w\":\"b\"},{\"id\":3,\"v\":5,\"w\":\"cc\"},{\"id\":4,\"v\":7,\"w\":\"d\"}]\n", nil},
		{"jsonl", "f.jsonl", "{\"id\":1,\"v\":11,\"w\":\"a\"}\n{\"id\":2,\"v\":0,\"w\":\"b\"}\n{\"id\":3,\"v\":5,\"w\":\"cc\"}\n{\"id\":4,\"v\":7,\"w\":\"d\"}\n", nil},
	}
	r := w.Rng(i, "attrs")
	lay := layouts[(i/40)%len(layouts)]
	T := "`" + lay.file + "`"
	idc, vc, wc := "id", "v", "w"
	if lay.name == "fixed-single-line" {
		idc, vc, wc = "c1", "c2", "c3"
	}
	fails := []string{
		fmt.Sprintf("ALTER TABLE %s ADD extra DEFAULT 100 / %s;", T, vc),
		fmt.Sprintf("ALTER TABLE %s ADD (e1, e2, e1);", T),
		fmt.Sprintf("ALTER TABLE %s ADD e1 AFTER nosuch;", T),
		fmt.Sprintf("ALTER TABLE %s ADD (e1 DEFAULT 1, e2 DEFAULT nosuch + 1) FIRST;", T),
		fmt.Sprintf("ALTER TABLE %s DROP (%s, nosuch);", T, wc),
		fmt.Sprintf("ALTER TABLE %s RENAME %s TO %s;", T, vc, wc),
		fmt.Sprintf("UPDATE %s SET %s = 100 / %s;", T, wc, vc),
		fmt.Sprintf("INSERT INTO %s VALUES (9, 9, 'x'), (9, 9);", T),
		fmt.Sprintf("INSERT INTO %s (%s, %s) VALUES (9, 9), (10, 1 / 0);", T, idc, vc),
		fmt.Sprintf("DELETE FROM %s WHERE 100 / %s > 1;", T, vc),
		fmt.Sprintf("REPLACE INTO %s (%s, %s) USING (%s) VALUES (1, 1), (9, 1 / 0);", T, idc, vc, idc),
		fmt.Sprintf("ALTER TABLE %s SET DELIMITER TO 'ab';", T),
		fmt.Sprintf("ALTER TABLE %s SET ENCODING TO 'nosuch';", T),
		fmt.Sprintf("ALTER TABLE %s SET LINE_BREAK TO 'nosuch';", T),
		fmt.Sprintf("ALTER TABLE %s SET FORMAT TO 'nosuch';", T),
		fmt.Sprintf("ALTER TABLE %s SET DELIMITER_POSITIONS TO 'nosuch';", T),
		fmt.Sprintf("ALTER TABLE %s SET HEADER TO 'nosuch';", T),
	}
	fail := fails[r.Intn(len(fails))]
	changes := []string{
		fmt.Sprintf("UPDATE %s SET %s = 'zz' WHERE %s = 3;", T, wc, idc),
		fmt.Sprintf("INSERT INTO %s VALUES (5, 55, 'eee');", T),
		fmt.Sprintf("DELETE FROM %s WHERE %s = 4;", T, idc),
		fmt.Sprintf("UPDATE %s SET %s = %s + 1000 WHERE %s = 1;", T, vc, vc, idc),
	}
	first := ""
	if r.Intn(2) == 0 {
		first = changes[r.Intn(len(changes))]
	}
	if r.Intn(3) == 0 {
		// the table has been read before
		first = fmt.Sprintf("SELECT COUNT(*) FROM %s; ", T) + first
	}
	last := changes[r.Intn(len(changes))]
	combo := "attrs/" + lay.name
	files := map[string]string{lay.file: lay.content}
	viol := func(sig, what string) {
		w.Violation(sig+":"+lay.name, fmt.Sprintf("[%s] %s %s %s COMMIT: %s", combo, first, fail, last, what),
			c08Replay{Files: files, Setup: append(append([]string{}, lay.pre...), first), Stmt: fail, Combo: combo, Detail: what})
	}
	runTx := func(name string, withFail bool) (string, bool) {
		dir := core.FreshDir(w.Work, name)
		core.WriteFiles(dir, files)
		s, err := core.NewSess(core.SessOpts{Dir: dir, CPU: 2, Quiet: true})
		if err != nil {
			w.Inconclusive(err.Error())
			return dir, false
		}
		defer s.Close()
		for _, q := range lay.pre {
			if res := s.Exec(q); res.Err != nil {
				w.Inconclusive(fmt.Sprintf("%s: %v", q, res.Err))
				return dir, false
			}
		}
		if first != "" {
			if res := s.Exec(first); res.Err != nil {
				w.Inconclusive(fmt.Sprintf("[%s] %s: %v", lay.name, first, res.Err))
				return dir, false
			}
		}
		if withFail {
			sel := fmt.Sprintf("SELECT * FROM %s;", T)
			b := s.Exec(sel)
			res := s.Exec(fail)
			if res.Err == nil {
				w.Count("statements_that_did_not_fail", 1)
				return dir, false
			}
			if core.IsFatal(res.Err) {
				viol("internal-failure", res.Err.Error())
			}
			a := s.Exec(sel)
			if b.Err != nil || a.Err != nil || len(b.Views) != 1 || len(a.Views) != 1 {
				viol("table-unreadable-after-failure", fmt.Sprintf("SELECT * before: %v, after: %v", b.Err, a.Err))
			} else if b.Views[0].String() != a.Views[0].String() {
				viol("table-changed", fmt.Sprintf("after the failed statement (%v)\nbefore: %s\nafter:  %s", res.Err, truncateStr(b.Views[0].String(), 300), truncateStr(a.Views[0].String(), 300)))
			}
		}
		if res := s.Exec(last); res.Err != nil {
			if withFail {
				viol("statement-after-failure-fails", fmt.Sprintf("%s: %v", last, res.Err))
			} else {
				w.Inconclusive(fmt.Sprintf("[%s] %s: %v", lay.name, last, res.Err))
			}
			return dir, false
		}
		if res := s.Exec("COMMIT;"); res.Err != nil {
			if withFail {
				viol("commit-error", res.Err.Error())
			} else {
				w.Inconclusive(fmt.Sprintf("[%s] COMMIT of the control transaction: %v", lay.name, res.Err))
			}
			return dir, false
		}
		return dir, true
	}
	ctl, ok := runTx("attr-control", false)
	if !ok {
		w.Case(core.Digest(combo, first, fail, last), false)
		return
	}
	dir, ok := runTx("attr-failed", true)
	if ok {
		want := core.TakeSnap(ctl)
		got := core.TakeSnap(dir)
		for _, n := range got.Names() {
			if _, there := want[n]; !there {
				viol("file-left-after-commit", "after COMMIT the repository holds "+n)
			}
		}
		for _, n := range want.Names() {
			wb, _ := os.ReadFile(filepath.Join(ctl, n))
			gb, _ := os.ReadFile(filepath.Join(dir, n))
			if !bytes.Equal(wb, gb) {
				viol("partial-effect-committed", fmt.Sprintf("%s after COMMIT differs from what the same transaction writes without the rejected statement:\nwith:    %q\nwithout: %q", n, truncateStr(string(gb), 200), truncateStr(string(wb), 200)))
			}
		}
		w.Count("file_attribute_transactions_compared_with_their_control", 1)
		w.Note("file_attribute_layouts", lay.name+"/"+strings.SplitN(strings.TrimPrefix(fail, "ALTER TABLE "+T+" "), " ", 2)[0])
	}
	w.Case(core.Digest(combo, first, fail, last), ok)
}
