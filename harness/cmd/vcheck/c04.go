package main

import (
	"encoding/json"
	"fmt"
	"math"
	"sort"
	"strconv"
	"strings"
	"time"

	"verif/internal/core"
)

func init() {
	core.Register(&core.Spec{
		ID: "C04", Level: "exploration",
		Rule: "one case = one generated table (unique id, 1..3 key columns drawn from value pools that include texts containing csvq's internal key separators split differently across columns, numbers in several spellings, datetimes, boolean words, NULLs; an integer column v) and the query shapes GROUP BY (buckets read off through LISTAGG(id)), DISTINCT, UNION/EXCEPT/INTERSECT, PARTITION BY (COUNT/LISTAGG OVER), with and without --strict-equal. " +
			"Oracle: for every pair of rows the independent three-valued relation SAME/DIFFERENT/UNSPECIFIED decides whether they must or must not share a bucket; every aggregate (COUNT, SUM, AVG, MIN, MAX, MEDIAN, STDEV(P), VAR(P), LISTAGG, JSON_AGG, a user-defined aggregate) is recomputed over the rows of its bucket. non-trivial = at least one SAME and one DIFFERENT pair were judged; distinct = table digest + key list. Every 8th case has 200..700 rows and --cpu 2..8.",
		Quick: 300, Thorough: 9000, FloorQuick: 150, FloorThorough: 5000,
		Assumptions: []string{"pairs the manual leaves open are not judged: boolean word vs 0/1, integer vs integral float, datetime texts in different layouts denoting one instant",
			"floats are compared to 1e-9 relative"},
		Setup: func(w *core.Worker) { core.HermeticProcess(w.Work) },
		Fn:    c04Case,
	})
}

const (
	relSame = iota
	relDiff
	relUnspec
)

// c04CustomDates: texts that are datetimes only under the session's own DATETIME_FORMAT '%e/%c/%y' (day/month/two-digit year,
// each day and month in one or two digits), with the instant they denote; consulted while c04Custom is set (one case at a
// time per worker process)
var c04Custom bool
var c04CustomDates = func() map[string]int64 {
	d := func(y, m, dd int) int64 { return time.Date(y, time.Month(m), dd, 0, 0, 0, 0, time.UTC).Unix() }
	return map[string]int64{"5/3/21": d(2021, 3, 5), "05/03/21": d(2021, 3, 5), "5/03/21": d(2021, 3, 5), "05/3/21": d(2021, 3, 5), "6/3/21": d(2021, 3, 6), "06/03/21": d(2021, 3, 6),
		"15/12/20": d(2020, 12, 15), "1/1/21": d(2021, 1, 1), "01/01/21": d(2021, 1, 1), "1/01/21": d(2021, 1, 1), "31/1/21": d(2021, 1, 31)}
}()

func cellClass(s string) (cls byte, i int64, f float64, t int64, b bool, txt string) {
	if c04Custom {
		if id, ok := c04CustomDates[s]; ok {
			return 'D', 0, 0, id, false, ""
		}
	}
	v := rvStr(s)
	if x, ok := v.asIntStrict(); ok {
		return 'I', x, float64(x), 0, false, ""
	}
	if x, ok := v.asFloat(); ok {
		return 'F', 0, x, 0, false, ""
	}
	if x, ok := v.asTime(); ok {
		// seconds and nanoseconds: the number of nanoseconds since the epoch identifies an instant only between 1678 and 2262
		return 'D', int64(x.Nanosecond()), 0, x.Unix(), false, ""
	}
	if x, ok := v.asBool(); ok {
		return 'B', 0, 0, 0, x, ""
	}
	return 'S', 0, 0, 0, false, strings.ToUpper(trimSp(s))
}

func cellRel(a, b *string, strict bool) int {
	if a == nil || b == nil {
		if a == nil && b == nil {
			return relSame
		}
		return relDiff
	}
	if strict {
		if *a == *b {
			return relSame
		}
		return relDiff
	}
	if *a == *b {
		return relSame
	}
	ca, ia, fa, ta, ba, sa := cellClass(*a)
	cb, ib, fb, tb, bb, sb := cellClass(*b)
	if ca == cb {
		switch ca {
		case 'I':
			if ia == ib {
				return relSame
			}
			return relDiff
		case 'F':
			if math.IsNaN(fa) || math.IsNaN(fb) {
				return relUnspec
			}
			if fa == fb {
				return relSame
			}
			return relDiff
		case 'D':
			if ta == tb && ia == ib {
				return relSame // one instant written in two layouts (the sessions run in UTC, like the reference)
			}
			return relDiff
		case 'B':
			if ba == bb {
				return relSame
			}
			return relDiff
		default:
			if sa == sb {
				return relSame
			}
			return relDiff
		}
	}
	num := func(c byte) bool { return c == 'I' || c == 'F' }
	if num(ca) && num(cb) {
		if fa == fb {
			return relUnspec // 1 vs 1.0
		}
		return relDiff
	}
	if (ca == 'B' && num(cb)) || (cb == 'B' && num(ca)) {
		// boolean word against 0/1: the manual does not say whether they are one value
		n, bv := fb, ba
		if cb == 'B' {
			n, bv = fa, bb
		}
		if (n == 1 && bv) || (n == 0 && !bv) {
			return relUnspec
		}
		return relDiff
	}
	return relDiff
}

func rowRel(a, b []*string, cols []int, strict bool) int {
	res := relSame
	for _, c := range cols {
		switch cellRel(a[c], b[c], strict) {
		case relDiff:
			return relDiff
		case relUnspec:
			res = relUnspec
		}
	}
	return res
}

type c04Replay struct {
	Table  string `json:"table_csv"`
	Query  string `json:"query"`
	Strict bool   `json:"strict_equal"`
	CPU    int    `json:"cpu"`
	Detail string `json:"detail"`
}

func c04Case(w *core.Worker, i int) {
	r := w.Rng(i, "")
	big := i%8 == 7
	n := pickSize(r, big)
	if !big && n < 4 {
		n = r.Range(4, 30)
	}
	cpu := 1
	if big {
		cpu = r.Range(2, 8)
	}
	strict := i%5 == 4
	nk := r.Range(1, 3)
	pools := map[string][]string{
		"hostile": profHostile,
		"mixnum":  {"1", "1.0", "01", " 1", "1e0", "2", "2.50", "2.5", "-0.0", "0.0", "0", "-0", "100", "1e2", "abc", "10", "1O"},
		"text":    profText,
		"dates":   {"2012-02-03", "2012/02/03", "2012-02-03 00:00:00", "2012-02-04", "2012-02-03 09:18:15", "2012-02-03T09:18:15Z", "x2012", "2011-01-01"},
		// instants outside 1678..2262, two of them 2^64 nanoseconds apart, the last instants a 64-bit count of nanoseconds reaches
		"fardates": {"1000-01-01 00:00:00", "1584-07-21 23:34:33.709551616", "1000-01-01", "3000-01-01 00:00:00", "2415-07-22 23:34:33.709551616", "0001-01-01 00:00:00", "2262-04-11 23:47:16.854775807", "2262-04-11 23:47:16.854775808", "1677-09-21 00:12:43.145224192", "1677-09-21 00:12:43.145224191", "2012-02-03"},
		"bools":   {"t", "true", "f", "false", "1", "0", "yes", "", " t", "2"},
		"ints":    profInts,
	}
	pnames := []string{"hostile", "hostile", "mixnum", "text", "dates", "bools", "ints", "fardates"}
	// every ninth case sets a datetime format of its own: texts that are datetimes only under that format (some shorter than
	// any built-in notation) are bucketed by the instant they denote
	c04Custom = i%9 == 4 && !strict
	if c04Custom {
		var cd []string
		for k := range c04CustomDates {
			cd = append(cd, k)
		}
		sort.Strings(cd)
		pools["customdates"] = append(cd, "7/13/21", "x", "2021-03-05")
		pnames = []string{"customdates", "customdates", "dates", "text"}
	}
	var profs []colProfile
	var names []string
	var kinds []string
	for j := 0; j < nk; j++ {
		pn := pnames[r.Intn(len(pnames))]
		kinds = append(kinds, pn)
		profs = append(profs, colProfile{Kind: pn, Vals: pools[pn], NullPct: []int{0, 10, 25}[r.Intn(3)]})
		names = append(names, fmt.Sprintf("k%d", j+1))
	}
	profs = append(profs, colProfile{Kind: "ints", Vals: []string{"0", "1", "2", "3", "5", "8", "-4", "10", "7"}, NullPct: 15})
	names = append(names, "v")
	t := genTable(r, "t", n, profs, names)
	// plant key tuples whose naive concatenations coincide although the tuples differ
	if nk >= 2 && n >= 4 && r.P(60) {
		pairs := [][2][2]string{
			{{"a:[S]b", "c"}, {"a", "b:[S]c"}},
			{{"p:[s]q", "r"}, {"p", "q:[S]r"}},
			{{":[S]", ""}, {"", ":[S]"}},
			{{"x:[N]", "[N]"}, {"x", "[N]:[N]"}},
			{{"k:[S]", "v"}, {"k", ":[S]v"}},
		}
		pr := pairs[r.Intn(len(pairs))]
		c0 := r.Intn(nk - 1)
		for k := 0; k < 2; k++ {
			row := t.Rows[r.Intn(n)]
			for j := 1; j <= nk; j++ {
				row[j] = core.Sp("z")
			}
			row[1+c0], row[2+c0] = core.Sp(pr[k][0]), core.Sp(pr[k][1])
		}
		kinds = append(kinds, "planted-collision")
	}
	// … and triples in which a text ending in the escape character of the key serialisation stands next to the delimiter
	if nk >= 3 && n >= 4 && r.P(70) {
		tr := [][2][3]string{
			{{"x\\", "y", "z:[S]w"}, {"x:[S]y", "z\\", "w"}},
			{{"a\\", "b", "c"}, {"a", "\\b", "c"}},
			{{"p\\:", "q", "r"}, {"p", "\\:q", "r"}},
			{{"k\\", ":[S]v", "m"}, {"k\\:[S]", "v", "m"}},
		}[r.Intn(4)]
		for k := 0; k < 2; k++ {
			row := t.Rows[r.Intn(n)]
			row[1], row[2], row[3] = core.Sp(tr[k][0]), core.Sp(tr[k][1]), core.Sp(tr[k][2])
		}
		kinds = append(kinds, "planted-escape-collision")
	}
	core.WriteFiles(w.Work, map[string]string{"t.csv": t.CSV()})
	s, err := core.NewSess(core.SessOpts{Dir: w.Work, CPU: cpu, StrictEqual: strict})
	if err != nil {
		w.Inconclusive(err.Error())
		return
	}
	if c04Custom {
		// the same texts are bucketed once before the session has its format (they are plain texts then): whatever a process
		// remembers about a text from that time must not outlive the change of the format
		kl := strings.Join(names[:nk], ", ")
		s.Exec("SELECT " + kl + ", COUNT(*) FROM t GROUP BY " + kl + "; SELECT DISTINCT " + kl + " FROM t; SELECT id, COUNT(*) OVER (PARTITION BY " + kl + " ORDER BY " + kl + ") FROM t; SELECT " + kl + " FROM t UNION SELECT " + kl + " FROM t;")
		s.Exec("SET @@DATETIME_FORMAT TO '%e/%c/%y';")
		w.Count("cases_with_a_datetime_format_of_the_session", 1)
	}
	defer s.Close()
	keyCols := make([]int, nk)
	for j := range keyCols {
		keyCols[j] = j + 1
	}
	vcol := nk + 1
	keyList := strings.Join(names[:nk], ", ")
	viol := func(sig, q, what string) {
		w.Violation(sig, fmt.Sprintf("%s [%d rows, cpu %d, strict-equal %v, key pools %v]: %s", q, n, cpu, strict, kinds, what), c04Replay{Table: t.CSV(), Query: q, Strict: strict, CPU: cpu, Detail: what})
	}
	run := func(q string) *core.Table {
		res := s.Exec(q)
		if res.Err != nil || len(res.Views) == 0 {
			viol("query-error", q, fmt.Sprint(res.Err))
			return nil
		}
		return res.Views[len(res.Views)-1]
	}
	// pair statistics
	same, diff := 0, 0
	limit := n
	if limit > 250 {
		limit = 250
	}
	for a := 0; a < limit; a++ {
		for b := a + 1; b < limit; b++ {
			switch rowRel(t.Rows[a], t.Rows[b], keyCols, strict) {
			case relSame:
				same++
			case relDiff:
				diff++
			}
		}
	}
	// checkBuckets judges a partition of ids against the reference relation
	checkBuckets := func(shape, q string, buckets [][]int) {
		bucketOf := map[int]int{}
		total := 0
		for bi, b := range buckets {
			for _, id := range b {
				if _, dup := bucketOf[id]; dup {
					viol(shape+":row-in-two-buckets", q, fmt.Sprintf("row id %d appears in two buckets", id))
					return
				}
				bucketOf[id] = bi
				total++
			}
		}
		if total != n {
			viol(shape+":rows-lost", q, fmt.Sprintf("buckets hold %d rows, the table has %d", total, n))
			return
		}
		cnt := 0
		for a := 0; a < n && cnt < 60000; a++ {
			for b := a + 1; b < n && cnt < 60000; b++ {
				cnt++
				rel := rowRel(t.Rows[a], t.Rows[b], keyCols, strict)
				sameB := bucketOf[a+1] == bucketOf[b+1]
				if rel == relSame && !sameB {
					viol(shape+":split", q, fmt.Sprintf("rows %s and %s have equal keys but are in different buckets", fmtRow(t.Rows[a]), fmtRow(t.Rows[b])))
					return
				}
				if rel == relDiff && sameB {
					viol(shape+":merge", q, fmt.Sprintf("rows %s and %s have different keys but share a bucket", fmtRow(t.Rows[a]), fmtRow(t.Rows[b])))
					return
				}
			}
		}
	}
	parseIDs := func(v core.Val) []int {
		var ids []int
		for _, f := range strings.Fields(v.S) {
			x, _ := strconv.Atoi(f)
			ids = append(ids, x)
		}
		return ids
	}
	evaluated := 0
	// 1. GROUP BY with aggregates
	s.Exec("DECLARE usum AGGREGATE (c) AS BEGIN VAR @s := 0; VAR @x; WHILE @x IN c DO IF @x IS NOT NULL THEN @s := @s + @x; END IF; END WHILE; RETURN @s; END;")
	q := "SELECT LISTAGG(id, ' ') AS ids, COUNT(*) AS c, COUNT(v) AS cv, SUM(v) AS sv, AVG(v) AS av, MIN(v) AS mn, MAX(v) AS mx, MEDIAN(v) AS md, VAR(v) AS va, VARP(v) AS vp, STDEV(v) AS sd, STDEVP(v) AS sp, usum(v) AS us, JSON_AGG(v) AS js, LISTAGG(v, ',') AS lv FROM t GROUP BY " + keyList
	if v := run(q); v != nil && n > 0 {
		evaluated++
		var buckets [][]int
		for _, row := range v.Rows {
			ids := parseIDs(row[0])
			buckets = append(buckets, ids)
			c04Aggregates(t, vcol, ids, row, func(sig, what string) { viol(sig, q, what) })
		}
		checkBuckets("groupby", q, buckets)
	}
	// 1a. the same aggregates with DISTINCT aggregates of the same column evaluated before and between them (and in HAVING):
	// an aggregate sees exactly the rows of its bucket, whatever another aggregate did with them
	{
		plain := []string{"COUNT(*)", "COUNT(v)", "SUM(v)", "AVG(v)", "MIN(v)", "MAX(v)", "MEDIAN(v)", "VAR(v)", "VARP(v)", "STDEV(v)", "STDEVP(v)", "usum(v)", "JSON_AGG(v)", "LISTAGG(v, ',')"}
		dist := []string{"COUNT(DISTINCT v)", "SUM(DISTINCT v)", "LISTAGG(DISTINCT v, ',')", "JSON_AGG(DISTINCT v)", "AVG(DISTINCT v)", "MEDIAN(DISTINCT v)", "usum(DISTINCT v)"}
		items := []string{"LISTAGG(id, ' ')"}
		var keep []int
		keep = append(keep, 0)
		for j, pa := range plain {
			items = append(items, dist[j%len(dist)])
			keep = append(keep, len(items))
			items = append(items, pa)
		}
		q := "SELECT " + strings.Join(items, ", ") + " FROM t GROUP BY " + keyList + " HAVING COUNT(DISTINCT v) >= 0 OR TRUE"
		if v := run(q); v != nil && n > 0 {
			evaluated++
			for _, row := range v.Rows {
				var row2 []core.Val
				for _, ix := range keep {
					row2 = append(row2, row[ix])
				}
				c04Aggregates(t, vcol, parseIDs(row[0]), row2, func(sig, what string) { viol(sig+":next-to-distinct", q, what) })
			}
		}
	}
	// 1b. aggregates over the grouping columns themselves (the NULL bucket counts no value)
	{
		var cks []string
		for _, kn := range names[:nk] {
			cks = append(cks, "COUNT("+kn+")")
		}
		// (and aggregates of constants: counted once per record, or once per bucket when DISTINCT)
		cks = append(cks, "COUNT(DISTINCT 7)", "COUNT(7)", "SUM(DISTINCT 2)", "COUNT(DISTINCT 'a')", "LISTAGG(DISTINCT 'c')")
		q := "SELECT LISTAGG(id, ' ') AS ids, " + strings.Join(cks, ", ") + " FROM t GROUP BY " + keyList
		if v := run(q); v != nil && n > 0 {
			for _, row := range v.Rows {
				ids := parseIDs(row[0])
				if c := row[1+nk:]; c[0].S != "1" || c[1].S != strconv.Itoa(len(ids)) || c[2].S != "2" || c[3].S != "1" || c[4].S != "c" {
					viol("aggregate:of-a-constant", q, fmt.Sprintf("bucket of rows %v: COUNT(DISTINCT 7), COUNT(7), SUM(DISTINCT 2), COUNT(DISTINCT 'a'), LISTAGG(DISTINCT 'c') = %v", ids, valsToStrs(c)))
				}
				for j := 0; j < nk; j++ {
					want := 0
					for _, id := range ids {
						if id >= 1 && id <= n && t.Rows[id-1][1+j] != nil {
							want++
						}
					}
					if row[1+j].S != strconv.Itoa(want) {
						viol("aggregate:count-of-key", q, fmt.Sprintf("bucket of rows %v: COUNT(%s) = %s, the bucket holds %d non-NULL values", ids, names[j], row[1+j].S, want))
					}
				}
			}
		}
	}
	// 2. PARTITION BY
	q = "SELECT id, COUNT(id) OVER (PARTITION BY " + keyList + ") AS c, LISTAGG(id, ' ') OVER (PARTITION BY " + keyList + ") AS ids, SUM(v) OVER (PARTITION BY " + keyList + ") AS sv FROM t"
	if v := run(q); v != nil && n > 0 {
		evaluated++
		seen := map[string]bool{}
		var buckets [][]int
		for _, row := range v.Rows {
			ids := parseIDs(row[2])
			sort.Ints(ids)
			key := fmt.Sprint(ids)
			id, _ := strconv.Atoi(row[0].S)
			if !containsInt(ids, id) {
				viol("partition:row-not-in-own-partition", q, fmt.Sprintf("row %d is not listed in its own partition %v", id, ids))
			}
			if c, _ := strconv.Atoi(row[1].S); c != len(ids) {
				viol("partition:count", q, fmt.Sprintf("COUNT(id) OVER = %s but the partition lists %d ids", row[1].S, len(ids)))
			}
			if !seen[key] {
				seen[key] = true
				buckets = append(buckets, ids)
			}
		}
		checkBuckets("partition", q, buckets)
	}
	// 2b. two analytic functions over the same partitioning, one of them ordering the rows inside OVER:
	// the numbering must be a numbering of exactly the partitions the other function lists
	q = "SELECT id, ROW_NUMBER() OVER (PARTITION BY " + keyList + " ORDER BY v DESC, id DESC) AS rn, LISTAGG(id, ' ') OVER (PARTITION BY " + keyList + ") AS ids FROM t"
	if v := run(q); v != nil && n > 0 {
		rns := map[string][]int{}
		var buckets [][]int
		for _, row := range v.Rows {
			ids := parseIDs(row[2])
			sort.Ints(ids)
			key := fmt.Sprint(ids)
			if _, seen := rns[key]; !seen {
				buckets = append(buckets, ids)
			}
			x, _ := strconv.Atoi(row[1].S)
			rns[key] = append(rns[key], x)
		}
		checkBuckets("partition+order", q, buckets)
		for key, xs := range rns {
			sort.Ints(xs)
			for j, x := range xs {
				if x != j+1 || len(xs) != len(strings.Fields(strings.Trim(key, "[]"))) {
					viol("partition+order:numbering", q, fmt.Sprintf("ROW_NUMBER over the partition %s takes the values %v", key, xs))
					break
				}
			}
		}
	}
	// 3. DISTINCT: one output row per class
	q = "SELECT DISTINCT " + keyList + " FROM t"
	if v := run(q); v != nil {
		evaluated++
		c04Distinct(t, keyCols, strict, v, func(sig, what string) { viol("distinct:"+sig, q, what) })
	}
	// 4. set operators between two halves (ids odd / even)
	for _, op := range []string{"UNION", "INTERSECT", "EXCEPT"} {
		q = fmt.Sprintf("SELECT %s FROM t WHERE id %% 2 = 1 %s SELECT %s FROM t WHERE id %% 2 = 0", keyList, op, keyList)
		if v := run(q); v != nil {
			evaluated++
			c04SetOp(t, keyCols, strict, op, v, func(sig, what string) { viol("setop:"+op+":"+sig, q, what) })
		}
	}
	// 4a. the ALL forms keep duplicates. How many of them INTERSECT ALL / EXCEPT ALL keep is not part of this property; what is:
	// UNION ALL returns every row of both operands; no bucket of INTERSECT ALL / EXCEPT ALL holds more rows than the left
	// operand has in it, a bucket present in both operands is not lost by INTERSECT ALL, a bucket absent from the right
	// operand keeps all its rows under EXCEPT ALL, and nothing foreign appears
	for _, op := range []string{"UNION ALL", "INTERSECT ALL", "EXCEPT ALL"} {
		for _, swap := range []bool{false, true} {
			l, rr := "id % 2 = 1", "id % 4 = 0" // the right operand is the smaller one …
			if swap {
				l, rr = "id % 4 = 0", "id % 2 = 1" // … or the larger one
			}
			q = fmt.Sprintf("SELECT %s FROM t WHERE %s %s SELECT %s FROM t WHERE %s", keyList, l, op, keyList, rr)
			if v := run(q); v != nil {
				evaluated++
				c04SetOpAll(t, keyCols, strict, op, swap, v, func(sig, what string) { viol("setop:"+op+":"+sig, q, what) })
			}
		}
	}
	// 4b. an empty operand: EXCEPT / UNION still return one row per class of the other operand, INTERSECT nothing
	for _, op := range []string{"EXCEPT", "UNION"} {
		q = fmt.Sprintf("SELECT %s FROM t %s SELECT %s FROM t WHERE 1 = 0", keyList, op, keyList)
		if v := run(q); v != nil {
			c04Distinct(t, keyCols, strict, v, func(sig, what string) { viol("setop-empty-operand:"+op+":"+sig, q, what) })
		}
	}
	q = fmt.Sprintf("SELECT %s FROM t WHERE 1 = 0 UNION SELECT %s FROM t", keyList, keyList)
	if v := run(q); v != nil {
		c04Distinct(t, keyCols, strict, v, func(sig, what string) { viol("setop-empty-operand:UNION-left:"+sig, q, what) })
	}
	for _, q := range []string{fmt.Sprintf("SELECT %s FROM t INTERSECT SELECT %s FROM t WHERE 1 = 0", keyList, keyList), fmt.Sprintf("SELECT %s FROM t WHERE 1 = 0 EXCEPT SELECT %s FROM t", keyList, keyList)} {
		if v := run(q); v != nil && len(v.Rows) != 0 {
			viol("setop-empty-operand:rows", q, fmt.Sprintf("%d rows returned, none expected", len(v.Rows)))
		}
	}
	// 5. DISTINCT inside aggregates: the values an aggregate keeps are one per class of its (non-NULL) arguments
	for j := 0; j < nk; j++ {
		kn := names[j]
		q = fmt.Sprintf("SELECT COUNT(DISTINCT %s) AS c, JSON_AGG(DISTINCT %s) AS j FROM t", kn, kn)
		v := run(q)
		if v == nil || len(v.Rows) != 1 {
			continue
		}
		var arr []interface{}
		if err := json.Unmarshal([]byte(v.Rows[0][1].S), &arr); err != nil {
			continue
		}
		sub := &GTable{Name: "t", Cols: []string{kn}}
		for _, row := range t.Rows {
			if row[1+j] != nil {
				sub.Rows = append(sub.Rows, []*string{row[1+j]})
			}
		}
		outs := &core.Table{Header: []string{kn}}
		for _, x := range arr {
			if str, ok := x.(string); ok {
				outs.Rows = append(outs.Rows, []core.Val{{T: 'S', S: str}})
			}
		}
		c04Distinct(sub, []int{0}, strict, outs, func(sig, what string) { viol("aggregate-distinct:"+sig, q, what) })
		if c, _ := strconv.Atoi(v.Rows[0][0].S); c != len(outs.Rows) {
			viol("aggregate-distinct:count", q, fmt.Sprintf("COUNT(DISTINCT) = %s but JSON_AGG(DISTINCT) keeps %d non-NULL values", v.Rows[0][0].S, len(outs.Rows)))
		}
		q2 := fmt.Sprintf("SELECT COUNT(DISTINCT %s) OVER () FROM t LIMIT 1", kn)
		if v2 := run(q2); v2 != nil && len(v2.Rows) == 1 && v2.Rows[0][0].S != v.Rows[0][0].S {
			viol("aggregate-distinct:analytic", q2, fmt.Sprintf("COUNT(DISTINCT) OVER () = %s, COUNT(DISTINCT) = %s", v2.Rows[0][0].S, v.Rows[0][0].S))
		}
		w.Count("aggregate_distinct_judged", 1)
	}
	if i < 30 {
		w.Sample(map[string]interface{}{"table": t.Dump(6), "keys": keyList, "strict_equal": strict, "cpu": cpu, "pairs_same": same, "pairs_different": diff})
	}
	w.Count("pairs_judged_same", int64(same))
	w.Count("pairs_judged_different", int64(diff))
	w.Count("queries_evaluated", int64(evaluated))
	if big {
		w.Count("cases_parallel_path", 1)
	}
	w.Case(core.Digest(t.CSV(), keyList, fmt.Sprint(strict)), same > 0 && diff > 0 && evaluated >= 12)
}

func keyOf(row []*string, cols []int) []*string {
	k := make([]*string, len(cols))
	for j, c := range cols {
		k[j] = row[c]
	}
	return k
}

func valKey(row []core.Val) []*string {
	k := make([]*string, len(row))
	for j, v := range row {
		if v.T != 'N' {
			k[j] = core.Sp(v.S)
		}
	}
	return k
}

func allCols(n int) []int {
	c := make([]int, n)
	for i := range c {
		c[i] = i
	}
	return c
}

// c04Distinct: every input row must be represented (SAME or UNSPECIFIED) by an output row, no two output rows may be SAME,
// and every output row must be the key of some input row.
func c04Distinct(t *GTable, cols []int, strict bool, v *core.Table, viol func(sig, what string)) {
	ac := allCols(len(cols))
	var outs [][]*string
	for _, r := range v.Rows {
		outs = append(outs, valKey(r))
	}
	for a := 0; a < len(outs); a++ {
		for b := a + 1; b < len(outs); b++ {
			if rowRel(outs[a], outs[b], ac, strict) == relSame {
				viol("duplicate", fmt.Sprintf("output rows %s and %s are equal", fmtRow(outs[a]), fmtRow(outs[b])))
				return
			}
		}
	}
	for _, row := range t.Rows {
		k := keyOf(row, cols)
		found := false
		for _, o := range outs {
			if rowRel(k, o, ac, strict) != relDiff {
				found = true
				break
			}
		}
		if !found {
			viol("lost", fmt.Sprintf("no output row represents input key %s", fmtRow(k)))
			return
		}
	}
	for _, o := range outs {
		found := false
		for _, row := range t.Rows {
			if rowRel(keyOf(row, cols), o, ac, strict) != relDiff {
				found = true
				break
			}
		}
		if !found {
			viol("foreign", fmt.Sprintf("output row %s is not the key of any input row", fmtRow(o)))
			return
		}
	}
}

func c04SetOp(t *GTable, cols []int, strict bool, op string, v *core.Table, viol func(sig, what string)) {
	ac := allCols(len(cols))
	var odd, even [][]*string
	for idx, row := range t.Rows {
		if (idx+1)%2 == 1 {
			odd = append(odd, keyOf(row, cols))
		} else {
			even = append(even, keyOf(row, cols))
		}
	}
	rel := func(k []*string, set [][]*string) (must, may bool) {
		for _, o := range set {
			switch rowRel(k, o, ac, strict) {
			case relSame:
				return true, true
			case relUnspec:
				may = true
			}
		}
		return false, may
	}
	var outs [][]*string
	for _, r := range v.Rows {
		outs = append(outs, valKey(r))
	}
	for a := 0; a < len(outs); a++ {
		for b := a + 1; b < len(outs); b++ {
			if rowRel(outs[a], outs[b], ac, strict) == relSame {
				viol("duplicate", fmt.Sprintf("output rows %s and %s are equal", fmtRow(outs[a]), fmtRow(outs[b])))
				return
			}
		}
	}
	inOut := func(k []*string) (must, may bool) { return rel(k, outs) }
	switch op {
	case "UNION":
		for _, k := range append(append([][]*string{}, odd...), even...) {
			if _, may := inOut(k); !may {
				viol("lost", fmt.Sprintf("input row %s is missing from the UNION", fmtRow(k)))
				return
			}
		}
	case "INTERSECT":
		for _, k := range odd {
			mustE, _ := rel(k, even)
			if _, may := inOut(k); mustE && !may {
				viol("lost", fmt.Sprintf("row %s is in both operands but missing from the INTERSECT", fmtRow(k)))
				return
			}
		}
		for _, o := range outs {
			_, mayO := rel(o, odd)
			_, mayE := rel(o, even)
			if !mayO || !mayE {
				viol("foreign", fmt.Sprintf("INTERSECT output %s is not in both operands", fmtRow(o)))
				return
			}
		}
	case "EXCEPT":
		for _, k := range odd {
			_, mayE := rel(k, even)
			if _, may := inOut(k); !mayE && !may {
				viol("lost", fmt.Sprintf("row %s is only in the left operand but missing from the EXCEPT", fmtRow(k)))
				return
			}
		}
		for _, o := range outs {
			mustE, _ := rel(o, even)
			_, mayO := rel(o, odd)
			if mustE || !mayO {
				viol("foreign", fmt.Sprintf("EXCEPT output %s is in the right operand or not in the left one", fmtRow(o)))
				return
			}
		}
	}
}

func c04Aggregates(t *GTable, vcol int, ids []int, row []core.Val, viol func(sig, what string)) {
	var vals []float64
	var texts []string
	for _, id := range ids {
		if id < 1 || id > len(t.Rows) {
			viol("aggregate:foreign-id", fmt.Sprintf("bucket lists id %d", id))
			return
		}
		if c := t.Rows[id-1][vcol]; c != nil {
			f, _ := strconv.ParseFloat(trimSp(*c), 64)
			vals = append(vals, f)
			texts = append(texts, *c)
		}
	}
	num := func(v core.Val) (float64, bool) {
		if v.T == 'N' {
			return 0, false
		}
		f, err := strconv.ParseFloat(trimSp(v.S), 64)
		return f, err == nil
	}
	expectNum := func(name string, got core.Val, want float64, null bool) {
		g, ok := num(got)
		if null {
			if got.T != 'N' {
				viol("aggregate:"+name, fmt.Sprintf("%s over bucket %v = %v, expected NULL (no non-null value)", name, ids, got))
			}
			return
		}
		if !ok || math.Abs(g-want) > 1e-9*math.Max(1, math.Abs(want)) {
			viol("aggregate:"+name, fmt.Sprintf("%s over bucket %v (values %v) = %v, recomputed %v", name, ids, texts, got, want))
		}
	}
	n := float64(len(vals))
	sum := 0.0
	for _, x := range vals {
		sum += x
	}
	expectNum("COUNT(*)", row[1], float64(len(ids)), false)
	expectNum("COUNT(v)", row[2], n, false)
	expectNum("SUM", row[3], sum, len(vals) == 0)
	if len(vals) > 0 {
		mean := sum / n
		expectNum("AVG", row[4], mean, false)
		mn, mx := vals[0], vals[0]
		ss := 0.0
		for _, x := range vals {
			mn, mx = math.Min(mn, x), math.Max(mx, x)
			ss += (x - mean) * (x - mean)
		}
		expectNum("MIN", row[5], mn, false)
		expectNum("MAX", row[6], mx, false)
		sorted := append([]float64{}, vals...)
		sort.Float64s(sorted)
		med := sorted[len(sorted)/2]
		if len(sorted)%2 == 0 {
			med = (sorted[len(sorted)/2-1] + sorted[len(sorted)/2]) / 2
		}
		expectNum("MEDIAN", row[7], med, false)
		expectNum("VARP", row[9], ss/n, false)
		expectNum("STDEVP", row[11], math.Sqrt(ss/n), false)
		if len(vals) > 1 {
			expectNum("VAR", row[8], ss/(n-1), false)
			expectNum("STDEV", row[10], math.Sqrt(ss/(n-1)), false)
		}
	} else {
		for k, nm := range map[int]string{4: "AVG", 5: "MIN", 6: "MAX", 7: "MEDIAN"} {
			expectNum(nm, row[k], 0, true)
		}
	}
	expectNum("user aggregate", row[12], sum, false)
	// LISTAGG(v, ',') lists exactly the non-null values of the bucket, in row order
	if got, want := row[14], strings.Join(texts, ","); (len(texts) == 0 && got.T != 'N' && got.S != "") || (len(texts) > 0 && got.S != want) {
		viol("aggregate:LISTAGG", fmt.Sprintf("LISTAGG(v) over bucket %v = %v, expected %q", ids, got, want))
	}
}

// c04SetOpAll judges the ALL forms by bucket counts (see the call site for what is and is not demanded).
func c04SetOpAll(t *GTable, cols []int, strict bool, op string, swap bool, v *core.Table, viol func(sig, what string)) {
	ac := allCols(len(cols))
	var left, right [][]*string
	for idx, row := range t.Rows {
		id := idx + 1
		inOdd, inQuad := id%2 == 1, id%4 == 0
		if (!swap && inOdd) || (swap && inQuad) {
			left = append(left, keyOf(row, cols))
		}
		if (!swap && inQuad) || (swap && inOdd) {
			right = append(right, keyOf(row, cols))
		}
	}
	var outs [][]*string
	for _, r := range v.Rows {
		outs = append(outs, valKey(r))
	}
	// count(k, set): rows of set in k's bucket; ok = false when some relation is unspecified (then nothing is judged for k)
	count := func(k []*string, set [][]*string) (n int, ok bool) {
		for _, o := range set {
			switch rowRel(k, o, ac, strict) {
			case relSame:
				n++
			case relUnspec:
				return 0, false
			}
		}
		return n, true
	}
	if op == "UNION ALL" && len(outs) != len(left)+len(right) {
		viol("count", fmt.Sprintf("the operands hold %d and %d rows, UNION ALL returns %d", len(left), len(right), len(outs)))
		return
	}
	for _, k := range append(append([][]*string{}, left...), right...) {
		nl, ok1 := count(k, left)
		nr, ok2 := count(k, right)
		no, ok3 := count(k, outs)
		if !ok1 || !ok2 || !ok3 {
			continue
		}
		switch op {
		case "UNION ALL":
			if no != nl+nr {
				viol("count", fmt.Sprintf("the bucket of %s holds %d + %d rows in the operands and %d in the UNION ALL", fmtRow(k), nl, nr, no))
				return
			}
		case "INTERSECT ALL":
			if (nl > 0 && nr > 0 && no == 0) || no > nl || (nr == 0 && no > 0) {
				viol("count", fmt.Sprintf("the bucket of %s holds %d rows in the left and %d in the right operand, and %d in the INTERSECT ALL", fmtRow(k), nl, nr, no))
				return
			}
		case "EXCEPT ALL":
			if (nr == 0 && no != nl) || no > nl {
				viol("count", fmt.Sprintf("the bucket of %s holds %d rows in the left and %d in the right operand, and %d in the EXCEPT ALL", fmtRow(k), nl, nr, no))
				return
			}
		}
	}
	for _, o := range outs {
		nl, ok1 := count(o, left)
		nr, ok2 := count(o, right)
		if !ok1 || !ok2 {
			continue
		}
		if (op == "UNION ALL" && nl+nr == 0) || (op != "UNION ALL" && nl == 0) {
			viol("foreign", fmt.Sprintf("output row %s belongs to no bucket of the %s", fmtRow(o), map[bool]string{true: "operands", false: "left operand"}[op == "UNION ALL"]))
			return
		}
	}
}
