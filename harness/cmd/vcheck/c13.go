package main

import (
	"fmt"
	"os"
	"path/filepath"
	"regexp"
	"sort"
	"strings"
	"time"

	"verif/internal/core"
)

func init() {
	core.Register(&core.Spec{
		ID: "C13", Level: "exploration",
		Rule: "one case = one program (the C12 generator plus loads of CSV/TSV/LTSV/fixed-length/JSONL/JSON files of 2, 299..301 and 2000 rows, user-defined functions and aggregates called per row, cursors over large queries, DML on large tables, and statements that fail inside a worker) executed by the race-detector build of the real binary " +
			"(go build -race) with --cpu 4..16 and seeded scheduling jitter, repeated 3x (quick) / 6x (thorough); every 'WARNING: DATA RACE' block with a csvq frame is a violation, deduplicated by the pair of top csvq frames. " +
			"non-trivial = the run started >1 worker goroutine in some section or used the two-goroutine file loader on >=299 rows; distinct = program digest.",
		Quick: 64, Thorough: 320, FloorQuick: 30, FloorThorough: 150,
		CaseTimeout: 15 * time.Minute,
		Assumptions: []string{"the race detector reports only races on accesses that happened in these runs and forgets old accesses (bounded shadow history); GORACE history_size=5 and repetition with jitter mitigate, they do not eliminate"},
		Setup:       func(w *core.Worker) { core.HermeticProcess(w.Work) },
		Fn:          c13Case,
	})
}

var raceFrameRe = regexp.MustCompile(`github\.com/mithrandie/csvq/lib/([A-Za-z0-9_/]+)\.([A-Za-z0-9_.()*]+)\(\)\n\s+(\S+):(\d+)`)

type c13Replay struct {
	Program string            `json:"program"`
	Files   map[string]string `json:"files"`
	Args    []string          `json:"args"`
	Report  string            `json:"report"`
}

func genC13(r *core.Rng, i int) (files map[string]string, prog string, extra []string, loaderBig bool) {
	switch i % 4 {
	case 0, 1:
		// walk the whole statement list of the C12 generator so that every operator is raced in every run
		f, _, _ := genC12(r)
		k := (i / 4) * 2
		if i%4 == 1 {
			k++
		}
		p := c12Sel[(2*k)%len(c12Sel)] + ";\n" + c12Sel[(2*k+1)%len(c12Sel)] + ";"
		// plus one statement in which all workers of a section touch the same few shared elements
		hot := []string{
			"SELECT COUNT(*) FROM t FULL JOIN (SELECT id, k FROM u WHERE id <= 3) x ON t.id > 0",
			"SELECT COUNT(*) FROM (SELECT id FROM u WHERE id <= 2) x FULL JOIN t ON x.id < t.id",
			"SELECT COUNT(*) FROM t FULL JOIN (SELECT id, k FROM u WHERE id <= 3) x ON t.k = x.k",
			"SELECT COUNT(*) FROM t WHERE RAND(1, 6) > 0 AND RAND() >= 0",
			"REPLACE INTO t (k, s) USING (k) VALUES ('a', 'ra'), ('b', 'rb'), ('c', 'rc'), ('d', 'rd'), ('e', 're'), ('zz', 'new'); SELECT COUNT(*) FROM t",
			"REPLACE INTO t (v, s) USING (v) SELECT DISTINCT w, 'rv' FROM u WHERE w IS NOT NULL; SELECT COUNT(*) FROM t",
			"SELECT k, COUNT(*), COUNT(DISTINCT v) FROM t GROUP BY k",
			"SELECT COUNT(*) FROM t WHERE v IN (SELECT w FROM u WHERE u.id <= 3) OR EXISTS (SELECT 1 FROM u WHERE u.k = t.k AND u.id <= 2)",
		}
		p += "\n" + hot[k%len(hot)] + ";"
		if k%3 == 0 {
			p += "\n" + c12Dml[(k/3)%len(c12Dml)] + ";"
		}
		return f, p, nil, true
	case 2:
		// loaders in every format and size class
		n := []int{2, 299, 300, 301, 2000}[r.Intn(5)]
		vals := []string{"alpha", "beta", "gamma", "delta", "x", "yy"}
		t := genTable(r, "t", n, []colProfile{{Kind: "v", Vals: vals}, {Kind: "ints"}}, []string{"c1", "c2"})
		for _, row := range t.Rows {
			for j := range row {
				if row[j] == nil {
					row[j] = core.Sp("0")
				}
			}
		}
		files = map[string]string{}
		var parts []string
		for _, f := range []string{"csv", "tsv", "ltsv", "jsonl", "json"} {
			files["d."+f] = renderFile(f, t)
			parts = append(parts, fmt.Sprintf("SELECT COUNT(*), SUM(c2) FROM `d.%s`", f))
		}
		// fixed-length
		var sb strings.Builder
		sb.WriteString("id    c1        c2   \n")
		for _, row := range t.Rows {
			sb.WriteString(fmt.Sprintf("%-6s%-10s%-5s\n", *row[0], *row[1], *row[2]))
		}
		files["d.txt"] = sb.String()
		parts = append(parts, "SELECT COUNT(*) FROM FIXED('spaces', `d.txt`)")
		parts = append(parts, "SELECT a.id, b.c1 FROM `d.csv` a JOIN `d.tsv` b ON a.id = b.id WHERE a.id % 50 = 0")
		return files, strings.Join(parts, ";\n") + ";", nil, n >= 299
	default:
		f, _, _ := genC12(r)
		if i%8 == 7 {
			// every built-in scalar function evaluated per row by parallel workers (shared caches, generators, pools):
			// 20 function names per case, each with several argument shapes, one process per statement (most shapes are
			// rejected for most functions; a rejected statement costs nothing and races nothing)
			names := c14Names()
			var stmts []string
			base := (i / 8) * 20
			for k := 0; k < 20; k++ {
				fn := names[(base+k)%len(names)]
				for _, a := range []string{"()", "(v)", "(s)", "(v, 2)", "(s, 'a')", "(s, 1, 2)", "(s, 'a', 'b')", "('2012-02-03 04:05:06', v)", "(v, 1, 2)"} {
					stmts = append(stmts, "SELECT "+fn+a+" AS x FROM t;")
				}
			}
			return f, "\x00SWEEP\x00" + strings.Join(stmts, "\x00"), nil, true
		}
		progs := []string{
			// flags shared by all workers of an outer join: few right-hand rows, every worker matches all of them
			"SELECT COUNT(*) FROM t FULL JOIN (SELECT id, k FROM u WHERE id <= 3) x ON t.id > 0;\nSELECT COUNT(*) FROM (SELECT id FROM u WHERE id <= 2) x FULL JOIN t ON x.id < t.id;\nSELECT COUNT(*) FROM t LEFT JOIN (SELECT id FROM u WHERE id <= 2) x ON 1 = 1;\nSELECT COUNT(*) FROM t FULL JOIN (SELECT id, k FROM u WHERE id <= 3) x ON t.k = x.k;",
			// the shared random number generator
			"SELECT id, RAND(), RAND(1, 6) FROM t WHERE RAND() >= 0 ORDER BY RAND();\nSELECT k, COUNT(*) FROM t GROUP BY k HAVING RAND(1, 2) > 0;",
			// user-defined scalar function and aggregate evaluated per row by parallel workers
			"DECLARE f FUNCTION (@a, @b DEFAULT 2) AS BEGIN VAR @x := @a * @b; IF @x > 10 THEN RETURN @x - 10; END IF; RETURN @x; END;\n" +
				"DECLARE ag AGGREGATE (c) AS BEGIN VAR @s := 0; VAR @v; WHILE @v IN c DO IF @v IS NOT NULL THEN @s := @s + @v; END IF; END WHILE; RETURN @s; END;\n" +
				"DECLARE pick AGGREGATE (c, @k) AS BEGIN VAR @n := 0; VAR @x; WHILE @x IN c DO @n := @n + 1; END WHILE; RETURN @k * 1000 + @n; END;\n" +
				"SELECT id, f(v), f(v, id) FROM t WHERE f(v) > 3;\nSELECT k, ag(v) FROM t GROUP BY k;\nSELECT id, ag(v) OVER (PARTITION BY k) FROM t WHERE id % 3 = 0;\nSELECT id, pick(v, id) OVER (PARTITION BY k) FROM t;",
			// cursor over a large query + variable use
			"DECLARE c CURSOR FOR SELECT id, v FROM t WHERE v > 1 ORDER BY v, id;\nOPEN c;\nVAR @i, @v, @n := 0;\nWHILE @i, @v IN c DO @n := @n + 1; END WHILE;\nCLOSE c;\nPRINT @n;\nSELECT COUNT(*) FROM t;",
			// a function that fetches from a cursor of the enclosing scope, called once per row by parallel workers
			"DECLARE c CURSOR FOR SELECT id, v FROM t ORDER BY id;\nOPEN c;\nDECLARE nx FUNCTION () AS BEGIN VAR @a; VAR @b; FETCH c INTO @a, @b; RETURN @a; END;\nSELECT COUNT(nx()), COUNT(DISTINCT nx()) FROM t;\nSELECT id FROM t WHERE nx() IS NULL AND CURSOR c IS NOT IN RANGE;\nCLOSE c;",
			// prepared statements: the values behind the placeholders are shared by the workers that evaluate the rows
			"PREPARE p FROM 'SELECT COUNT(*) FROM t WHERE v > ? AND k <> ?';\nEXECUTE p USING 1, 'zz';\nEXECUTE p USING 1 + 1, 'a' || 'b';\nPREPARE q FROM 'SELECT id, v + :inc FROM t WHERE v >= :lo ORDER BY id';\nDECLARE c CURSOR FOR q;\nOPEN c USING 3 AS inc, 2 AS lo;\nVAR @a, @b;\nFETCH c INTO @a, @b;\nCLOSE c;\nEXECUTE q USING 1 AS inc, 0 AS lo;",
			// a statement failing inside one of several workers
			"SELECT id, 100 / (v - 5) FROM t;",
			"SELECT id, (SELECT w FROM u WHERE u.k = t.k) FROM t;",
			"UPDATE t SET v = 10 / (v - 3);",
			// DML on large tables
			"UPDATE t SET s = s || '!' WHERE v > 2; DELETE FROM t WHERE id % 5 = 0; INSERT INTO t SELECT id + 100000, k, w, 'ins' FROM u; SELECT COUNT(*) FROM t;",
			"ALTER TABLE t ADD (z DEFAULT v + 1); ALTER TABLE t DROP s; SELECT SUM(z) FROM t;",
			"SELECT k, COUNT(DISTINCT v), LISTAGG(DISTINCT s, ',') FROM t GROUP BY k; SELECT DISTINCT v, s FROM t ORDER BY v, s;",
			"WITH RECURSIVE n (i) AS (SELECT 1 UNION ALL SELECT i + 1 FROM n WHERE i < 400) SELECT COUNT(*) FROM n JOIN t ON n.i = t.id;",
		}
		return f, progs[r.Intn(len(progs))], nil, true
	}
}

func c13Case(w *core.Worker, i int) {
	r := w.Rng(i, "")
	files, prog, _, _ := genC13(r, i)
	reps := 3
	if w.Tier == "thorough" {
		reps = 6
	}
	parallel := false
	total := 0
	logBase := filepath.Join(w.Work, "race.log")
	tracePath := filepath.Join(w.Work, "trace.log")
	for rep := 0; rep < reps; rep++ {
		d := core.FreshDir(w.Work, "run")
		core.WriteFiles(d, files)
		cpu := []int{8, 16, 4, 3, 5}[rep%5]
		olds, _ := filepath.Glob(logBase + "*")
		for _, o := range olds {
			_ = os.Remove(o)
		}
		_ = os.Remove(tracePath)
		args := csvqArgs("-q", "-f", "CSV", "--cpu", fmt.Sprint(cpu), prog)
		env := []string{"GORACE=halt_on_error=0 history_size=5 atexit_sleep_ms=40 log_path=" + logBase, fmt.Sprintf("VERIF_JITTER=%d", r.U64()|1)}
		if rep == 0 {
			env = append(env, "VERIF_TRACE="+tracePath)
		}
		var res core.ProcResult
		if strings.HasPrefix(prog, "\x00SWEEP\x00") {
			if rep > 0 {
				break
			}
			okN := 0
			// argument shapes a function rejects are filtered out in-process on two rows (milliseconds) before the race build runs the rest
			pre, perr := core.NewSess(core.SessOpts{Dir: d, CPU: 1, Quiet: true})
			for _, st := range strings.Split(strings.TrimPrefix(prog, "\x00SWEEP\x00"), "\x00") {
				if perr == nil {
					if pr := pre.Exec(strings.Replace(st, "FROM t;", "FROM t WHERE id <= 2;", 1)); pr.Err != nil {
						continue
					}
				}
				res = core.RunProc(core.ProcOpts{Bin: core.CsvqRaceBin, Dir: d, Args: csvqArgs("-q", "-f", "CSV", "--cpu", "8", st), Env: env, Timeout: 300 * time.Second})
				total++
				if res.Code == 0 {
					okN++
					w.Note("functions_raced_per_row", strings.SplitN(strings.TrimPrefix(st, "SELECT "), "(", 2)[0])
				}
			}
			if perr == nil {
				pre.Close()
			}
			w.Count("function_sweep_statements_evaluated", int64(okN))
			res.TimedOut = false
		} else {
			res = core.RunProc(core.ProcOpts{Bin: core.CsvqRaceBin, Dir: d, Args: args, Env: env, Timeout: 300 * time.Second})
			total++
		}
		if rep == 0 {
			for _, e := range core.ReadTrace(tracePath) {
				if strings.HasPrefix(e.Name, "worker.") || (e.Name == "load.begin") {
					parallel = true
				}
			}
		}
		if res.TimedOut {
			w.Inconclusive("race build timed out: " + truncateStr(prog, 200))
			continue
		}
		logs, _ := filepath.Glob(logBase + "*")
		for _, lf := range logs {
			b, _ := os.ReadFile(lf)
			for _, blk := range strings.Split(string(b), "==================") {
				if !strings.Contains(blk, "WARNING: DATA RACE") {
					continue
				}
				w.Count("race_reports_total", 1)
				fr := raceFrameRe.FindAllStringSubmatch(blk, -1)
				var tops []string
				// the first csvq frame of each of the two access stacks: take the first two distinct sections
				secs := regexp.MustCompile(`(?m)^(Read|Write|Previous read|Previous write) at `).Split(blk, -1)
				for _, sec := range secs[1:] {
					if m := raceFrameRe.FindStringSubmatch(sec); m != nil && !strings.HasSuffix(m[3], "_test.go") {
						tops = append(tops, m[1]+"."+m[2])
					}
				}
				if len(fr) == 0 || len(tops) == 0 {
					continue // no csvq frame: runtime/library noise is not judged
				}
				sig := "race:" + strings.Join(tops, "|")
				w.Violation(sig, fmt.Sprintf("data race reported while running (cpu %d): %s\n%s", cpu, truncateStr(prog, 300), truncateStr(blk, 1500)),
					c13Replay{Program: prog, Files: small(files), Args: args, Report: truncateStr(blk, 4000)})
			}
		}
	}
	w.Count("race_build_executions", int64(total))
	if i < 4 {
		w.Sample(map[string]interface{}{"program": truncateStr(prog, 500), "executions": total})
	}
	var fk []string
	for n, c := range files {
		fk = append(fk, n, c)
	}
	sort.Strings(fk)
	w.Case(core.Digest(append([]string{prog}, fk...)...), parallel)
}
