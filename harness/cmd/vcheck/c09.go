package main

import (
	"bufio"
	"fmt"
	"os"
	"os/exec"
	"path/filepath"
	"sort"
	"strconv"
	"strings"
	"sync"
	"sync/atomic"
	"syscall"
	"time"

	"github.com/anishathalye/porcupine"

	"verif/internal/core"
)

func init() {
	core.Register(&core.Spec{
		ID: "C09", Level: "exploration",
		Rule: "case kinds: i mod 5 == 0 → one stress round: 12 client loops spawn real csvq processes (increment transactions in three forms, transactions ending in ROLLBACK, readers checking an in-row invariant, writers with a 50 ms wait-timeout) against one table, with delays injected at hook points inside the lock protocol; monitors over the merged hook trace and the process results: (1) no two recorded hold intervals overlap unless both are shared, (2) conservation: final counter = number of committed increments, (3) exactly-once: the log table holds exactly the ids of committed transactions, (4) a lock timeout changes nothing, (5) porcupine linearizability of the increment/read history. " +
			"otherwise → systematic schedules: 2..3 real processes (writer/writer, writer/reader, reader/writer, FOR UPDATE, ROLLBACK, 3 roles) run under a step controller that serialises every hook point of lock acquisition, load, commit and release through FIFOs; schedules are enumerated as bit strings over the first 14 decision points (two roles) or explored with bounded random preemption (three roles); after every step the believed-holder set must be compatible, at the end counter = committed writers, readers saw n = m, no control file remains. " +
			"Each stress case is followed by racing creators (two processes create and fill the same table, each held up at one step of its acquisition or before its commit, 49 pairs of hold points: at most one succeeds, the winner's table exists afterwards with exactly its row, otherwise no table; no control file) and, every third time, by a probe of single statements whose WITH clause reads their own target. " +
			"non-trivial = a stress round with >= 100 completed transactions, or a schedule in which both roles reached the lock protocol while the other was inside it (>= 2 context switches); distinct = round digest / schedule signature (sequence of (role,point)).",
		Quick: 120, Thorough: 2400, FloorQuick: 600, FloorThorough: 7000, Workers: 16,
		CaseTimeout: 15 * time.Minute,
		Assumptions: []string{"recorded hold intervals are subsets of the real ones (begin logged after acquisition, end logged before release, one CLOCK_MONOTONIC for all processes), so a recorded overlap is a real one",
			"either protection layer (lock files or flock) may be the one that excludes: only an actual overlap of holds or a lost/duplicated update is judged", "retry loops make the schedule space infinite: enumeration is bounded by decision depth and a step cap"},
		Fn: c09Case,
	})
}

type c09Replay struct {
	Kind     string   `json:"kind"`
	Scenario []string `json:"scenario,omitempty"`
	Choices  string   `json:"choices,omitempty"`
	Trace    []string `json:"trace,omitempty"`
	Detail   string   `json:"detail"`
}

func c09Case(w *core.Worker, i int) {
	if i%5 == 0 {
		c09Stress(w, i)
		c09Creators(w, i)
		if (i/5)%3 == 1 {
			c09WithClause(w, i)
		}
		if (i/5)%3 == 0 {
			c09SelfInsert(w, i)
		}
		return
	}
	c09Schedules(w, i)
}

// c09SelfInsert: eight processes at once, each several times, insert into a table the next number read from that same table
// (INSERT .. SELECT MAX(id) + 1 FROM the target, a scalar sub-query over the target inside VALUES). The read is part of the
// statement that takes the table for update, so the committed numbers are 0, 1, 2, … without a gap or a repeat. The lock
// acquisition is stretched a little (delay at lock.checked) so that the processes really meet.
func c09SelfInsert(w *core.Worker, i int) {
	d := core.FreshDir(w.Work, "selfins")
	core.WriteFiles(d, map[string]string{"seq.csv": "id\n0\n"})
	var wg sync.WaitGroup
	var mu sync.Mutex
	committed, outside := 0, 0
	for c := 0; c < 8; c++ {
		wg.Add(1)
		go func(c int) {
			defer wg.Done()
			for s := 0; s < 5; s++ {
				prog := []string{"INSERT INTO seq SELECT MAX(id) + 1 FROM seq;", "INSERT INTO seq (id) SELECT COUNT(*) FROM seq;", "INSERT INTO seq VALUES ((SELECT MAX(id) FROM seq) + 1);", "INSERT INTO seq SELECT MAX(x.id) + 1 FROM seq x JOIN seq y ON x.id = y.id;"}[(c+s)%4]
				res := core.RunProc(core.ProcOpts{Dir: d, Args: csvqArgs("-q", "--wait-timeout", "30", prog), Env: []string{fmt.Sprintf("VERIF_DELAY=lock.checked=%d", 2+(c+s)%5)}, Timeout: 120 * time.Second})
				mu.Lock()
				if res.KilledFromOutside() {
					outside++
				} else if res.Code == 0 {
					committed++
				}
				mu.Unlock()
			}
		}(c)
	}
	wg.Wait()
	if outside > 0 {
		w.Inconclusive("processes of the self-reading-insert round were ended from outside the case")
		return
	}
	sq := core.RunProc(core.ProcOpts{Dir: d, Args: csvqArgs("-q", "-f", "CSV", "--without-header", "SELECT id FROM seq ORDER BY id;")})
	ids := strings.Fields(strings.TrimSpace(sq.Stdout))
	ok := len(ids) == committed+1
	for j, x := range ids {
		if x != strconv.Itoa(j) {
			ok = false
		}
	}
	if !ok {
		w.Violation("stress:self-reading-insert", fmt.Sprintf("%d transactions that insert the next number into the table they read it from committed (plus the first row): the table holds %v", committed, ids), c09Replay{Kind: "self-reading insert", Detail: fmt.Sprint(ids)})
	}
	w.Count("self_reading_insert_rounds", 1)
	w.Count("self_reading_inserts_committed_in_those_rounds", int64(committed))
	w.Case(core.Digest("selfins", fmt.Sprint(i)), committed > 10)
}

const c09Counter = "id,n,m\n1,0,0\n"

// ---- (a) stress + offline monitors ---------------------------------------------

type c09Op struct {
	client, seq int
	kind        string // inc incfu incrb read inc-short
	call, ret   int64
	code        int
	out         string
}

func c09Stress(w *core.Worker, i int) {
	r := w.Rng(i, "stress")
	d := core.FreshDir(w.Work, "stress")
	core.WriteFiles(d, map[string]string{"counter.csv": c09Counter, "log.csv": "c,s\n", "aux.csv": "id\n1\n", "noop.sql": "VAR @sourced := 1;\n", "seq.csv": "id\n0\n"})
	trace := filepath.Join(w.Work, "stress.trace")
	_ = os.Remove(trace)
	profiles := []string{"", "lock.checked=2,rlock.lock_created=1", "lock.created=1,commit.removed=2,rlock.checked=1", "hold.x.begin=3,rlock.rlock_created=2,cf.closed=1"}
	delay := profiles[r.Intn(len(profiles))]
	// every fifth round has slow holders: some transactions keep the table for well over a second (anything that treats an
	// old control file as abandoned gets its chance) while every release of a control file is stretched between close and unlink
	slow := (i/5)%9 == 2
	if slow {
		delay = "cf.closed=40,lock.checked=2"
		w.Count("stress_rounds_with_slow_holders", 1)
	}
	nclients, per := 12, 14
	var stracedOps, killedOutside int64
	var mu sync.Mutex
	var ops []c09Op
	var wg sync.WaitGroup
	t0 := time.Now()
	for c := 0; c < nclients; c++ {
		wg.Add(1)
		cr := core.Derive(w.Seed, "c09client", i*100+c)
		go func(c int, cr *core.Rng) {
			defer wg.Done()
			for s := 0; s < per; s++ {
				op := c09Op{client: c, seq: s}
				var prog string
				wt := "30"
				switch k := cr.Intn(10); {
				case k < 3:
					op.kind = "inc"
					prog = fmt.Sprintf("UPDATE counter SET n = n + 1, m = m + 1; INSERT INTO log VALUES (%d, %d); SELECT n FROM counter;", c, s)
				case k == 3:
					// plain read first, then the change: the table must be read again under the exclusive lock
					op.kind = "incsel"
					prog = fmt.Sprintf("SELECT n FROM counter; UPDATE counter SET n = n + 1, m = m + 1; INSERT INTO log VALUES (%d, %d); SELECT n FROM counter;", c, s)
				case k == 4 && s%4 == 3:
					// a data-changing statement that matches no row is still the transaction's first data-changing statement: the
					// table is held from there on, so what is read afterwards may be written back
					op.kind = "incfuvar"
					prog = fmt.Sprintf("%s VAR @v := (SELECT n FROM counter); UPDATE counter SET n = @v + 1, m = @v + 1; INSERT INTO log VALUES (%d, %d); SELECT n FROM counter;", []string{"UPDATE counter SET n = -1 WHERE id < 0;", "DELETE FROM counter WHERE id < 0;", "SELECT n FROM counter FOR UPDATE; DELETE FROM counter WHERE id < 0;"}[(s/4)%3], c, s)
				case k == 4 && s%3 == 2:
					// the table is named only in the second operand of a set operation under FOR UPDATE: it is held like the first
					op.kind = "incfuvar"
					prog = fmt.Sprintf("SELECT id FROM aux WHERE id < 0 UNION ALL SELECT n FROM counter FOR UPDATE; VAR @v := (SELECT n FROM counter); UPDATE counter SET n = @v + 1, m = @v + 1; INSERT INTO log VALUES (%d, %d); SELECT n FROM counter;", c, s)
				case k == 4 && s%2 == 0:
					// read under FOR UPDATE through a join, then write what was read: FOR UPDATE must hold every table of the query
					op.kind = "incfuvar"
					prog = fmt.Sprintf("VAR @v; SELECT @v := counter.n FROM aux JOIN counter ON aux.id = counter.id FOR UPDATE; UPDATE counter SET n = @v + 1, m = @v + 1; INSERT INTO log VALUES (%d, %d); SELECT n FROM counter;", c, s)
				case k == 4:
					// as above with a statement in between that runs other program text: the hold must survive it
					op.kind = "incfuvar"
					prog = fmt.Sprintf("VAR @v; SELECT @v := n FROM counter FOR UPDATE; %s UPDATE counter SET n = @v + 1, m = @v + 1; INSERT INTO log VALUES (%d, %d); SELECT n FROM counter;", []string{"EXECUTE 'VAR @x := 1;';", "SOURCE `noop.sql`;"}[s%2], c, s)
				case k < 5:
					op.kind = "incfu"
					prog = fmt.Sprintf("SELECT n FROM counter FOR UPDATE; UPDATE counter SET n = n + 1, m = m + 1; INSERT INTO log VALUES (%d, %d); SELECT n FROM counter;", c, s)
				case k < 6:
					op.kind = "incrb"
					prog = fmt.Sprintf("UPDATE counter SET n = n + 1, m = m + 1; INSERT INTO log VALUES (%d, %d); ROLLBACK;", c, s)
				case k == 7 && s%2 == 1:
					// the statement reads the table it inserts into: the read belongs to the hold, so every committed row has its own number
					op.kind = "insself"
					prog = []string{"INSERT INTO seq SELECT MAX(id) + 1 FROM seq;", "INSERT INTO seq (id) SELECT COUNT(*) FROM seq;", "INSERT INTO seq VALUES ((SELECT MAX(id) FROM seq) + 1);"}[(s/2)%3]
				case k < 8:
					op.kind = "read"
					prog = "SELECT n, m FROM counter;"
				default:
					op.kind = "inc-short"
					wt = "0.05"
					prog = fmt.Sprintf("UPDATE counter SET n = n + 1, m = m + 1; INSERT INTO log VALUES (%d, %d); SELECT n FROM counter;", c, s)
				}
				env := []string{"VERIF_TRACE=" + trace, fmt.Sprintf("VERIF_ROLE=c%d.%d", c, s)}
				if slow && c < 3 && s%4 == 1 && (op.kind == "inc" || op.kind == "incfu" || op.kind == "incsel") {
					env = append(env, "VERIF_DELAY=hold.x.begin=1300,cf.closed=40")
				} else if delay != "" {
					env = append(env, "VERIF_DELAY="+delay)
				}
				op.call = time.Since(t0).Nanoseconds()
				var prefix []string
				if i%3 == 2 && cr.P(30) {
					// syscall-level delays inside this process: every unlink / rename / exclusive create returns a few
					// milliseconds late, which opens the instants between two control-file operations that no hook point marks
					prefix = []string{"strace", "-f", "-o", "/dev/null", "-e", "trace=unlink,unlinkat,rename,renameat,renameat2", "-e", fmt.Sprintf("inject=unlink,unlinkat,rename,renameat,renameat2:delay_exit=%d", cr.Range(2000, 15000))}
					atomic.AddInt64(&stracedOps, 1)
				}
				res := core.RunProc(core.ProcOpts{Dir: d, Args: csvqArgs("-q", "-f", "CSV", "--without-header", "--wait-timeout", wt, prog), Env: env, Prefix: prefix, Timeout: 120 * time.Second})
				op.ret = time.Since(t0).Nanoseconds()
				op.code, op.out = res.Code, strings.TrimSpace(res.Stdout)
				if res.KilledFromOutside() {
					atomic.AddInt64(&killedOutside, 1)
				} else if res.Code != 0 && res.Code != 8 {
					w.Violation("stress:unexpected-exit", fmt.Sprintf("%s ended with %s", prog, res), c09Replay{Kind: "stress", Detail: prog})
				}
				mu.Lock()
				ops = append(ops, op)
				mu.Unlock()
			}
		}(c, cr)
	}
	wg.Wait()
	w.Count("stress_transactions_with_delayed_syscalls", atomic.LoadInt64(&stracedOps))
	if n := atomic.LoadInt64(&killedOutside); n > 0 {
		// a transaction ended by a foreign SIGKILL may or may not have committed: the round's history says nothing
		w.Inconclusive(fmt.Sprintf("%d processes of the stress round were ended by a signal from outside the case", n))
		return
	}
	// final state
	fin := core.RunProc(core.ProcOpts{Dir: d, Args: csvqArgs("-q", "-f", "CSV", "--without-header", "SELECT n, m FROM counter; SELECT c, s FROM log;")})
	lines := strings.Split(strings.TrimSpace(fin.Stdout), "\n")
	committed, timeouts := 0, 0
	wantLog := map[string]bool{}
	for _, op := range ops {
		if op.code == 8 {
			timeouts++
		}
		if op.code == 0 && (op.kind == "inc" || op.kind == "incfu" || op.kind == "incfuvar" || op.kind == "incsel" || op.kind == "inc-short") {
			committed++
			wantLog[fmt.Sprintf("%d,%d", op.client, op.seq)] = true
		}
	}
	rep := func(sig, what string) {
		w.Violation(sig, what, c09Replay{Kind: "stress", Detail: what + " delay=" + delay})
	}
	if len(lines) == 0 || lines[0] != fmt.Sprintf("%d,%d", committed, committed) {
		rep("stress:conservation", fmt.Sprintf("final counter row is %q but %d increment transactions committed (lost or phantom update)", firstOr(lines), committed))
	}
	gotLog := map[string]int{}
	for _, l := range lines[1:] {
		if l != "" {
			gotLog[l]++
		}
	}
	for k := range wantLog {
		if gotLog[k] != 1 {
			rep("stress:exactly-once", fmt.Sprintf("committed transaction %s appears %d times in the log table", k, gotLog[k]))
		}
	}
	for k := range gotLog {
		if !wantLog[k] {
			rep("stress:phantom", fmt.Sprintf("log row %s belongs to a transaction that did not commit (rolled back or timed out)", k))
		}
	}
	{
		want := 1
		for _, op := range ops {
			if op.kind == "insself" && op.code == 0 {
				want++
			}
		}
		sq := core.RunProc(core.ProcOpts{Dir: d, Args: csvqArgs("-q", "-f", "CSV", "--without-header", "SELECT id FROM seq ORDER BY id;")})
		ids := strings.Fields(strings.TrimSpace(sq.Stdout))
		okSeq := len(ids) == want
		for j, x := range ids {
			if x != strconv.Itoa(j) {
				okSeq = false
			}
		}
		if !okSeq {
			rep("stress:self-reading-insert", fmt.Sprintf("%d transactions that insert the next number into the table they read it from committed (plus the first row): the table holds %v", want-1, ids))
		}
		w.Count("stress_self_reading_inserts_committed", int64(want-1))
	}
	for _, op := range ops {
		if op.kind == "read" && op.code == 0 {
			f := strings.Split(op.out, ",")
			if len(f) != 2 || f[0] != f[1] {
				rep("stress:torn-read", fmt.Sprintf("a reader saw n,m = %q (the two columns are always updated together)", op.out))
			}
		}
	}
	for _, n := range core.TakeSnap(d).Names() {
		if core.IsControlFile(n) {
			rep("stress:leftover", "control file left after all processes ended: "+n)
		}
	}
	// interval monitor over the merged hook trace
	evs := core.ReadTrace(trace)
	sort.SliceStable(evs, func(a, b int) bool { return evs[a].T < evs[b].T })
	type hold struct {
		role string
		mode byte
		path string
	}
	active := map[string]hold{} // key role|path
	nIntervals, maxConc := 0, 0
	for _, e := range evs {
		key := e.Role + "|" + e.Detail
		switch e.Name {
		case "hold.x.begin", "hold.s.begin":
			mode := e.Name[5]
			for _, h := range active {
				if h.path == e.Detail && h.role != e.Role && (h.mode == 'x' || mode == 'x') {
					rep("stress:overlap", fmt.Sprintf("process %s acquired %c access to %s while %s still held %c access", e.Role, mode, filepath.Base(e.Detail), h.role, h.mode))
				}
			}
			active[key] = hold{e.Role, mode, e.Detail}
			nIntervals++
			if len(active) > maxConc {
				maxConc = len(active)
			}
		case "hold.end":
			delete(active, key)
		}
	}
	w.Count("stress_hold_intervals", int64(nIntervals))
	w.Count("stress_transactions", int64(len(ops)))
	w.Count("stress_lock_timeouts", int64(timeouts))
	w.Count("stress_trace_events", int64(len(evs)))
	// linearizability of the counter history (committed increments return the new value, reads the value)
	var hist []porcupine.Operation
	for _, op := range ops {
		if op.code != 0 {
			continue
		}
		switch op.kind {
		case "inc", "incfu", "incfuvar", "incsel", "inc-short":
			ls := strings.Split(op.out, "\n")
			v, err := strconv.Atoi(strings.TrimSpace(ls[len(ls)-1]))
			if err != nil {
				rep("stress:bad-output", fmt.Sprintf("increment transaction printed %q", op.out))
				continue
			}
			hist = append(hist, porcupine.Operation{ClientId: op.client, Input: "inc", Output: v, Call: op.call, Return: op.ret})
		case "read":
			v, _ := strconv.Atoi(strings.Split(op.out, ",")[0])
			hist = append(hist, porcupine.Operation{ClientId: op.client, Input: "read", Output: v, Call: op.call, Return: op.ret})
		}
	}
	model := porcupine.Model{
		Init: func() interface{} { return 0 },
		Step: func(st, in, out interface{}) (bool, interface{}) {
			if in.(string) == "inc" {
				return out.(int) == st.(int)+1, st.(int) + 1
			}
			return out.(int) == st.(int), st
		},
	}
	switch porcupine.CheckOperationsTimeout(model, hist, 60*time.Second) {
	case porcupine.Illegal:
		rep("stress:not-linearizable", fmt.Sprintf("the history of %d increments/reads on the counter is not linearizable", len(hist)))
	case porcupine.Unknown:
		w.Inconclusive("porcupine timed out")
	}
	w.Count("stress_linearizability_ops", int64(len(hist)))
	if i == 0 {
		w.Sample(map[string]interface{}{"kind": "stress", "transactions": len(ops), "committed_increments": committed, "lock_timeouts": timeouts, "hold_intervals": nIntervals, "delay_profile": delay})
	}
	w.Case(core.Digest("stress", fmt.Sprint(i), delay), len(ops)-timeouts >= 100)
}

func firstOr(l []string) string {
	if len(l) == 0 {
		return ""
	}
	return l[0]
}

// ---- (b) systematic schedules under a step controller ----------------------------

type schedRole struct {
	name   string
	prog   string
	kind   string // W Wfu Wrb R
	cmd    *exec.Cmd
	goW    *os.File
	state  int // 0 running 1 parked 2 exited
	point  string
	code   int
	stdout *strings.Builder
	holds  map[string]byte
	steps  int
	silent bool // running but blocked outside any hook (e.g. spinning on flock): not waited for
}

type schedEvent struct {
	role, point, detail string
	exit                bool
	code                int
}

var c09Scenarios = [][]string{
	{"W", "W"}, {"W", "R"}, {"R", "W"}, {"Wfu", "W"}, {"W", "Wrb"}, {"Wfu", "R"}, {"W", "W", "R"}, {"R", "R", "W"}, {"Wsel", "W"}, {"Wfx", "W"}, {"Wfs", "W"}, {"Wun", "W"}, {"Wz", "W"},
}

func c09Prog(kind string) string {
	switch kind {
	case "W":
		return "UPDATE counter SET n = n + 1, m = m + 1;"
	case "Wfu":
		return "SELECT n FROM counter FOR UPDATE; UPDATE counter SET n = n + 1, m = m + 1;"
	case "Wrb":
		return "UPDATE counter SET n = n + 1, m = m + 1; ROLLBACK;"
	case "Wsel":
		return "SELECT n FROM counter; UPDATE counter SET n = n + 1, m = m + 1;"
	case "Wfx": // read FOR UPDATE, run other program text, write what was read: the hold spans the whole transaction
		return "VAR @v; SELECT @v := n FROM counter FOR UPDATE; EXECUTE 'VAR @x := 1;'; UPDATE counter SET n = @v + 1, m = @v + 1;"
	case "Wun": // the table is named only in the second operand of a set operation under FOR UPDATE
		return "SELECT id FROM aux WHERE id < 0 UNION ALL SELECT n FROM counter FOR UPDATE; VAR @v := (SELECT n FROM counter); UPDATE counter SET n = @v + 1, m = @v + 1;"
	case "Wz": // an UPDATE that matches no row, then read and write back: the hold starts with the first statement
		return "UPDATE counter SET n = -1 WHERE id < 0; VAR @v := (SELECT n FROM counter); UPDATE counter SET n = @v + 1, m = @v + 1;"
	case "Wfs":
		return "VAR @v; SELECT @v := n FROM counter FOR UPDATE; SOURCE `noop.sql`; UPDATE counter SET n = @v + 1, m = @v + 1;"
	}
	return "SELECT n, m FROM counter;"
}

// runSchedule executes one schedule. choose(decision index, enabled roles, current) returns the role index to release.
func runSchedule(w *core.Worker, scen []string, choose func(dec int, enabled []int, cur int) int) (sig []string, violations []string, switches int, ok bool) {
	d := core.FreshDir(w.Work, "sched")
	core.WriteFiles(d, map[string]string{"counter.csv": c09Counter, "aux.csv": "id\n1\n", "noop.sql": "VAR @sourced := 1;\n"})
	fifoDir := core.FreshDir(w.Work, "fifo")
	evPath := filepath.Join(fifoDir, "events")
	_ = syscall.Mkfifo(evPath, 0600)
	evF, err := os.OpenFile(evPath, os.O_RDWR, 0)
	if err != nil {
		return nil, nil, 0, false
	}
	defer evF.Close()
	events := make(chan schedEvent, 256)
	go func() {
		sc := bufio.NewScanner(evF)
		for sc.Scan() {
			f := strings.SplitN(sc.Text(), " ", 3)
			if len(f) < 2 {
				continue
			}
			e := schedEvent{role: f[0], point: f[1]}
			if len(f) > 2 {
				e.detail = f[2]
			}
			events <- e
		}
	}()
	roles := make([]*schedRole, len(scen))
	for k, kind := range scen {
		name := fmt.Sprintf("%s%d", kind, k)
		gp := filepath.Join(fifoDir, "go."+name)
		_ = syscall.Mkfifo(gp, 0600)
		gf, err := os.OpenFile(gp, os.O_RDWR, 0)
		if err != nil {
			return nil, nil, 0, false
		}
		defer gf.Close()
		ro := &schedRole{name: name, kind: kind, prog: c09Prog(kind), goW: gf, stdout: &strings.Builder{}, holds: map[string]byte{}}
		cmd := exec.Command(core.CsvqBin, csvqArgs("-q", "-f", "CSV", "--without-header", "--wait-timeout", "60", ro.prog)...)
		cmd.Dir = d
		cmd.Env = append(core.BaseEnv(), "VERIF_SCHED="+fifoDir, "VERIF_ROLE="+name, "VERIF_SCHED_SKIP=load.begin,load.end,txcommit.encode,txcommit.encoded,txrollback.begin,txrollback.end,cf.closed")
		cmd.Stdout = ro.stdout
		ro.cmd = cmd
		roles[k] = ro
		if err := cmd.Start(); err != nil {
			return nil, nil, 0, false
		}
		go func(k int, ro *schedRole) {
			err := ro.cmd.Wait()
			code := 0
			if ee, ok := err.(*exec.ExitError); ok {
				code = ee.ExitCode()
			}
			events <- schedEvent{role: ro.name, exit: true, code: code}
		}(k, ro)
	}
	defer func() {
		for _, ro := range roles {
			if ro.state != 2 && ro.cmd.Process != nil {
				_ = ro.cmd.Process.Kill()
			}
		}
	}()
	byName := map[string]*schedRole{}
	for _, ro := range roles {
		byName[ro.name] = ro
	}
	viol := func(s string) { violations = append(violations, s) }
	apply := func(e schedEvent) {
		ro := byName[e.role]
		if ro == nil {
			return
		}
		if e.exit {
			ro.state, ro.code = 2, e.code
			return
		}
		ro.state, ro.point = 1, e.point
		ro.silent = false
		ro.steps++
		name := pointName(e.point)
		sig = append(sig, ro.name+":"+name)
		switch name {
		case "hold.x.begin", "hold.s.begin":
			mode := name[5]
			for _, o := range roles {
				if o == ro {
					continue
				}
				if m, held := o.holds[e.detail]; held && (m == 'x' || mode == 'x') {
					viol(fmt.Sprintf("%s acquired %c access to %s while %s holds %c access", ro.name, mode, filepath.Base(e.detail), o.name, m))
				}
			}
			ro.holds[e.detail] = mode
		case "hold.end":
			delete(ro.holds, e.detail)
		}
	}
	waitQuiescent := func(timeout time.Duration) bool {
		deadline := time.After(timeout)
		for {
			running := false
			for _, ro := range roles {
				if ro.state == 0 && !ro.silent {
					running = true
				}
			}
			if !running {
				return true
			}
			select {
			case e := <-events:
				apply(e)
			case <-deadline:
				return false
			}
		}
	}
	if !waitQuiescent(20 * time.Second) {
		return sig, violations, 0, false
	}
	cur, dec := -1, 0
	started := time.Now()
	for step := 0; step < 900; step++ {
		if time.Since(started) > 40*time.Second {
			return sig, violations, switches, false // wall-clock watchdog: inconclusive, never a verdict
		}
		var enabled, atRetry []int
		alive := false
		for k, ro := range roles {
			if ro.state != 2 {
				alive = true
			}
			if ro.state == 1 {
				if pointName(ro.point) == "retry" {
					atRetry = append(atRetry, k)
				} else {
					enabled = append(enabled, k)
				}
			}
		}
		if !alive {
			break
		}
		pick := -1
		switch {
		case len(enabled) == 0 && len(atRetry) > 0:
			pick = atRetry[step%len(atRetry)]
		case len(enabled) == 1:
			pick = enabled[0]
		case len(enabled) > 1:
			pick = choose(dec, enabled, cur)
			dec++
		default:
			// everybody alive is running silently (sleeping in a retry delay / spinning on flock): wait for an event
			for _, ro := range roles {
				ro.silent = false
			}
			if !waitQuiescent(15 * time.Second) {
				return sig, violations, switches, false
			}
			continue
		}
		if cur >= 0 && pick != cur && roles[cur].state == 1 {
			switches++
		}
		cur = pick
		roles[pick].state = 0
		_, _ = roles[pick].goW.Write([]byte{1})
		if !waitQuiescent(1500 * time.Millisecond) {
			// the released role makes no progress outside a hook (e.g. it waits for a flock another
			// role holds): mark it silent and let the others go on; its next event wakes it up
			roles[pick].silent = true
		}
	}
	for _, ro := range roles {
		if ro.state != 2 {
			return sig, violations, switches, false
		}
	}
	// end-of-run checks
	for _, ro := range roles {
		if ro.code == -1 {
			return sig, violations, switches, false // ended by a signal nobody in this schedule sends: says nothing about csvq
		}
	}
	committed := 0
	for _, ro := range roles {
		if ro.code != 0 {
			viol(fmt.Sprintf("%s ended with exit code %d", ro.name, ro.code))
		}
		if (ro.kind == "W" || ro.kind == "Wfu" || ro.kind == "Wsel" || ro.kind == "Wfx" || ro.kind == "Wfs" || ro.kind == "Wun" || ro.kind == "Wz") && ro.code == 0 {
			committed++
		}
		if ro.kind == "R" && ro.code == 0 {
			f := strings.Split(strings.TrimSpace(ro.stdout.String()), ",")
			if len(f) != 2 || f[0] != f[1] {
				viol(fmt.Sprintf("reader %s saw n,m = %q", ro.name, strings.TrimSpace(ro.stdout.String())))
			} else if v, _ := strconv.Atoi(f[0]); v < 0 || v > len(roles) {
				viol(fmt.Sprintf("reader %s saw an impossible counter %q", ro.name, f[0]))
			}
		}
	}
	b, _ := os.ReadFile(filepath.Join(d, "counter.csv"))
	if want := fmt.Sprintf("id,n,m\n1,%d,%d\n", committed, committed); string(b) != want {
		viol(fmt.Sprintf("final table is %q but %d writers committed (lost update)", string(b), committed))
	}
	for _, n := range core.TakeSnap(d).Names() {
		if core.IsControlFile(n) {
			viol("control file left: " + n)
		}
	}
	return sig, violations, switches, true
}

func c09Schedules(w *core.Worker, i int) {
	r := w.Rng(i, "sched")
	// case → scenario and a block of schedule indices
	j := i - i/5 - 1 // running index over schedule cases
	scen := c09Scenarios[j%len(c09Scenarios)]
	block := j / len(c09Scenarios)
	per := 24
	if w.Tier == "thorough" {
		per = 40
	}
	const depth = 14
	nontrivial := 0
	for k := 0; k < per; k++ {
		var choices []byte
		var chooser func(dec int, enabled []int, cur int) int
		if len(scen) == 2 {
			// bit string over the first `depth` decision points; index spread over the whole space
			idx := uint64(block*per+k) * 2654435761 % (1 << depth)
			if block*per+k < 2 {
				idx = uint64(block*per+k) * ((1 << depth) - 1) // all-zeros and all-ones: run one role to completion first
			}
			chooser = func(dec int, enabled []int, cur int) int {
				var pick int
				if dec < depth {
					pick = enabled[int(idx>>uint(dec))&1%len(enabled)]
				} else if containsInt(enabled, cur) {
					pick = cur
				} else {
					pick = enabled[0]
				}
				choices = append(choices, byte('0'+pick))
				return pick
			}
		} else {
			budget := 3
			chooser = func(dec int, enabled []int, cur int) int {
				pick := enabled[0]
				if containsInt(enabled, cur) {
					pick = cur
					if budget > 0 && r.P(15) {
						budget--
						pick = enabled[r.Intn(len(enabled))]
					}
				} else {
					pick = enabled[r.Intn(len(enabled))]
				}
				choices = append(choices, byte('0'+pick))
				return pick
			}
		}
		sig, viols, switches, ok := runSchedule(w, scen, chooser)
		sd := core.Digest(append([]string{strings.Join(scen, "")}, sig...)...)
		if !ok {
			w.Inconclusive(fmt.Sprintf("schedule %v/%s did not run to completion (%d events)", scen, string(choices), len(sig)))
			w.Case(sd, false)
			continue
		}
		for _, v := range viols {
			tail := sig
			if len(tail) > 80 {
				tail = tail[len(tail)-80:]
			}
			w.Violation("sched:"+strings.SplitN(v, " ", 3)[1], fmt.Sprintf("scenario %v schedule %s: %s", scen, string(choices), v), c09Replay{Kind: "schedule", Scenario: scen, Choices: string(choices), Trace: tail, Detail: v})
		}
		w.Note("schedule_signatures", sd)
		seenPt := map[string]bool{}
		for _, e := range sig {
			if k := strings.Index(e, ":"); k >= 0 && !seenPt[e[k+1:]] {
				seenPt[e[k+1:]] = true
				w.Count("schedules_reaching:"+e[k+1:], 1)
			}
		}
		w.Count("schedule_steps", int64(len(sig)))
		w.Count("schedules_run", 1)
		if switches >= 2 {
			nontrivial++
		}
		if j < 3 && k == 2 {
			w.Sample(map[string]interface{}{"kind": "schedule", "scenario": scen, "choices": string(choices), "events": sig})
		}
		w.Case(sd, switches >= 2)
	}
}

func containsInt(xs []int, x int) bool {
	for _, v := range xs {
		if v == x {
			return true
		}
	}
	return false
}

// c09Creators: two processes create the same table at the same time (CREATE TABLE + INSERT, committed at the end), each held
// up at one step of its acquisition or before its commit. Whatever the timing made of it: at most one of them can have
// succeeded; if one did, the table exists afterwards and holds exactly that process's row (a committed change survives, the
// process that could not get access changed nothing); if none did, no table exists; no control file remains.
func c09Creators(w *core.Worker, i int) {
	points := []string{"", "lock.checked", "lock.created", "lock.rechecked", "hold.c.begin", "txcommit.begin", "commit.data_closed"}
	type pair struct{ pa, pb string }
	var pairs []pair
	k := 0
	for _, a := range points {
		for _, b := range points {
			if k%7 == (i/5)%7 {
				pairs = append(pairs, pair{a, b})
			}
			k++
		}
	}
	type outcome struct {
		pr     pair
		ra, rb core.ProcResult
		data   string
		exists bool
		left   []string
	}
	outs := make(chan outcome, len(pairs))
	sem := make(chan struct{}, 4)
	prog := func(who string) string {
		return "CREATE TABLE `new.csv` (a, b); INSERT INTO `new.csv` VALUES ('" + who + "', 'row');"
	}
	for n, pr := range pairs {
		d := filepath.Join(w.Work, fmt.Sprintf("creators%d", n))
		_ = os.RemoveAll(d)
		_ = os.MkdirAll(d, 0755)
		go func(pr pair, d string) {
			sem <- struct{}{}
			defer func() { <-sem }()
			env := func(pt string, ms int) []string {
				if pt == "" {
					return nil
				}
				return []string{fmt.Sprintf("VERIF_DELAY=%s=%d", pt, ms)}
			}
			ca := make(chan core.ProcResult, 1)
			go func() {
				ca <- core.RunProc(core.ProcOpts{Dir: d, Args: csvqArgs("-q", "--wait-timeout", "3", prog("A")), Env: env(pr.pa, 500), Timeout: 60 * time.Second})
			}()
			time.Sleep(150 * time.Millisecond)
			rb := core.RunProc(core.ProcOpts{Dir: d, Args: csvqArgs("-q", "--wait-timeout", "3", prog("B")), Env: env(pr.pb, 700), Timeout: 60 * time.Second})
			ra := <-ca
			o := outcome{pr: pr, ra: ra, rb: rb}
			if b, err := os.ReadFile(filepath.Join(d, "new.csv")); err == nil {
				o.exists, o.data = true, string(b)
			}
			for _, nm := range core.TakeSnap(d).Names() {
				if core.IsControlFile(nm) {
					o.left = append(o.left, nm)
				}
			}
			_ = os.RemoveAll(d)
			outs <- o
		}(pr, d)
	}
	for range pairs {
		o := <-outs
		desc := fmt.Sprintf("creator A held at %q, creator B (started 150 ms later) held at %q; exits %d and %d", o.pr.pa, o.pr.pb, o.ra.Code, o.rb.Code)
		rep := c09Replay{Kind: "creators", Detail: desc + "; VERIF_DELAY=" + o.pr.pa + "=500 / " + o.pr.pb + "=700; program: " + prog("A|B")}
		if o.ra.KilledFromOutside() || o.rb.KilledFromOutside() {
			w.Inconclusive("a creator was ended by a signal from outside the case")
			continue
		}
		winners := ""
		if o.ra.Code == 0 {
			winners += "A"
		}
		if o.rb.Code == 0 {
			winners += "B"
		}
		switch {
		case len(winners) == 2:
			w.Violation("creators:both-succeeded", desc+": both processes report the table as created and committed", rep)
		case len(winners) == 1 && !o.exists:
			w.Violation("creators:committed-table-gone", desc+": "+winners+" committed the new table, yet no file exists afterwards ("+truncateStr(o.ra.Stderr+o.rb.Stderr, 160)+")", rep)
		case len(winners) == 1 && o.data != "a,b\n"+winners+",row\n":
			w.Violation("creators:table", fmt.Sprintf("%s: %s committed, the file holds %q", desc, winners, o.data), rep)
		case len(winners) == 0 && o.exists:
			w.Violation("creators:table", fmt.Sprintf("%s: neither process succeeded, yet a file exists: %q", desc, o.data), rep)
		}
		if len(o.left) > 0 {
			w.Violation("creators:leftover", fmt.Sprintf("%s: control files left: %v", desc, o.left), rep)
		}
		for _, rr := range []core.ProcResult{o.ra, o.rb} {
			if strings.Contains(rr.Stderr, "Fatal Error") || strings.Contains(rr.Stderr, "panic:") {
				w.Violation("creators:internal-failure", desc+": "+truncateStr(rr.Stderr, 200), rep)
			}
		}
		w.Count("racing_creations_run", 1)
		if len(winners) == 1 {
			w.Count("racing_creations_with_one_winner", 1)
		}
		w.Note("creator_pairs", o.pr.pa+"|"+o.pr.pb)
		w.Case(core.Digest("creators", o.pr.pa, o.pr.pb, fmt.Sprint(i)), len(winners) == 1)
	}
}

// c09WithClause: the read-modify-write is ONE data-changing statement whose WITH clause reads the table it updates. The
// statement is the transaction's first data-changing statement, so the table is to be held from there on: N committed
// increments must add up to N. (Kept apart from the stress round so that its verdict names this statement form.)
func c09WithClause(w *core.Worker, i int) {
	d := core.FreshDir(w.Work, "withclause")
	core.WriteFiles(d, map[string]string{"counter.csv": "id,n\n1,0\n"})
	forms := []string{
		"WITH w AS (SELECT n FROM counter) UPDATE counter SET n = (SELECT n FROM w) + 1;",
		"WITH w AS (SELECT n + 1 AS m FROM counter) UPDATE counter SET n = w.m FROM counter CROSS JOIN w;",
	}
	form := forms[(i/15)%len(forms)]
	var committed, killed int64
	var wg sync.WaitGroup
	for c := 0; c < 6; c++ {
		wg.Add(1)
		go func() {
			defer wg.Done()
			for k := 0; k < 5; k++ {
				res := core.RunProc(core.ProcOpts{Dir: d, Args: csvqArgs("-q", "--wait-timeout", "30", form), Timeout: 120 * time.Second})
				if res.KilledFromOutside() {
					atomic.AddInt64(&killed, 1)
				} else if res.Code == 0 {
					atomic.AddInt64(&committed, 1)
				} else if res.Code != 8 {
					w.Violation("with-clause:unexpected-exit", fmt.Sprintf("%s ended with %s", form, res), c09Replay{Kind: "with-clause", Detail: form})
				}
			}
		}()
	}
	wg.Wait()
	if killed > 0 {
		w.Inconclusive("a process of the WITH-clause probe was ended by a signal from outside the case")
		return
	}
	b, _ := os.ReadFile(filepath.Join(d, "counter.csv"))
	got := -1
	fmt.Sscanf(string(b), "id,n\n1,%d\n", &got)
	rep := c09Replay{Kind: "with-clause", Detail: fmt.Sprintf("6 clients x 5 runs of: %s", form)}
	switch {
	case got >= 0 && int64(got) < committed:
		w.Violation("with-clause:target-read-before-it-is-held", fmt.Sprintf("%d runs of %q committed, the counter stands at %d: increments were lost", committed, form, got), rep)
	case int64(got) != committed:
		w.Violation("with-clause:table", fmt.Sprintf("%d runs of %q committed, the table is %q", committed, form, string(b)), rep)
	}
	w.Count("with_clause_increments_committed", committed)
	w.Case(core.Digest("withclause", fmt.Sprint(i)), committed >= 20)
}
