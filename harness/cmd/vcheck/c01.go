package main

import (
	"bytes"
	"fmt"
	"os"
	"path/filepath"
	"strings"
	"time"

	"verif/internal/core"
)

func init() {
	core.Register(&core.Spec{
		ID: "C01", Level: "fault_enumeration",
		Rule: "one case = one generated procedure (INSERT/UPDATE/DELETE/REPLACE/CREATE TABLE/ALTER TABLE on 2..3 files in csv/tsv/json/jsonl/ltsv and 0..2 temporary tables, COMMIT/ROLLBACK at top level and inside blocks, IF/WHILE). It is run by the real binary once undisturbed and then once per (top-level position p, termination kind in {failing statement, EXIT, EXIT 3, TRIGGER ERROR}) and per (statement execution h, signal in {SIGINT,SIGTERM}) delivered exactly before the h-th statement through a hook. " +
			"Oracle: the procedure dumps every table (SELECT *) before each COMMIT and at its end; with C = number of commits the hook trace shows completed, the disk (re-read by a fresh process) must equal dump C (or the initial files if C=0), files created later must not exist, the untouched file must be byte-identical, and after each ROLLBACK every table must equal the last committed dump. " +
			"non-trivial = the variant ended the way it was meant to (exit code/signal) after at least one data-changing statement; distinct = (procedure digest, variant).",
		Quick: 24, Thorough: 800, FloorQuick: 600, FloorThorough: 20000,
		CaseTimeout: 20 * time.Minute,
		Assumptions: []string{"NULL and empty text coincide in the comparison (CSV/TSV/LTSV spell both the same)", "a signal delivered while the final implicit COMMIT is running may legally leave either all-old or all-new state; signals are injected before statements, never inside that commit (C11 walks the commit points)"},
		Fn:          c01Case,
	})
}

type txReplay struct {
	Files   map[string]string `json:"files"`
	Program string            `json:"program"`
	Env     []string          `json:"env"`
	Variant string            `json:"variant"`
}

type txRun struct {
	res     core.ProcResult
	trace   []core.TraceEv
	commits int
	stmts   int
	snap    core.Snap
}

func runTx(w *core.Worker, base string, prog string, env []string, name string) (string, txRun) {
	d := filepath.Join(w.Work, name)
	_ = os.RemoveAll(d)
	copyDir(base, d)
	tp := filepath.Join(w.Work, name+".trace")
	_ = os.Remove(tp)
	res := core.RunProc(core.ProcOpts{Dir: d, Args: csvqArgs("-q", "-f", "JSONL", "--wait-timeout", "2", prog), Env: append([]string{"VERIF_TRACE=" + tp}, env...), Timeout: 120 * time.Second})
	r := txRun{res: res, trace: core.ReadTrace(tp), snap: core.TakeSnap(d)}
	for _, e := range r.trace {
		switch e.Name {
		case "txcommit.end":
			r.commits++
		case "stmt":
			r.stmts++
		}
	}
	return d, r
}

// txJudge checks the directory left by a run against the observation-based expectation.
// initial: table name → rows read from the initial files. Returns number of violations.
func txJudge(w *core.Worker, p *txProc, dir string, r txRun, initial map[string][][]string, base core.Snap, variant string, env []string) int {
	nv := 0
	if r.res.Signal == 9 && !r.res.TimedOut {
		// no termination of this check is a SIGKILL: the run was ended from outside (out of scope here, C10) and says nothing
		w.Inconclusive(fmt.Sprintf("[%s] the process was ended by SIGKILL from outside the case", variant))
		return 0
	}
	viol := func(sig, what string) {
		nv++
		w.Violation(sig, fmt.Sprintf("[%s] %s (exit %d signal %d, %d commits completed)", variant, what, r.res.Code, r.res.Signal, r.commits),
			txReplay{Files: small(p.Files), Program: p.Text(), Env: env, Variant: variant})
	}
	if strings.Contains(r.res.Stderr, "Fatal Error") || strings.Contains(r.res.Stderr, "panic:") {
		viol("internal-failure", "internal failure: "+truncateStr(r.res.Stderr, 300))
	}
	dumps := parseDumps(r.res.Stdout)
	var cd []txDump
	lastC := -1
	for _, d := range dumps {
		if d.Tag == "c" && d.Done {
			cd = append(cd, d)
			lastC = len(cd) - 1
			continue
		}
		if d.Tag == "r" && d.Done {
			// after ROLLBACK every table equals its state at the last commit
			for _, tn := range sortedKeys(d.Tables) {
				var want [][]string
				if lastC >= 0 {
					x, ok := cd[lastC].Tables[tn]
					if !ok {
						continue
					}
					want = x
				} else if x, ok := initial[tn]; ok {
					want = x
				} else {
					continue
				}
				if !rowsEqual(d.Tables[tn], want) {
					viol("rollback-state", fmt.Sprintf("after ROLLBACK table %s is %s, at the last COMMIT it was %s", tn, rowsText(d.Tables[tn], 6), rowsText(want, 6)))
				}
			}
		}
	}
	if r.commits > len(cd) {
		viol("oracle-mismatch", fmt.Sprintf("%d commits completed but only %d pre-commit dumps were printed", r.commits, len(cd)))
		return nv
	}
	fileOf := map[string]string{}
	for _, t := range p.Initial {
		fileOf[t.Name] = t.File
	}
	for k := 1; k <= 2; k++ {
		fileOf[fmt.Sprintf("n%d", k)] = fmt.Sprintf("n%d.csv", k)
	}
	expectFiles := map[string]bool{"untouched.csv": true}
	if r.commits == 0 {
		for _, t := range p.Initial {
			expectFiles[t.File] = true
			if e, ok := r.snap[t.File]; !ok || !bytes.Equal(e.Data, base[t.File].Data) {
				viol("changed-without-commit", fmt.Sprintf("no COMMIT completed but file %s differs from its initial bytes", t.File))
			}
		}
	} else {
		exp := cd[r.commits-1]
		for _, tn := range sortedKeys(exp.Tables) {
			f, ok := fileOf[tn]
			if !ok {
				continue // temporary table
			}
			expectFiles[f] = true
			if _, ok := r.snap[f]; !ok {
				viol("committed-table-missing", fmt.Sprintf("table %s was committed but file %s does not exist", tn, f))
				continue
			}
			got, err := readDisk(dir, f)
			if err != nil {
				viol("unreadable-after-run", err.Error())
				continue
			}
			if !rowsEqual(got, exp.Tables[tn]) {
				viol("disk-differs", fmt.Sprintf("file %s holds %s but the procedure saw %s at its last completed COMMIT", f, rowsText(got, 6), rowsText(exp.Tables[tn], 6)))
			}
		}
	}
	if e, ok := r.snap["untouched.csv"]; !ok || !bytes.Equal(e.Data, base["untouched.csv"].Data) {
		viol("untouched-changed", "a file the transaction never changed is not byte-identical")
	}
	for _, n := range r.snap.Names() {
		if expectFiles[n] {
			continue
		}
		if core.IsControlFile(n) {
			viol("leftover-control-file", "control file left behind: "+n)
		} else {
			viol("uncommitted-file-exists", fmt.Sprintf("file %s exists although it was not part of the last committed state", n))
		}
	}
	return nv
}

// c01ShadowedTemp: COMMIT and ROLLBACK executed inside a block that has declared a temporary table of the name of an outer one that
// carries uncommitted changes. Every temporary table — the shadowed outer one too — goes back to its state at the most recent
// COMMIT (or at its declaration), and a COMMIT inside the block is a commit for both.
func c01ShadowedTemp(w *core.Worker, i int) {
	r := w.Rng(i, "shadowtemp")
	for k := 0; k < 6; k++ {
		o1, o2, o3, i1, i2, i3 := r.Range(1, 9), r.Range(10, 19), r.Range(20, 29), r.Range(100, 109), r.Range(110, 119), r.Range(120, 129)
		blk := []string{"IF TRUE THEN\n%s\nEND IF;", "VAR @w := 0; WHILE @w < 1 DO\n@w := @w + 1;\n%s\nEND WHILE;", "DECLARE blk FUNCTION () AS BEGIN\n%s\nRETURN 0; END; VAR @r := blk();", "IF TRUE THEN IF TRUE THEN\n%s\nEND IF; END IF;"}[r.Intn(4)]
		inner := fmt.Sprintf("DECLARE t VIEW (a) AS SELECT %d; INSERT INTO t VALUES (%d);", i1, i2)
		var body, tail string
		var want []string
		switch r.Intn(3) {
		case 0:
			body = inner + " ROLLBACK; SELECT 'inner', a FROM t;"
			want = []string{fmt.Sprintf("inner,%d", i1), fmt.Sprintf("outer,%d", o1)}
		case 1:
			body = inner + fmt.Sprintf(" COMMIT; INSERT INTO t VALUES (%d);", i3)
			tail = fmt.Sprintf("INSERT INTO t VALUES (%d); ROLLBACK;", o3)
			want = []string{fmt.Sprintf("outer,%d", o1), fmt.Sprintf("outer,%d", o2)}
		default:
			body = inner + fmt.Sprintf(" COMMIT; INSERT INTO t VALUES (%d); ROLLBACK; SELECT 'inner', a FROM t;", i3)
			want = []string{fmt.Sprintf("inner,%d", i1), fmt.Sprintf("inner,%d", i2), fmt.Sprintf("outer,%d", o1), fmt.Sprintf("outer,%d", o2)}
		}
		prog := fmt.Sprintf("DECLARE t VIEW (a) AS SELECT %d; INSERT INTO t VALUES (%d);\n", o1, o2) + fmt.Sprintf(blk, body) + "\n" + tail + "\nSELECT 'outer', a FROM t;"
		res := core.RunProc(core.ProcOpts{Dir: w.Work, Args: csvqArgs("-q", "-f", "CSV", "--without-header", prog), Timeout: 60 * time.Second})
		got := strings.Fields(strings.TrimSpace(res.Stdout))
		if res.Code != 0 || strings.Join(got, " ") != strings.Join(want, " ") {
			w.Violation("rollback-state:shadowed-temporary-table", fmt.Sprintf("the program reads %v (exit %d %s), expected %v\n%s", got, res.Code, truncateStr(res.Stderr, 120), want, prog), txReplay{Program: prog, Variant: "shadowed temporary table"})
		}
		w.Count("programs_with_commit_or_rollback_under_a_shadowing_temporary_table", 1)
	}
}

func c01Case(w *core.Worker, i int) {
	if i%6 == 1 {
		c01ShadowedTemp(w, i)
	}
	r := w.Rng(i, "")
	p := genTxProc(r, r.Range(4, 12))
	if i%3 == 1 && len(p.Units) > 1 && !strings.Contains(p.Text(), "CREATE TABLE") && !strings.Contains(p.Text(), "SET @@") {
		// every third procedure prints its own results without header lines: an option of the session's output, not of the
		// table files it commits (no table is created under it: a created table takes the option as its attribute, by design);
		// the CSV table with a header line is among the files of the last transaction
		last := p.Units[len(p.Units)-1]
		p.Units = append(append([]string{"SET @@WITHOUT_HEADER TO TRUE;"}, p.Units[:len(p.Units)-1]...), "INSERT INTO `f1` (id) VALUES (99991);", last)
	}
	if strings.Contains(p.Text(), "SET @@") {
		w.Count("procedures_that_set_an_output_option_of_the_session", 1)
	}
	base := core.FreshDir(w.Work, "base")
	_ = os.WriteFile(filepath.Join(w.Work, "noop.sql"), []byte("PRINT 'sourced';\n"), 0644)
	core.WriteFiles(base, p.Files)
	baseSnap := core.TakeSnap(base)
	initial := map[string][][]string{}
	for _, t := range p.Initial {
		rows, err := readDisk(base, t.File)
		if err != nil {
			w.Inconclusive("initial file unreadable: " + err.Error())
			return
		}
		initial[t.Name] = rows
	}
	digest := core.Digest(p.Text(), fmt.Sprint(len(p.Files)))
	// undisturbed run
	dir, run := runTx(w, base, p.Text(), nil, "run")
	if run.res.Code != 0 {
		if w.Replay {
			fmt.Println(p.Text())
			fmt.Println(run.res.Stderr)
		}
		if strings.Contains(run.res.Stderr, "Fatal Error") {
			w.Violation("internal-failure", "the generated procedure ends in an internal failure: "+truncateStr(run.res.Stderr, 400), txReplay{Files: small(p.Files), Program: p.Text(), Variant: "none"})
		}
		if strings.Contains(run.res.Stderr, "failed to commit") {
			// the final automatic COMMIT is refused (a format without a header line has nothing to write): an ending like any
			// other failing COMMIT — the disk must hold the last completed one; the inserted terminations below still apply
			txJudge(w, p, dir, run, initial, baseSnap, "none (final commit refused)", nil)
			w.Count("procedures_whose_final_commit_is_refused", 1)
			w.Case(digest+"/none", true)
		} else {
			// the procedure ended in an error the generator did not plan: still an ending — what the files hold is judged; only
			// the enumeration of further endings is given up
			txJudge(w, p, dir, run, initial, baseSnap, "none (the procedure ended in an error of its own)", nil)
			w.Inconclusive(fmt.Sprintf("generated procedure fails by itself: %s", truncateStr(run.res.Stderr, 200)))
			w.Case(digest+"/none", false)
			return
		}
	} else {
		txJudge(w, p, dir, run, initial, baseSnap, "none", nil)
		w.Case(digest+"/none", true)
	}
	totalStmts := run.stmts
	if i < 3 {
		w.Sample(map[string]interface{}{"procedure": truncateStr(p.Text(), 1500), "files": len(p.Files), "statement_executions": totalStmts})
	}
	// termination by a statement inserted at every top-level position
	kinds := []struct {
		name, stmt string
		code       int
	}{
		{"error", "", 1}, {"exit", "EXIT;", 0}, {"exit3", "EXIT 3;", 3}, {"trigger", "TRIGGER ERROR 5 'boom';", 5},
	}
	// the same terminations reached through another statement: inside EXECUTE, a sourced file, nested blocks (every third position)
	exitFile := filepath.Join(w.Work, "exit.sql")
	_ = os.WriteFile(exitFile, []byte("PRINT 'in sourced file';\nEXIT;\n"), 0644)
	nested := []struct {
		name, stmt string
		code       int
	}{
		{"exit-in-execute", "EXECUTE 'EXIT;';", 0}, {"exit3-in-execute", "EXECUTE 'EXIT 3;';", 3}, {"exit-in-source", "SOURCE `" + exitFile + "`;", 0},
		{"exit-in-blocks", "IF 1 = 1 THEN WHILE TRUE DO EXIT; END WHILE; END IF;", 0}, {"error-in-execute", "EXECUTE 'UPDATE f1 SET c1 = 1 / 0;';", 1},
		{"trigger-in-function", "DECLARE boom9 FUNCTION () AS BEGIN TRIGGER ERROR 5 'boom'; RETURN 1; END; VAR @boom9 := boom9();", 5},
	}
	// every one of these either fails or (on an empty table) changes nothing
	failing := []string{"SELECT * FROM no_such_table;", "INSERT INTO f1 VALUES (1);", "UPDATE f1 SET c1 = 1 / 0;", "DELETE FROM f1 WHERE nofield = 1;", "INSERT INTO untouched SELECT 1, 2, 3 FROM f1;", "UPDATE f1 SET c1 = (SELECT id FROM untouched x) WHERE id < 100000;"}
	// a COMMIT that fails while encoding: a JSON table gets a column whose name is not a valid JSON path
	for _, t := range p.Initial {
		if strings.HasSuffix(t.File, ".json") || strings.HasSuffix(t.File, ".jsonl") {
			kinds = append(kinds, struct {
				name, stmt string
				code       int
			}{"commitfail", "ALTER TABLE `" + t.Name + "` ADD `x..y` DEFAULT 1;", 1})
			break
		}
	}
	for pos := 0; pos <= len(p.Units); pos++ {
		ks := kinds
		if pos%3 == i%3 {
			ks = append(append(ks[:0:0], kinds...), nested...)
		}
		for _, k := range ks {
			stmt := k.stmt
			if k.name == "error" {
				stmt = failing[r.Intn(len(failing))]
			}
			units := append(append([]string{}, p.Units[:pos]...), stmt)
			if k.name != "commitfail" {
				units = append(units, "PRINT '##CONTINUED';") // nothing after the terminating statement may run
			}
			units = append(units, p.Units[pos:]...)
			variant := fmt.Sprintf("%s@%d", k.name, pos)
			d, vr := runTx(w, base, strings.Join(units, "\n"), nil, "var")
			ended := vr.res.Code == k.code && vr.res.Signal == 0
			if k.name == "error" || k.name == "commitfail" {
				ended = vr.res.Code != 0
			}
			// (a failing statement is not certain to fail: on an empty table it evaluates nothing)
			if strings.Contains(vr.res.Stdout, "##CONTINUED") && (strings.HasPrefix(k.name, "exit") || strings.HasPrefix(k.name, "trigger")) {
				w.Violation("continued-after-termination", fmt.Sprintf("[%s] the procedure went on after %q (exit %d)", variant, stmt, vr.res.Code), txReplay{Files: small(p.Files), Program: strings.Join(units, "\n"), Variant: variant})
			}
			txJudge(w, p, d, vr, initial, baseSnap, variant+" "+stmt, nil)
			w.Note("termination_kinds", k.name)
			w.Case(digest+"/"+variant, ended && pos > 0)
		}
	}
	// signals exactly before the h-th statement execution
	hits := []int{}
	if totalStmts <= 14 {
		for h := 1; h <= totalStmts; h++ {
			hits = append(hits, h)
		}
	} else {
		seen := map[int]bool{}
		for len(hits) < 14 {
			h := r.Range(1, totalStmts)
			if !seen[h] {
				seen[h] = true
				hits = append(hits, h)
			}
		}
	}
	var sigPoints []string
	for _, h := range hits {
		sigPoints = append(sigPoints, fmt.Sprintf("stmt#%d", h))
	}
	// ... and at the steps of every COMMIT (encode, swap, release): the signal races with the commit, so the
	// commit may complete or be abandoned, but the tables must all be in the state of one completed COMMIT
	var commitPts []string
	for _, e := range run.trace {
		if strings.HasPrefix(e.Name, "txcommit.") || strings.HasPrefix(e.Name, "commit.") {
			commitPts = append(commitPts, e.Point)
		}
	}
	for _, k := range r.Perm(len(commitPts)) {
		if len(sigPoints) >= len(hits)+16 {
			break
		}
		sigPoints = append(sigPoints, commitPts[k])
	}
	for pk, pt := range sigPoints {
		for sk, sg := range []string{"INT", "TERM"} {
			env := []string{fmt.Sprintf("VERIF_SIGNAL_AT=%s:%s", pt, sg)}
			variant := fmt.Sprintf("SIG%s@%s", sg, pt)
			if (pk+sk)%3 == 0 {
				// the same signal a second time as soon as the first has been taken: still a catchable way of ending
				env = append(env, "VERIF_SIGNAL_TWICE=1")
				variant = fmt.Sprintf("SIG%sx2@%s", sg, pt)
				w.Count("runs_with_a_repeated_signal", 1)
			}
			w.Note("signal_points", pointName(pt))
			d, vr := runTx(w, base, p.Text(), env, "var")
			txJudge(w, p, d, vr, initial, baseSnap, variant, env)
			ended := vr.res.Code != 0 || vr.res.Signal != 0
			w.Note("termination_kinds", "SIG"+sg)
			w.Case(digest+"/"+variant, ended)
		}
	}
}
