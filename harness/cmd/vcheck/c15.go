package main

import (
	"fmt"
	"os"
	"path/filepath"
	"sort"
	"strconv"
	"strings"

	"verif/internal/core"
)

func init() {
	core.Register(&core.Spec{
		ID: "C15", Level: "exploration",
		Rule: "one case = one generated procedure over a three-name variable alphabet (@a,@b,@c), two function names and block-local cursors / temporary tables: nested IF / ELSEIF / CASE / WHILE blocks (depth <= 5), re-declarations in inner blocks (shadowing) and in the same block (error), assignments to outer variables, DISPOSE, use after the declaring block ended, BREAK / CONTINUE / EXIT, scalar functions with defaults, locals that shadow globals, recursion (depth <= 6) and mutual calls, RETURN from inside loops; every 8th case also calls the function from a query over 200..700 rows with --cpu 2..8 (concurrent invocations). 150 procedures run in each harness process so pooled scope objects are recycled. " +
			"Oracle: a reference interpreter with block-scoped environments; the PRINT trace and whether (and where) the run ends in an error must agree. non-trivial = the procedure printed at least 4 values and contains shadowing or a call; distinct = program digest.",
		Quick: 8000, Thorough: 1000000, FloorQuick: 1200, FloorThorough: 150000,
		Assumptions: []string{"function bodies refer only to parameters, locals and top-level variables that are never shadowed (the manual does not say whether a caller's locals are visible)", "all values are small integers"},
		Setup:       func(w *core.Worker) { core.HermeticProcess(w.Work) },
		Fn:          c15Case,
	})
}

// ---- AST ------------------------------------------------------------------------

type pExpr struct {
	k    string // lit var bin call
	n    int
	name string
	op   string
	a, b *pExpr
	args []*pExpr
}

// c15ViaQuery: expressions that call a user-defined function are evaluated inside a query, (SELECT <expr>): the calls of
// one expression then belong to one running query (set per case; a worker process runs one case at a time)
var c15ViaQuery bool

func (e *pExpr) hasCall() bool {
	if e == nil {
		return false
	}
	if e.k == "call" {
		return true
	}
	for _, x := range e.args {
		if x.hasCall() {
			return true
		}
	}
	return e.a.hasCall() || e.b.hasCall()
}

// Top renders an expression in statement position.
func (e *pExpr) Top() string {
	if c15ViaQuery && e.hasCall() {
		return "(SELECT " + e.SQL() + ")"
	}
	return e.SQL()
}

func (e *pExpr) SQL() string {
	switch e.k {
	case "lit":
		if e.n < 0 {
			return "(" + strconv.Itoa(e.n) + ")"
		}
		return strconv.Itoa(e.n)
	case "var":
		return e.name
	case "bin":
		return "(" + e.a.SQL() + " " + e.op + " " + e.b.SQL() + ")"
	case "call":
		var a []string
		for _, x := range e.args {
			a = append(a, x.SQL())
		}
		return e.name + "(" + strings.Join(a, ", ") + ")"
	}
	return "NULL"
}

type pStmt struct {
	k      string // var assign print if while curloop break continue exit func return dispose cursor probe_cursor view probe_view
	name   string
	e      *pExpr
	cond   *pExpr
	body   []*pStmt
	els    []*pStmt
	asCase bool
	params []string
	defs   []*pExpr // defaults aligned to the tail of params (nil = required)
	limit  int
}

func renderStmts(ss []*pStmt, ind string) string {
	var sb strings.Builder
	for _, s := range ss {
		sb.WriteString(s.SQL(ind))
	}
	return sb.String()
}

func (s *pStmt) SQL(ind string) string {
	switch s.k {
	case "var":
		return ind + "VAR " + s.name + " := " + s.e.Top() + ";\n"
	case "var2":
		// one statement declaring two variables; the second initial value may refer to the first variable
		return ind + "VAR " + s.name + " := " + s.e.SQL() + ", " + s.params[0] + " := " + s.cond.SQL() + ";\n"
	case "assign":
		return ind + s.name + " := " + s.e.Top() + ";\n"
	case "print":
		return ind + "PRINT " + s.e.Top() + ";\n"
	case "if":
		if s.asCase {
			r := ind + "CASE\n" + ind + "  WHEN " + s.cond.SQL() + " THEN\n" + renderStmts(s.body, ind+"    ")
			if s.els != nil {
				r += ind + "  ELSE\n" + renderStmts(s.els, ind+"    ")
			}
			return r + ind + "END CASE;\n"
		}
		r := ind + "IF " + s.cond.Top() + " THEN\n" + renderStmts(s.body, ind+"  ")
		if s.els != nil {
			r += ind + "ELSE\n" + renderStmts(s.els, ind+"  ")
		}
		return r + ind + "END IF;\n"
	case "while":
		return ind + "WHILE " + s.name + " < " + strconv.Itoa(s.limit) + " DO\n" + ind + "  " + s.name + " := " + s.name + " + 1;\n" + renderStmts(s.body, ind+"  ") + ind + "END WHILE;\n"
	case "curloop":
		cn := fmt.Sprintf("cl%d", s.limit)
		return ind + "DECLARE " + cn + " CURSOR FOR SELECT 1 UNION ALL SELECT 2 UNION ALL SELECT 3;\n" + ind + "OPEN " + cn + ";\n" +
			ind + "WHILE " + s.name + " IN " + cn + " DO\n" + renderStmts(s.body, ind+"  ") + ind + "END WHILE;\n" +
			ind + "CLOSE " + cn + ";\n" + ind + "DISPOSE CURSOR " + cn + ";\n" + ind + s.name + " := 0;\n"
	case "break":
		return ind + "BREAK;\n"
	case "continue":
		return ind + "CONTINUE;\n"
	case "exit":
		return ind + "EXIT;\n"
	case "return":
		return ind + "RETURN " + s.e.Top() + ";\n"
	case "dispose":
		return ind + "DISPOSE " + s.name + ";\n"
	case "dispfunc":
		return ind + "DISPOSE FUNCTION " + s.name + ";\n"
	case "func":
		var ps []string
		for i, p := range s.params {
			if s.defs[i] != nil {
				ps = append(ps, p+" DEFAULT "+s.defs[i].SQL())
			} else {
				ps = append(ps, p)
			}
		}
		return ind + "DECLARE " + s.name + " FUNCTION (" + strings.Join(ps, ", ") + ") AS BEGIN\n" + renderStmts(s.body, ind+"  ") + ind + "END;\n"
	case "cursor":
		return ind + "DECLARE " + s.name + " CURSOR FOR SELECT " + strconv.Itoa(s.limit) + ";\n"
	case "show_cursors":
		return ind + "SHOW CURSORS;\n"
	case "probe_cursor":
		return ind + "PRINT CURSOR " + s.name + " IS OPEN;\n"
	case "view":
		return ind + "DECLARE " + s.name + " VIEW (x);\n" + ind + "INSERT INTO " + s.name + " VALUES (" + s.e.SQL() + ");\n"
	case "probe_view":
		return ind + "PRINT (SELECT SUM(x) FROM " + s.name + ");\n"
	case "ins_view":
		return ind + "INSERT INTO " + s.name + " VALUES (" + s.e.SQL() + ");\n"
	case "upd_view":
		return ind + "UPDATE " + s.name + " SET x = x + " + s.e.SQL() + ";\n"
	}
	return ""
}

// ---- reference interpreter --------------------------------------------------------

type pBlock struct {
	vars    map[string]*int
	funcs   map[string]*pStmt
	cursors map[string]bool
	curQ    map[string]int // the number each cursor's query selects (tells same-named cursors of different blocks apart)
	views   map[string][]int
}

func newPBlock() *pBlock {
	return &pBlock{vars: map[string]*int{}, funcs: map[string]*pStmt{}, cursors: map[string]bool{}, curQ: map[string]int{}, views: map[string][]int{}}
}

type pInterp struct {
	out    []string
	steps  int
	depth  int
	global *pBlock
}

type pErr struct{ msg string }

const (
	flNone = iota
	flBreak
	flContinue
	flReturn
	flExit
)

func (in *pInterp) lookupVar(env []*pBlock, n string) *int {
	for i := len(env) - 1; i >= 0; i-- {
		if v, ok := env[i].vars[n]; ok {
			return v
		}
	}
	return nil
}

func (in *pInterp) eval(env []*pBlock, e *pExpr) (int, *pErr) {
	switch e.k {
	case "lit":
		return e.n, nil
	case "var":
		v := in.lookupVar(env, e.name)
		if v == nil {
			return 0, &pErr{"undeclared variable " + e.name}
		}
		return *v, nil
	case "bin":
		a, err := in.eval(env, e.a)
		if err != nil {
			return 0, err
		}
		b, err := in.eval(env, e.b)
		if err != nil {
			return 0, err
		}
		switch e.op {
		case "+":
			return a + b, nil
		case "-":
			return a - b, nil
		case "*":
			return a * b, nil
		case "<":
			return b2i(a < b), nil
		case ">":
			return b2i(a > b), nil
		case "=":
			return b2i(a == b), nil
		case "<=":
			return b2i(a <= b), nil
		}
	case "call":
		var fn *pStmt
		for i := len(env) - 1; i >= 0 && fn == nil; i-- {
			fn = env[i].funcs[strings.ToUpper(e.name)]
		}
		if fn == nil {
			return 0, &pErr{"function " + e.name + " does not exist"}
		}
		var args []int
		for _, a := range e.args {
			v, err := in.eval(env, a)
			if err != nil {
				return 0, err
			}
			args = append(args, v)
		}
		required := 0
		for _, d := range fn.defs {
			if d == nil {
				required++
			}
		}
		if len(args) < required || len(args) > len(fn.params) {
			return 0, &pErr{"argument length"}
		}
		blk := newPBlock()
		// a call creates a child of the calling scope; bodies only use parameters, locals and never-shadowed globals
		cenv := append(append([]*pBlock{}, env...), blk)
		for i, p := range fn.params {
			if i < len(args) {
				x := args[i]
				blk.vars[p] = &x
			} else {
				v, err := in.eval(cenv, fn.defs[i])
				if err != nil {
					return 0, err
				}
				blk.vars[p] = &v
			}
		}
		in.depth++
		if in.depth > 40 {
			return 0, &pErr{"too deep"}
		}
		fl, rv, err := in.exec(cenv, fn.body, false)
		in.depth--
		if err != nil {
			return 0, err
		}
		if fl == flExit {
			return 0, &pErr{"EXIT inside a function"}
		}
		if fl != flReturn {
			return 0, &pErr{"function returned nothing"}
		}
		return rv, nil
	}
	return 0, &pErr{"bad expression"}
}

func b2i(b bool) int {
	if b {
		return 1
	}
	return 0
}

// exec runs statements in the CURRENT innermost block of env.
func (in *pInterp) exec(env []*pBlock, ss []*pStmt, inLoop bool) (int, int, *pErr) {
	cur := env[len(env)-1]
	for _, s := range ss {
		in.steps++
		if in.steps > 20000 {
			return flNone, 0, &pErr{"step budget"}
		}
		switch s.k {
		case "var":
			v, err := in.eval(env, s.e)
			if err != nil {
				return flNone, 0, err
			}
			if _, dup := cur.vars[s.name]; dup {
				return flNone, 0, &pErr{"variable " + s.name + " is redeclared"}
			}
			cur.vars[s.name] = &v
		case "var2":
			for _, d := range []struct {
				n string
				e *pExpr
			}{{s.name, s.e}, {s.params[0], s.cond}} {
				v, err := in.eval(env, d.e)
				if err != nil {
					return flNone, 0, err
				}
				if _, dup := cur.vars[d.n]; dup {
					return flNone, 0, &pErr{"variable " + d.n + " is redeclared"}
				}
				vv := v
				cur.vars[d.n] = &vv
			}
		case "assign":
			v, err := in.eval(env, s.e)
			if err != nil {
				return flNone, 0, err
			}
			p := in.lookupVar(env, s.name)
			if p == nil {
				return flNone, 0, &pErr{"undeclared variable " + s.name}
			}
			*p = v
		case "print":
			v, err := in.eval(env, s.e)
			if err != nil {
				return flNone, 0, err
			}
			in.out = append(in.out, strconv.Itoa(v))
		case "dispose":
			done := false
			for i := len(env) - 1; i >= 0 && !done; i-- {
				if _, ok := env[i].vars[s.name]; ok {
					delete(env[i].vars, s.name)
					done = true
				}
			}
			if !done {
				return flNone, 0, &pErr{"undeclared variable " + s.name}
			}
		case "if":
			c, err := in.eval(env, s.cond)
			if err != nil {
				return flNone, 0, err
			}
			body := s.body
			if c == 0 {
				body = s.els
			}
			if body != nil {
				fl, rv, err := in.exec(append(append([]*pBlock{}, env...), newPBlock()), body, inLoop)
				if err != nil || fl != flNone {
					return fl, rv, err
				}
			}
		case "while":
			for {
				lv := in.lookupVar(env, s.name)
				if lv == nil {
					return flNone, 0, &pErr{"undeclared variable " + s.name}
				}
				if !(*lv < s.limit) {
					break
				}
				in.steps++
				if in.steps > 20000 {
					return flNone, 0, &pErr{"step budget"}
				}
				blk := newPBlock()
				benv := append(append([]*pBlock{}, env...), blk)
				// the loop increments its counter as first statement of the body
				p := in.lookupVar(benv, s.name)
				*p = *p + 1
				fl, rv, err := in.exec(benv, s.body, true)
				if err != nil {
					return flNone, 0, err
				}
				if fl == flBreak {
					break
				}
				if fl == flReturn || fl == flExit {
					return fl, rv, nil
				}
			}
		case "curloop":
			for val := 1; val <= 3; val++ {
				in.steps++
				if in.steps > 20000 {
					return flNone, 0, &pErr{"step budget"}
				}
				benv := append(append([]*pBlock{}, env...), newPBlock())
				lv := in.lookupVar(benv, s.name)
				if lv == nil {
					return flNone, 0, &pErr{"undeclared variable " + s.name}
				}
				*lv = val
				fl, rv, err := in.exec(benv, s.body, true)
				if err != nil {
					return flNone, 0, err
				}
				if fl == flBreak {
					break
				}
				if fl == flReturn || fl == flExit {
					return fl, rv, nil
				}
			}
			lv := in.lookupVar(env, s.name)
			if lv == nil {
				return flNone, 0, &pErr{"undeclared variable " + s.name}
			}
			*lv = 0
		case "break":
			return flBreak, 0, nil
		case "continue":
			return flContinue, 0, nil
		case "exit":
			return flExit, 0, nil
		case "return":
			v, err := in.eval(env, s.e)
			if err != nil {
				return flNone, 0, err
			}
			return flReturn, v, nil
		case "dispfunc":
			done := false
			for i := len(env) - 1; i >= 0 && !done; i-- {
				if _, ok := env[i].funcs[strings.ToUpper(s.name)]; ok {
					delete(env[i].funcs, strings.ToUpper(s.name))
					done = true
				}
			}
			if !done {
				return flNone, 0, &pErr{"function " + s.name + " does not exist"}
			}
		case "func":
			if _, dup := cur.funcs[strings.ToUpper(s.name)]; dup {
				return flNone, 0, &pErr{"function " + s.name + " is redeclared"}
			}
			cur.funcs[strings.ToUpper(s.name)] = s
		case "cursor":
			if cur.cursors[s.name] {
				return flNone, 0, &pErr{"cursor redeclared"}
			}
			cur.cursors[s.name] = true
			cur.curQ[s.name] = s.limit
		case "show_cursors":
			seen := map[string]int{}
			var names []string
			for i := len(env) - 1; i >= 0; i-- {
				for n := range env[i].cursors {
					if _, ok := seen[n]; !ok {
						seen[n] = env[i].curQ[n]
						names = append(names, n)
					}
				}
			}
			sort.Strings(names)
			for _, n := range names {
				in.out = append(in.out, n, "Status:", "Closed", "Query:", "SELECT", strconv.Itoa(seen[n]))
			}
		case "probe_cursor":
			found := false
			for i := len(env) - 1; i >= 0; i-- {
				if env[i].cursors[s.name] {
					found = true
				}
			}
			if !found {
				return flNone, 0, &pErr{"cursor undeclared"}
			}
			in.out = append(in.out, "FALSE")
		case "view":
			v, err := in.eval(env, s.e)
			if _, dup := cur.views[s.name]; dup {
				return flNone, 0, &pErr{"view redeclared"}
			}
			if err != nil {
				return flNone, 0, err
			}
			cur.views[s.name] = []int{v}
		case "ins_view", "upd_view":
			// a change made in an inner block lands in the table of the block that declared it
			v, err := in.eval(env, s.e)
			if err != nil {
				return flNone, 0, err
			}
			found := false
			for i := len(env) - 1; i >= 0 && !found; i-- {
				if vs, ok := env[i].views[s.name]; ok {
					found = true
					if s.k == "ins_view" {
						env[i].views[s.name] = append(vs, v)
					} else {
						for j := range vs {
							vs[j] += v
						}
					}
				}
			}
			if !found {
				return flNone, 0, &pErr{"view undeclared"}
			}
		case "probe_view":
			found := false
			for i := len(env) - 1; i >= 0 && !found; i-- {
				if vs, ok := env[i].views[s.name]; ok {
					found = true
					sum := 0
					for _, x := range vs {
						sum += x
					}
					in.out = append(in.out, strconv.Itoa(sum))
				}
			}
			if !found {
				return flNone, 0, &pErr{"view undeclared"}
			}
		}
	}
	return flNone, 0, nil
}

// ---- generator -------------------------------------------------------------------

type pGen struct {
	r         *core.Rng
	loopN     int
	curUID    int
	inCurLoop int
	globals   []string // never-shadowed top-level variables usable inside functions
	funcs     []string
	features  map[string]bool
}

var pVars = []string{"@a", "@b", "@c"}

func (g *pGen) expr(vis0 []string, depth int, allowCall bool) *pExpr {
	var vis []string
	for _, v := range vis0 {
		if strings.HasPrefix(v, "@") {
			vis = append(vis, v)
		}
	}
	if depth <= 0 || g.r.P(40) {
		if len(vis) > 0 && g.r.P(65) {
			return &pExpr{k: "var", name: vis[g.r.Intn(len(vis))]}
		}
		return &pExpr{k: "lit", n: g.r.Range(-3, 9)}
	}
	if allowCall && len(g.funcs) > 0 && g.r.P(30) {
		g.features["call"] = true
		f := g.funcs[g.r.Intn(len(g.funcs))]
		n := g.r.Range(1, 2)
		var args []*pExpr
		for i := 0; i < n; i++ {
			args = append(args, g.expr(vis, 0, false))
		}
		return &pExpr{k: "call", name: f, args: args}
	}
	return &pExpr{k: "bin", op: []string{"+", "-", "+", "*"}[g.r.Intn(4)], a: g.expr(vis, depth-1, allowCall), b: g.expr(vis, depth-1, false)}
}

func (g *pGen) cond(vis []string) *pExpr {
	return &pExpr{k: "bin", op: []string{"<", ">", "=", "<="}[g.r.Intn(4)], a: g.expr(vis, 1, false), b: &pExpr{k: "lit", n: g.r.Range(0, 6)}}
}

// block generates statements; vis = visible variable names (may contain names that are no longer valid on purpose)
func (g *pGen) block(vis []string, declaredHere map[string]bool, depth int, inLoop, inFunc bool, n int) []*pStmt {
	var out []*pStmt
	for k := 0; k < n; k++ {
		switch c := g.r.Intn(20); {
		case c <= 2:
			name := pVars[g.r.Intn(len(pVars))]
			if inFunc {
				name = []string{"@l1", "@l2", "@a"}[g.r.Intn(3)]
			}
			if declaredHere[name] && !g.r.P(6) {
				continue
			}
			for _, v := range vis {
				if v == name {
					g.features["shadow"] = true
				}
			}
			if g.r.P(30) {
				// two variables in one statement, the second initialised from the first (which may shadow an outer one)
				var name2 string
				for _, cand := range []string{"@a", "@b", "@c", "@l1", "@l2"} {
					if cand != name && !declaredHere[cand] && (!inFunc || cand == "@l1" || cand == "@l2" || cand == "@a") && (inFunc || !strings.HasPrefix(cand, "@l")) {
						name2 = cand
					}
				}
				if name2 != "" {
					e2 := &pExpr{k: "bin", op: []string{"+", "*", "-"}[g.r.Intn(3)], a: &pExpr{k: "var", name: name}, b: &pExpr{k: "lit", n: g.r.Range(1, 4)}}
					out = append(out, &pStmt{k: "var2", name: name, e: g.expr(vis, 2, false), params: []string{name2}, cond: e2})
					declaredHere[name], declaredHere[name2] = true, true
					vis = append(vis, name, name2)
					g.features["var2"] = true
					continue
				}
			}
			out = append(out, &pStmt{k: "var", name: name, e: g.expr(vis, 2, !inFunc)})
			declaredHere[name] = true
			vis = append(vis, name)
		case c <= 6:
			var avs []string
			for _, v := range vis {
				if strings.HasPrefix(v, "@") && !(inFunc && strings.HasPrefix(v, "@g")) {
					// function bodies read globals but do not assign them: a function with side effects
					// called from a parallel query has no defined result
					avs = append(avs, v)
				}
			}
			if len(avs) == 0 {
				continue
			}
			out = append(out, &pStmt{k: "assign", name: avs[g.r.Intn(len(avs))], e: g.expr(vis, 2, true)})
		case c <= 10:
			out = append(out, &pStmt{k: "print", e: g.expr(vis, 2, true)})
		case c <= 12 && depth < 5:
			s := &pStmt{k: "if", cond: g.cond(vis), asCase: g.r.P(30)}
			s.body = g.block(append([]string{}, vis...), map[string]bool{}, depth+1, inLoop, inFunc, g.r.Range(1, 4))
			if g.r.Bool() {
				s.els = g.block(append([]string{}, vis...), map[string]bool{}, depth+1, inLoop, inFunc, g.r.Range(1, 3))
			}
			out = append(out, s)
		case c == 13 && depth < 4 && g.r.P(40):
			// a loop over a block-local cursor; inside a function the body may RETURN from the middle of it
			g.loopN++
			lv := fmt.Sprintf("@i%d", g.loopN)
			var cand []string
			for _, v := range vis {
				if strings.HasPrefix(v, "@") && !strings.HasPrefix(v, "@g") && !strings.HasPrefix(v, "@i") {
					cand = append(cand, v)
				}
			}
			if len(cand) > 0 && g.r.P(50) {
				lv = cand[g.r.Intn(len(cand))]
			} else {
				out = append(out, &pStmt{k: "var", name: lv, e: &pExpr{k: "lit", n: 0}})
				vis = append(vis, lv)
			}
			cl := &pStmt{k: "curloop", name: lv, limit: g.loopN}
			g.inCurLoop++
			cl.body = g.block(append([]string{}, vis...), map[string]bool{}, depth+1, true, inFunc, g.r.Range(1, 3))
			g.inCurLoop--
			if inFunc && g.r.P(60) {
				cl.body = append(cl.body, &pStmt{k: "if", cond: g.cond(vis), body: []*pStmt{{k: "return", e: g.expr(vis, 1, false)}}})
			}
			out = append(out, cl)
			g.features["curloop"] = true
		case c == 13 && depth < 4:
			g.loopN++
			lv := fmt.Sprintf("@i%d", g.loopN)
			reuse := ""
			for _, v := range vis {
				if (v == "@a" || v == "@b" || v == "@c") && g.r.P(35) {
					reuse = v
				}
			}
			if reuse != "" && !inFunc {
				// the loop is controlled by an ordinary variable that the body may shadow
				lv = reuse
				out = append(out, &pStmt{k: "assign", name: lv, e: &pExpr{k: "lit", n: 0}})
				g.features["shadow"] = true
			} else {
				out = append(out, &pStmt{k: "var", name: lv, e: &pExpr{k: "lit", n: 0}})
			}
			w := &pStmt{k: "while", name: lv, limit: g.r.Range(1, 4)}
			w.body = g.block(append(append([]string{}, vis...), lv), map[string]bool{}, depth+1, true, inFunc, g.r.Range(1, 4))
			out = append(out, w)
		case c == 14 && inLoop:
			s := &pStmt{k: "if", cond: g.cond(vis)}
			s.body = []*pStmt{{k: []string{"break", "continue"}[g.r.Intn(2)]}}
			out = append(out, s)
		case c == 15 && !inFunc && depth <= 1 && len(g.funcs) < 2:
			name := []string{"f", "g"}[len(g.funcs)]
			fn := &pStmt{k: "func", name: name, params: []string{"@p", "@q"}, defs: []*pExpr{nil, {k: "lit", n: g.r.Range(1, 3)}}}
			fv := append([]string{"@p", "@q"}, g.globals...)
			body := g.block(fv, map[string]bool{"@p": true, "@q": true}, depth+1, false, true, g.r.Range(1, 4))
			if len(g.funcs) > 0 && g.r.P(45) {
				// the body declares its own function under the name of the one declared before: inside this invocation that name
				// means the local one, outside it still means the outer one — also when both are called from one query
				k := g.r.Range(2, 9)
				sh := &pStmt{k: "func", name: g.funcs[0], params: []string{"@p", "@q"}, defs: []*pExpr{nil, {k: "lit", n: 1}}}
				sh.body = []*pStmt{{k: "return", e: &pExpr{k: "bin", op: "*", a: &pExpr{k: "var", name: "@p"}, b: &pExpr{k: "lit", n: k * 100}}}}
				body = append([]*pStmt{sh, {k: "print", e: &pExpr{k: "call", name: g.funcs[0], args: []*pExpr{{k: "lit", n: g.r.Range(1, 2)}}}}}, body...)
				g.features["shadowfunc"] = true
				g.features["localfunc"] = true
			}
			// recursion / mutual call guarded by the first parameter
			callee := name
			if len(g.funcs) > 0 && g.r.Bool() {
				callee = g.funcs[0]
			}
			rec := &pStmt{k: "if", cond: &pExpr{k: "bin", op: ">", a: &pExpr{k: "var", name: "@p"}, b: &pExpr{k: "lit", n: 0}}}
			rec.body = []*pStmt{{k: "return", e: &pExpr{k: "bin", op: "+", a: &pExpr{k: "call", name: callee, args: []*pExpr{{k: "bin", op: "-", a: &pExpr{k: "var", name: "@p"}, b: &pExpr{k: "lit", n: 1}}}}, b: &pExpr{k: "var", name: "@q"}}}}
			if callee != name {
				rec.body = []*pStmt{{k: "return", e: &pExpr{k: "bin", op: "+", a: &pExpr{k: "call", name: callee, args: []*pExpr{{k: "lit", n: g.r.Range(0, 2)}}}, b: &pExpr{k: "var", name: "@q"}}}}
			}
			body = append(body, rec, &pStmt{k: "return", e: g.expr(fv, 1, false)})
			fn.body = body
			out = append(out, fn)
			g.funcs = append(g.funcs, name)
			g.features["func"] = true
		case c == 15 && depth >= 1 && len(g.funcs) > 0 && !declaredHere["fn:"+g.funcs[0]] && g.r.P(60):
			// a function of the same name as an outer one, declared, used and disposed inside this block: afterwards the outer one is back
			name := g.funcs[g.r.Intn(len(g.funcs))]
			if declaredHere["fn:"+name] {
				continue
			}
			k := g.r.Range(2, 9)
			sh := &pStmt{k: "func", name: name, params: []string{"@p", "@q"}, defs: []*pExpr{nil, {k: "lit", n: 1}}}
			sh.body = []*pStmt{{k: "return", e: &pExpr{k: "bin", op: "*", a: &pExpr{k: "var", name: "@p"}, b: &pExpr{k: "lit", n: k * 100}}}}
			call := func() *pStmt {
				return &pStmt{k: "print", e: &pExpr{k: "call", name: name, args: []*pExpr{{k: "lit", n: g.r.Range(0, 2)}}}}
			}
			out = append(out, sh, call())
			declaredHere["fn:"+name] = true
			if g.r.P(70) {
				out = append(out, &pStmt{k: "dispfunc", name: name}, call())
				delete(declaredHere, "fn:"+name)
			}
			g.features["shadowfunc"] = true
			g.features["call"] = true
		case c == 16 && len(vis) > 1 && g.r.P(40):
			di := 1 + g.r.Intn(len(vis)-1)
			if !strings.HasPrefix(vis[di], "@") || strings.HasPrefix(vis[di], "@i") || strings.HasPrefix(vis[di], "@p") || strings.HasPrefix(vis[di], "@q") {
				continue
			}
			out = append(out, &pStmt{k: "dispose", name: vis[di]})
			if !g.r.P(10) {
				// normally the generator forgets a disposed name (a later use would be an error; kept rarely on purpose)
				name := vis[di]
				var nv []string
				removed := false
				for j := len(vis) - 1; j >= 0; j-- {
					if vis[j] == name && !removed {
						removed = true
						continue
					}
					nv = append([]string{vis[j]}, nv...)
				}
				vis = nv
				delete(declaredHere, name)
			}
		case c == 17 && g.r.P(25) && !inFunc:
			out = append(out, &pStmt{k: "exit"})
		case c == 18 && !inFunc:
			name := fmt.Sprintf("cur%d", g.r.Range(1, 2))
			known := false
			for _, v := range vis {
				if v == name {
					known = true
				}
			}
			if (!known || (depth >= 1 && g.r.P(35))) && !declaredHere[name] { // also re-declared over an outer cursor of the same name
				g.curUID++
				out = append(out, &pStmt{k: "cursor", name: name, limit: 1000 + g.curUID})
				declaredHere[name] = true
				vis = append(vis, name)
				if known && g.inCurLoop == 0 && g.r.P(70) {
					out = append(out, &pStmt{k: "show_cursors"}) // the listing inside the block shows the block's own cursor
					g.features["showcursors"] = true
				}
			} else if known && g.inCurLoop == 0 && g.r.P(50) {
				out = append(out, &pStmt{k: "show_cursors"})
				g.features["showcursors"] = true
			} else if known || g.r.P(8) {
				out = append(out, &pStmt{k: "probe_cursor", name: name})
			}
		case c == 19 && !inFunc:
			name := fmt.Sprintf("tv%d", g.r.Range(1, 2))
			known := false
			for _, v := range vis {
				if v == name {
					known = true
				}
			}
			if (!known || (depth >= 1 && g.r.P(40))) && !declaredHere[name] { // also over an outer temporary table of the same name: it is shadowed, not redeclared
				if known {
					g.features["shadowview"] = true
				}
				out = append(out, &pStmt{k: "view", name: name, e: &pExpr{k: "lit", n: g.r.Range(1, 9)}})
				declaredHere[name] = true
				vis = append(vis, name)
			} else if known && g.r.P(55) {
				out = append(out, &pStmt{k: []string{"ins_view", "ins_view", "upd_view"}[g.r.Intn(3)], name: name, e: &pExpr{k: "lit", n: g.r.Range(1, 9)}})
				g.features["viewdml"] = true
			} else if known || g.r.P(8) {
				out = append(out, &pStmt{k: "probe_view", name: name})
			}
		}
	}
	return out
}

type c15Replay struct {
	Program string   `json:"program"`
	Got     []string `json:"got"`
	Want    []string `json:"want"`
	GotErr  string   `json:"got_error"`
	WantErr string   `json:"want_error"`
}

var c15Count int

// c15LocalsOfQueryCalls: a function that declares a temporary table, variable or cursor under a name the calling query itself uses
// (the file it reads, a variable it mentions) is called once per row by that query. Each invocation works on its own local
// objects: its results are those of the same call made from a plain statement, and the caller's file and variable are untouched.
func c15LocalsOfQueryCalls(w *core.Worker, i int) {
	r := w.Rng(i, "locals")
	for k := 0; k < 6; k++ {
		core.WriteFiles(w.Work, map[string]string{"items.csv": "n\n1\n2\n3\n"})
		decl := []string{
			"DECLARE items VIEW (n) AS SELECT 100; INSERT INTO items VALUES (@k); RETURN (SELECT SUM(n) FROM items);",
			"DECLARE items VIEW (n); INSERT INTO items VALUES (@k), (@k); UPDATE items SET n = n * 10; RETURN (SELECT SUM(n) FROM items);",
			"VAR @base := 1000; DECLARE items VIEW (n) AS SELECT @base; RETURN (SELECT MAX(n) FROM items) + @k;",
			"DECLARE c CURSOR FOR SELECT n * 2 FROM items WHERE n = @k; OPEN c; VAR @x; FETCH c INTO @x; CLOSE c; DECLARE items VIEW (n) AS SELECT 7; RETURN @x + (SELECT n FROM items);",
			"IF @k > 1 THEN DECLARE items VIEW (n) AS SELECT 50; RETURN (SELECT n FROM items) + @k; END IF; RETURN (SELECT COUNT(*) FROM items);",
		}[r.Intn(5)]
		call := []string{"SELECT n, f(n) FROM items ORDER BY n;", "SELECT n, f(n) FROM `items.csv` ORDER BY n;", "SELECT n, f(n), @base FROM items WHERE f(n) > 0 ORDER BY n;", "SELECT i.n, f(i.n) FROM items i JOIN items j ON i.n = j.n ORDER BY i.n;"}[r.Intn(4)]
		s, err := core.NewSess(core.SessOpts{Dir: w.Work, Quiet: true})
		if err != nil {
			w.Inconclusive(err.Error())
			return
		}
		prog := "VAR @base := 5; DECLARE f FUNCTION (@k) AS BEGIN " + decl + " END;\nSELECT 'stmt', f(1), f(2), f(3);\n" + call + "\nSELECT 'file', COUNT(*), SUM(n), @base FROM items;"
		res := s.Exec(prog)
		s.Close()
		viol := func(sig, what string) {
			w.Violation(sig, what+"\n"+prog, c15Replay{Program: prog, GotErr: fmt.Sprint(res.Err)})
		}
		if res.Err != nil || len(res.Views) != 3 || len(res.Views[0].Rows) != 1 || len(res.Views[1].Rows) != 3 || len(res.Views[2].Rows) != 1 {
			viol("query-call", fmt.Sprintf("the program failed or returned other tables than expected: %v", res.Err))
			continue
		}
		for j, row := range res.Views[1].Rows {
			if row[1].S != res.Views[0].Rows[0][1+j].S {
				viol("query-call:locals", fmt.Sprintf("f(%d) called from the query returns %s, called from a statement %s", j+1, row[1].S, res.Views[0].Rows[0][1+j].S))
				break
			}
		}
		if f := res.Views[2].Rows[0]; f[1].S != "3" || f[2].S != "6" || f[3].S != "5" {
			viol("query-call:caller-changed", fmt.Sprintf("after the calls the caller's file / variable read %v (expected 3 rows, sum 6, @base 5)", valsToStrs(f)))
		}
		if b, _ := os.ReadFile(filepath.Join(w.Work, "items.csv")); string(b) != "n\n1\n2\n3\n" {
			viol("query-call:caller-changed", fmt.Sprintf("items.csv was rewritten: %q", string(b)))
		}
		w.Count("query_calls_of_functions_with_same_named_locals", 1)
	}
}

// c15ShadowAcrossKinds: a scalar function declared in an inner block under the name of an outer user-defined aggregate (and the other
// way round). Inside the block the name means the inner object — a query calling it per record is an ordinary query, one calling
// the aggregate collapses the rows — and after the block the outer one again.
func c15ShadowAcrossKinds(w *core.Worker, i int) {
	r := w.Rng(i, "kinds")
	core.WriteFiles(w.Work, map[string]string{"items.csv": "n\n1\n2\n3\n"})
	agg := "DECLARE f AGGREGATE (c) AS BEGIN VAR @s := 0; VAR @x; WHILE @x IN c DO @s := @s + @x; END WHILE; RETURN @s + 100; END;"
	sca := "DECLARE f FUNCTION (@x) AS BEGIN RETURN @x * 2; END;"
	for k := 0; k < 4; k++ {
		blk := []string{"IF TRUE THEN\n%s\nEND IF;", "VAR @w := 0; WHILE @w < 1 DO\n@w := @w + 1;\n%s\nEND WHILE;", "CASE WHEN TRUE THEN\n%s\nEND CASE;", "DECLARE blk FUNCTION () AS BEGIN\n%s\nRETURN 0; END; VAR @r := blk();"}[r.Intn(4)]
		outer, inner, wantIn, wantOut := agg, sca, "2 4 6", "106"
		if r.Bool() {
			outer, inner, wantIn, wantOut = sca, agg, "106", "2 4 6"
		}
		prog := "DECLARE log VIEW (tag, val); " + outer + "\n" + fmt.Sprintf(blk, inner+" INSERT INTO log SELECT 'in', f(n) FROM items;") + "\nINSERT INTO log SELECT 'out', f(n) FROM items;\nSELECT tag, val FROM log;"
		s, err := core.NewSess(core.SessOpts{Dir: w.Work, Quiet: true})
		if err != nil {
			w.Inconclusive(err.Error())
			return
		}
		res := s.Exec(prog)
		s.Close()
		var in, out []string
		if res.Err == nil && len(res.Views) > 0 {
			for _, row := range res.Views[len(res.Views)-1].Rows {
				if row[0].S == "in" {
					in = append(in, row[1].S)
				} else {
					out = append(out, row[1].S)
				}
			}
		}
		if res.Err != nil || strings.Join(in, " ") != wantIn || strings.Join(out, " ") != wantOut {
			w.Violation("shadowing-across-function-kinds", fmt.Sprintf("inside the block the query reads [%s] (expected [%s]), after it [%s] (expected [%s]); error: %v\n%s", strings.Join(in, " "), wantIn, strings.Join(out, " "), wantOut, res.Err, prog), c15Replay{Program: prog, GotErr: fmt.Sprint(res.Err)})
		}
		w.Count("programs_shadowing_an_aggregate_by_a_function_or_back", 1)
	}
}

func c15Case(w *core.Worker, i int) {
	if i%40 == 9 {
		c15LocalsOfQueryCalls(w, i)
	}
	if i%40 == 29 {
		c15ShadowAcrossKinds(w, i)
	}
	r := w.Rng(i, "")
	c15ViaQuery = i%3 == 1
	if c15ViaQuery {
		w.Count("programs_calling_their_functions_from_queries", 1)
	}
	g := &pGen{r: r, features: map[string]bool{}, globals: []string{"@g1"}}
	prog := []*pStmt{{k: "var", name: "@g1", e: &pExpr{k: "lit", n: r.Range(1, 5)}}}
	prog = append(prog, g.block([]string{"@g1"}, map[string]bool{"@g1": true}, 0, false, false, r.Range(8, 18))...)
	// observe the final values of whatever is still visible
	for _, v := range pVars {
		prog = append(prog, &pStmt{k: "if", cond: &pExpr{k: "lit", n: 0}, body: []*pStmt{{k: "print", e: &pExpr{k: "lit", n: 0}}}})
		_ = v
	}
	if len(g.funcs) == 2 {
		// both functions in one expression (one query, when expressions are evaluated through queries)
		two := func(a, b string) *pStmt {
			return &pStmt{k: "print", e: &pExpr{k: "bin", op: "+", a: &pExpr{k: "call", name: a, args: []*pExpr{{k: "lit", n: r.Range(0, 1)}}}, b: &pExpr{k: "call", name: b, args: []*pExpr{{k: "lit", n: r.Range(0, 1)}}}}}
		}
		prog = append(prog, two(g.funcs[0], g.funcs[1]), two(g.funcs[1], g.funcs[0]))
	}
	prog = append(prog, &pStmt{k: "print", e: &pExpr{k: "var", name: "@g1"}})
	text := renderStmts(prog, "")
	in := &pInterp{}
	gb := newPBlock()
	fl, _, perr := in.exec([]*pBlock{gb}, prog, false)
	if perr != nil && (perr.msg == "step budget" || perr.msg == "too deep") {
		w.Case(core.Digest(text), false)
		return
	}
	_ = fl
	big := i%8 == 7 && len(g.funcs) > 0 && perr == nil && fl == flNone
	cpu := 1
	var wantQ []string
	query := ""
	if big {
		// concurrent invocations: the function is called for every row by several worker goroutines
		n := bigSizes[r.Intn(len(bigSizes))]
		cpu = r.Range(2, 8)
		var sb strings.Builder
		sb.WriteString("id\n")
		for k := 1; k <= n; k++ {
			sb.WriteString(strconv.Itoa(k%5) + "\n")
		}
		core.WriteFiles(w.Work, map[string]string{"nums.csv": sb.String()})
		query = "SELECT " + g.funcs[0] + "(id) FROM nums;\n"
		for k := 1; k <= n; k++ {
			in2 := &pInterp{}
			v, e := in2.eval([]*pBlock{gb}, &pExpr{k: "call", name: g.funcs[0], args: []*pExpr{{k: "lit", n: k % 5}}})
			if e != nil {
				big = false
				break
			}
			wantQ = append(wantQ, strconv.Itoa(v))
		}
	}
	s, err := core.NewSess(core.SessOpts{Dir: w.Work, CPU: cpu, Quiet: true})
	if err != nil {
		w.Inconclusive(err.Error())
		return
	}
	res := s.Exec(text)
	var qres core.ExecResult
	if big && res.Err == nil {
		qres = s.Exec(query)
	}
	s.Close()
	c15Count++
	var got []string
	for _, f := range strings.Fields(strings.ReplaceAll(res.Stdout, "'", "")) {
		if f == "Cursors" || strings.Trim(f, "-") == "" {
			continue // heading of a SHOW CURSORS listing
		}
		got = append(got, f)
	}
	want := in.out
	gotErr, wantErr := "", ""
	if res.Err != nil {
		gotErr = res.Err.Error()
	}
	if perr != nil {
		wantErr = perr.msg
	}
	viol := func(sig, what string) {
		w.Violation(sig, what+"\n"+truncateStr(text, 1500), c15Replay{Program: text, Got: got, Want: want, GotErr: gotErr, WantErr: wantErr})
	}
	if core.IsFatal(res.Err) {
		viol("internal-failure", gotErr)
	} else if strings.Join(got, " ") != strings.Join(want, " ") {
		viol("trace-differs", fmt.Sprintf("PRINT trace is %v, the reference interpreter gives %v (csvq error: %q, reference error: %q)", got, want, gotErr, wantErr))
	} else if (res.Err != nil) != (perr != nil) {
		viol("error-differs", fmt.Sprintf("csvq error: %q, reference error: %q", gotErr, wantErr))
	} else if big && res.Err == nil {
		if qres.Err != nil || len(qres.Views) != 1 || len(qres.Views[0].Rows) != len(wantQ) {
			viol("query-call", fmt.Sprintf("the query calling the function failed or returned a wrong number of rows: %v", qres.Err))
		} else {
			for k, row := range qres.Views[0].Rows {
				if row[0].S != wantQ[k] {
					viol("concurrent-invocation", fmt.Sprintf("row %d: %s(%d) = %v, expected %s (cpu %d)", k, g.funcs[0], (k+1)%5, row[0], wantQ[k], cpu))
					break
				}
			}
		}
		w.Count("cases_concurrent_invocations", 1)
	}
	if i < 40 {
		w.Sample(map[string]interface{}{"program": truncateStr(text, 1200), "trace": want, "error": wantErr})
	}
	if perr != nil {
		w.Count("programs_ending_in_error", 1)
	}
	if g.features["curloop"] {
		w.Count("programs_with_a_cursor_loop", 1)
	}
	if g.features["shadowfunc"] {
		w.Count("programs_with_a_shadowing_function", 1)
	}
	if g.features["localfunc"] {
		w.Count("programs_with_a_function_declared_inside_a_function", 1)
	}
	if g.features["shadowview"] {
		w.Count("programs_with_a_shadowing_temporary_table", 1)
	}
	if g.features["showcursors"] {
		w.Count("programs_listing_their_cursors", 1)
	}
	if g.features["var2"] {
		w.Count("programs_with_a_two_variable_declaration", 1)
	}
	w.Case(core.Digest(text), len(want) >= 4 && (g.features["shadow"] || g.features["call"]))
}
