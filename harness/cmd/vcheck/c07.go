package main

import (
	"fmt"
	"math"
	"sort"
	"strconv"
	"strings"

	"verif/internal/core"
)

type sortKey struct {
	Col   int // column index in the table
	Kind  string
	Desc  bool
	NullF bool // nulls first
	SQL   string
}

// keyCmp compares two cells of one sort key ignoring direction: -1, 0, 1. NULLs are handled by the caller.
func keyCmp(kind string, a, b string) int {
	switch kind {
	case "ints", "nums", "floats", "bigints":
		if xi, ok := rvStr(a).asIntStrict(); ok {
			if yi, ok := rvStr(b).asIntStrict(); ok {
				switch {
				case xi < yi:
					return -1
				case xi > yi:
					return 1
				}
				return 0
			}
		}
		x, _ := rvStr(a).asFloat()
		y, _ := rvStr(b).asFloat()
		switch {
		case x < y:
			return -1
		case x > y:
			return 1
		}
		return 0
	case "dates", "fardates":
		x, _ := rvStr(a).asTime()
		y, _ := rvStr(b).asTime()
		switch {
		case x.Before(y):
			return -1
		case x.After(y):
			return 1
		}
		return 0
	}
	x, y := strings.ToUpper(trimSp(a)), strings.ToUpper(trimSp(b))
	return strings.Compare(x, y)
}

func rowCmp(keys []sortKey, a, b []*string) int {
	for _, k := range keys {
		x, y := a[k.Col], b[k.Col]
		if x == nil || y == nil {
			if x == nil && y == nil {
				continue
			}
			first := x == nil
			if first == k.NullF {
				return -1
			}
			return 1
		}
		c := keyCmp(k.Kind, *x, *y)
		if c != 0 {
			if k.Desc {
				return -c
			}
			return c
		}
	}
	return 0
}

func init() {
	core.Register(&core.Spec{
		ID: "C07", Level: "exploration",
		Rule: "one case = one generated table (unique id + 1..3 key columns, each of one comparable profile, NULLs and duplicates) with one ORDER BY key list and ~14 queries: the bare ORDER BY (permutation + no adjacent inversion under an independent comparator), the total order ORDER BY keys,id (must equal the reference sort), and LIMIT/OFFSET/PERCENT/WITH TIES cuts with boundary parameters; " +
			"non-trivial = at least 3 rows and every query evaluated; distinct = digest of table and key list. Every 8th case uses 160..700 rows and --cpu 2..8.",
		Quick: 400, Thorough: 120000, FloorQuick: 250, FloorThorough: 80000,
		Assumptions: []string{"negative LIMIT/OFFSET are judged as 0 and PERCENT>100 as 100 (the natural reading; the manual is silent)",
			"text keys are ordered by their upper-cased, blank-trimmed form; boolean-looking texts and mixed-class columns are not generated (the statement restricts itself to mutually comparable keys)"},
		Setup: func(w *core.Worker) { core.HermeticProcess(w.Work) },
		Fn:    c07Case,
	})
}

type c07Replay struct {
	Table string `json:"table_csv"`
	Query string `json:"query"`
	Got   string `json:"got"`
	Want  string `json:"want"`
	CPU   int    `json:"cpu"`
}

func idsOf(t *core.Table) []int {
	ids := make([]int, len(t.Rows))
	for i, r := range t.Rows {
		ids[i], _ = strconv.Atoi(r[0].S)
	}
	return ids
}

// c07WordsAmongBooleans: a text column in which some words happen to read as booleans (true, false, t, f). Whatever place those
// take, the other words are texts with a defined order: their subsequence in the output is sorted, and the output is a
// permutation of the rows.
func c07WordsAmongBooleans(w *core.Worker, i int) {
	r := w.Rng(i, "boolwords")
	words := []string{"c", "true", "b", "false", "a", "t", "zeta", "f", "Alpha", "beta", "TRUE", "gamma", "False", "delta", "u", "e", "ta", "fa"}
	n := r.Range(4, 40)
	var sb strings.Builder
	sb.WriteString("id,w\n")
	ws := map[int]string{}
	for k := 1; k <= n; k++ {
		ws[k] = words[r.Intn(len(words))]
		fmt.Fprintf(&sb, "%d,%s\n", k, ws[k])
	}
	core.WriteFiles(w.Work, map[string]string{"bw.csv": sb.String()})
	s, err := core.NewSess(core.SessOpts{Dir: w.Work, Quiet: true})
	if err != nil {
		w.Inconclusive(err.Error())
		return
	}
	defer s.Close()
	isBool := func(x string) bool {
		switch strings.ToLower(x) {
		case "true", "false", "t", "f":
			return true
		}
		return false
	}
	for _, q := range []string{"SELECT id, w FROM bw ORDER BY w", "SELECT id, w FROM bw ORDER BY w DESC", "SELECT id, w FROM bw ORDER BY w, id LIMIT 100"} {
		res := s.Exec(q + ";")
		if res.Err != nil || len(res.Views) != 1 {
			continue
		}
		seen := map[string]bool{}
		prev := ""
		bad := ""
		for _, row := range res.Views[0].Rows {
			seen[row[0].S] = true
			x := row[1].S
			if isBool(x) {
				continue
			}
			u := strings.ToUpper(x)
			if prev != "" && ((!strings.Contains(q, "DESC") && u < prev) || (strings.Contains(q, "DESC") && u > prev)) {
				bad = fmt.Sprintf("%q comes after %q", x, strings.ToLower(prev))
			}
			prev = u
		}
		if len(seen) != n || len(res.Views[0].Rows) != n {
			w.Violation("permutation:words-among-booleans", fmt.Sprintf("%s over %d rows returned %d rows with %d different ids", q, n, len(res.Views[0].Rows), len(seen)), c07Replay{Table: sb.String(), Query: q})
		} else if bad != "" {
			w.Violation("inversion:words-among-booleans", fmt.Sprintf("%s: %s (words that do not read as booleans are texts and have an order)", q, bad), c07Replay{Table: sb.String(), Query: q})
		}
		w.Count("orderings_of_words_among_boolean_words", 1)
	}
}

func c07Case(w *core.Worker, i int) {
	if i%8 == 3 {
		c07WordsAmongBooleans(w, i)
	}
	r := w.Rng(i, "")
	big := i%8 == 7
	n := pickSize(r, big)
	if r.P(15) {
		// row counts and percentages whose product is an exact integer only when multiplied before dividing
		n = []int{25, 50, 75, 100, 200}[r.Intn(5)]
	}
	cpu := 1
	if big {
		cpu = r.Range(2, 8)
	}
	nk := r.Range(1, 3)
	kinds := []string{"nums", "ints", "text", "dates", "floats", "bigints", "fardates"}
	var profs []colProfile
	var names []string
	for j := 0; j < nk; j++ {
		profs = append(profs, colProfile{Kind: kinds[r.Intn(len(kinds))], NullPct: []int{0, 10, 30}[r.Intn(3)]})
		names = append(names, fmt.Sprintf("k%d", j+1))
	}
	t := genTable(r, "t", n, profs, names)
	core.WriteFiles(w.Work, map[string]string{"t.csv": t.CSV()})
	var keys []sortKey
	var parts []string
	for j := 0; j < nk; j++ {
		k := sortKey{Col: j + 1, Kind: profs[j].Kind}
		sql := names[j]
		switch r.Intn(3) {
		case 1:
			k.Desc = true
			sql += " DESC"
		case 2:
			sql += " ASC"
		}
		k.NullF = !k.Desc
		switch r.Intn(3) {
		case 1:
			k.NullF = true
			sql += " NULLS FIRST"
		case 2:
			k.NullF = false
			sql += " NULLS LAST"
		}
		keys = append(keys, k)
		parts = append(parts, sql)
	}
	orderBy := strings.Join(parts, ", ")
	s, err := core.NewSess(core.SessOpts{Dir: w.Work, CPU: cpu})
	if err != nil {
		w.Inconclusive(err.Error())
		return
	}
	defer s.Close()
	rowByID := func(id int) []*string { return t.Rows[id-1] }
	evaluated := 0
	run := func(q string) *core.Table {
		res := s.Exec(q)
		if res.Err != nil || len(res.Views) != 1 {
			w.Violation("query-error", fmt.Sprintf("%s -> %v", q, res.Err), c07Replay{Table: t.CSV(), Query: q, CPU: cpu})
			return nil
		}
		evaluated++
		return res.Views[0]
	}
	viol := func(sig, q, what string, got, want []int) {
		w.Violation(sig, fmt.Sprintf("%s [%d rows, cpu %d]: %s", q, n, cpu, what), c07Replay{Table: t.CSV(), Query: q, Got: fmt.Sprint(got), Want: fmt.Sprint(want), CPU: cpu})
	}

	// reference total order (keys, id)
	ref := make([]int, n)
	for j := range ref {
		ref[j] = j + 1
	}
	sort.SliceStable(ref, func(a, b int) bool {
		c := rowCmp(keys, rowByID(ref[a]), rowByID(ref[b]))
		if c != 0 {
			return c < 0
		}
		return ref[a] < ref[b]
	})

	// Q0: bare ORDER BY
	q0 := "SELECT id FROM t ORDER BY " + orderBy
	if v := run(q0); v != nil {
		ids := idsOf(v)
		seen := map[int]bool{}
		okPerm := len(ids) == n
		for _, id := range ids {
			if id < 1 || id > n || seen[id] {
				okPerm = false
			}
			seen[id] = true
		}
		if !okPerm {
			viol("not-a-permutation", q0, "output ids are not a permutation of the input", ids, nil)
		} else {
			for j := 0; j+1 < len(ids); j++ {
				if rowCmp(keys, rowByID(ids[j+1]), rowByID(ids[j])) < 0 {
					viol("inversion", q0, fmt.Sprintf("row id %d %s precedes row id %d %s which must sort before it", ids[j], t.Dump(0)+fmtRow(rowByID(ids[j])), ids[j+1], fmtRow(rowByID(ids[j+1]))), ids, ref)
					break
				}
			}
		}
	}
	// Q1: total order
	q1 := "SELECT id FROM t ORDER BY " + orderBy + ", id"
	if v := run(q1); v != nil {
		if ids := idsOf(v); !eqInts(ids, ref) {
			viol("total-order", q1, "differs from the reference sort", ids, ref)
		}
	}
	// Q1b: the total order again, behind analytic functions that sort the rows by the same columns in other directions
	for _, an := range []string{
		"RANK() OVER (ORDER BY " + names[0] + " DESC)",
		"ROW_NUMBER() OVER (PARTITION BY " + names[len(names)-1] + " ORDER BY " + names[0] + ", id DESC)",
		"SUM(id) OVER (ORDER BY " + names[0] + " NULLS LAST), COUNT(*) OVER (PARTITION BY " + names[0] + ")",
	} {
		q := "SELECT id, " + an + " FROM t ORDER BY " + orderBy + ", id"
		if v := run(q); v != nil {
			if ids := idsOf(v); !eqInts(ids, ref) {
				viol("total-order:behind-analytic", q, "differs from the reference sort", ids, ref)
			}
		}
	}
	// Q2: ORDER BY behind the other clauses of the same SELECT (DISTINCT, analytic functions, GROUP BY, WHERE, sub-query):
	// whatever rows those produce, they must come out sorted by the listed keys
	keyNames := append([]string{}, names...)
	perm := r.Perm(len(keyNames))
	var permuted []string
	for _, x := range perm {
		permuted = append(permuted, keyNames[x])
	}
	pcol := keyNames[r.Intn(len(keyNames))]
	sortedOut := func(sig, q string, v *core.Table, lim int) {
		// output columns are looked up by name; missing key columns make the query useless for this purpose
		pos := map[string]int{}
		for j, h := range v.Header {
			pos[h] = j
		}
		var rows [][]*string
		for _, vr := range v.Rows {
			row := make([]*string, len(t.Cols))
			for j, cn := range t.Cols {
				if p, ok := pos[cn]; ok && vr[p].T != 'N' {
					row[j] = core.Sp(vr[p].S)
				}
			}
			rows = append(rows, row)
		}
		for j := 0; j+1 < len(rows); j++ {
			if rowCmp(keys, rows[j+1], rows[j]) < 0 {
				viol(sig, q, fmt.Sprintf("output row %d %s precedes row %d %s which must sort before it", j, fmtRow(rows[j]), j+1, fmtRow(rows[j+1])), nil, nil)
				return
			}
		}
		if lim >= 0 && len(rows) > lim {
			viol(sig+":limit", q, fmt.Sprintf("%d rows returned with LIMIT %d", len(rows), lim), nil, nil)
		}
	}
	klist := strings.Join(keyNames, ", ")
	for qi, q := range []string{
		"SELECT DISTINCT " + strings.Join(permuted, ", ") + ", COUNT(*) OVER (PARTITION BY " + pcol + ") AS n FROM t ORDER BY " + orderBy,
		"SELECT " + strings.Join(permuted, ", ") + ", ROW_NUMBER() OVER (PARTITION BY " + pcol + " ORDER BY id DESC) AS rn, id FROM t ORDER BY " + orderBy + " LIMIT 7",
		"SELECT " + strings.Join(permuted, ", ") + ", COUNT(*) AS c FROM t GROUP BY " + klist + " ORDER BY " + orderBy,
		"SELECT DISTINCT " + strings.Join(permuted, ", ") + " FROM (SELECT * FROM t WHERE id % 3 <> 0) s ORDER BY " + orderBy,
	} {
		if v := run(q); v != nil {
			lim := -1
			if qi == 1 {
				lim = 7
			}
			sortedOut([]string{"order-after:distinct+analytic", "order-after:analytic+limit", "order-after:group-by", "order-after:distinct+subquery"}[qi], q, v, lim)
		}
	}
	// Q3: a cut query used as a table by another cut query: each level cuts what it receives
	for k := 0; k < 2 && n > 0; k++ {
		m := []int{1, 4, n / 2, n - 1, 0}[r.Intn(5)]
		if m > n {
			m = n
		}
		if m < 0 {
			m = 0
		}
		pc := []string{"50", "33.3", "10", "75", "100"}[r.Intn(5)]
		pf, _ := strconv.ParseFloat(pc, 64)
		inner := ref[m:]
		keep := int(math.Ceil(float64(len(inner)) * pf / 100))
		if keep > len(inner) {
			keep = len(inner)
		}
		want := inner[:keep]
		var q string
		if k == 0 {
			q = fmt.Sprintf("SELECT id FROM (SELECT * FROM t ORDER BY %s, id OFFSET %d) s ORDER BY %s, id LIMIT %s PERCENT", orderBy, m, orderBy, pc)
		} else {
			inner2 := ref[m:]
			lim := []int{1, 3, n}[r.Intn(3)]
			if lim > len(inner2) {
				lim = len(inner2)
			}
			want = inner2[:lim]
			keep2 := int(math.Ceil(float64(len(want)) * pf / 100))
			want = want[:keep2]
			q = fmt.Sprintf("SELECT id FROM (SELECT * FROM t ORDER BY %s, id LIMIT %d OFFSET %d) s ORDER BY %s, id LIMIT %s PERCENT", orderBy, lim, m, orderBy, pc)
		}
		if v := run(q); v != nil {
			if got := idsOf(v); !eqInts(got, want) {
				viol("cut:nested", q, "the outer query does not cut exactly the rows the inner query returns", got, want)
			}
		}
	}
	// Q3b: a cut query as the operand of IN / NOT IN / ANY: the rows it contributes are exactly the cut of the sorted rows
	// (the sub-query is evaluated once per row: in the thorough tier every fourth table takes these queries)
	if n > 0 && (w.Tier != "thorough" || i%4 == 1) {
		m := r.Range(0, n)
		lim := r.Range(0, n)
		for k, cut := range []string{fmt.Sprintf("OFFSET %d", m), fmt.Sprintf("LIMIT %d", lim), fmt.Sprintf("LIMIT %d OFFSET %d", lim, m), fmt.Sprintf("OFFSET %d ROWS", m)} {
			var part []int
			switch k {
			case 0, 3:
				part = ref[m:]
			case 1:
				part = ref[:lim]
			default:
				e := m + lim
				if e > n {
					e = n
				}
				part = ref[m:e]
			}
			in := map[int]bool{}
			for _, id := range part {
				in[id] = true
			}
			var wantIn, wantNot []int
			for id := 1; id <= n; id++ {
				if in[id] {
					wantIn = append(wantIn, id)
				} else {
					wantNot = append(wantNot, id)
				}
			}
			if n > 60 && k != i%4 {
				continue // (the sub-query is evaluated once per row: large tables take one cut and one form)
			}
			for j, form := range []string{"id IN (SELECT id FROM t ORDER BY %s, id %s)", "id = ANY (SELECT id FROM t ORDER BY %s, id %s)", "id NOT IN (SELECT id FROM t ORDER BY %s, id %s)", "(id, 1) IN (SELECT id, 1 FROM t ORDER BY %s, id %s)"} {
				if n > 60 && j != (i/4)%4 {
					continue
				}
				q := "SELECT id FROM t WHERE " + fmt.Sprintf(form, orderBy, cut) + " ORDER BY id"
				want := wantIn
				if j == 2 {
					want = wantNot
				}
				if v := run(q); v != nil {
					if got := idsOf(v); !eqInts(got, want) {
						viol("cut:as-operand", q, "the sub-query does not contribute exactly the cut of its sorted rows", got, want)
					}
				}
			}
		}
	}
	// Q4: WITH TIES at every cut position 1..10 (the tie test is a separate piece of code from the sort order)
	for lim := 1; lim <= 10 && lim < n; lim++ {
		q := fmt.Sprintf("SELECT id FROM t ORDER BY %s LIMIT %d WITH TIES", orderBy, lim)
		v := run(q)
		if v == nil {
			continue
		}
		wantEnd := lim
		for wantEnd < n && rowCmp(keys, rowByID(ref[wantEnd]), rowByID(ref[lim-1])) == 0 {
			wantEnd++
		}
		got := idsOf(v)
		if len(got) != wantEnd {
			viol("cut:ties-at-every-position", q, fmt.Sprintf("returned %d rows; %d rows precede or tie with the row at position %d", len(got), wantEnd, lim), got, ref[:wantEnd])
			break
		}
		for j := range got {
			if got[j] < 1 || got[j] > n || rowCmp(keys, rowByID(got[j]), rowByID(ref[j])) != 0 {
				viol("cut:ties-at-every-position", q, fmt.Sprintf("position %d holds a row whose sort keys differ from those of the specified slice", j), got, ref[:wantEnd])
				break
			}
		}
	}
	// cuts
	type cut struct {
		lim     string // "" none
		percent bool
		ties    bool
		off     string
	}
	bnd := []int{0, 1, 2, n / 2, n - 1, n, n + 1, n + 7, -1, -5}
	pcs := []string{"0", "0.1", "10", "33.3", "50", "99.9", "100", "150", "-5", "7", "14", "28", "55", "56", "68"}
	var cuts []cut
	for k := 0; k < 10; k++ {
		c := cut{}
		switch r.Intn(4) {
		case 0:
			c.off = strconv.Itoa(bnd[r.Intn(len(bnd))])
		case 1:
			c.lim = strconv.Itoa(bnd[r.Intn(len(bnd))])
		default:
			c.lim = strconv.Itoa(bnd[r.Intn(len(bnd))])
			c.off = strconv.Itoa(bnd[r.Intn(len(bnd))])
		}
		if c.lim != "" && r.P(35) {
			c.percent = true
			c.lim = pcs[r.Intn(len(pcs))]
		}
		if c.lim != "" && r.P(45) {
			c.ties = true
		}
		cuts = append(cuts, c)
	}
	for ci, c := range cuts {
		clause := ""
		if c.lim != "" {
			clause += " LIMIT " + c.lim
			if c.percent {
				clause += " PERCENT"
			}
			if c.ties {
				clause += " WITH TIES"
			}
		}
		if c.off != "" {
			clause += " OFFSET " + c.off
		}
		off := 0
		if c.off != "" {
			off, _ = strconv.Atoi(c.off)
			if off < 0 {
				off = 0
			}
		}
		if off > n {
			off = n
		}
		lim := n
		if c.lim != "" {
			if c.percent {
				p, _ := strconv.ParseFloat(c.lim, 64)
				if p > 100 {
					p = 100
				}
				if p < 0 {
					p = 0
				}
				lim = int(math.Ceil(float64(n) * p / 100))
			} else {
				lim, _ = strconv.Atoi(c.lim)
				if lim < 0 {
					lim = 0
				}
			}
		}
		end := off + lim
		if end > n {
			end = n
		}
		mode := ci % 3
		switch mode {
		case 0: // total order: exact slice (WITH TIES adds nothing: no two rows tie on (keys,id))
			q := "SELECT id FROM t ORDER BY " + orderBy + ", id" + clause
			if v := run(q); v != nil {
				want := ref[off:end]
				if got := idsOf(v); !eqInts(got, want) {
					viol("cut:total"+cutSig(c.percent, c.ties, c.off != ""), q, "is not the specified slice of the sorted rows", got, want)
				}
			}
		case 1: // listed keys only: the slice is determined up to the order inside tie groups
			q := "SELECT id FROM t ORDER BY " + orderBy + clause
			if v := run(q); v != nil {
				wantEnd := end
				if c.ties && lim > 0 && end > off && end < n {
					for wantEnd < n && rowCmp(keys, rowByID(ref[wantEnd]), rowByID(ref[end-1])) == 0 {
						wantEnd++
					}
				}
				got := idsOf(v)
				want := ref[off:wantEnd]
				if len(got) != len(want) {
					viol("cut:keys-count"+cutSig(c.percent, c.ties, c.off != ""), q, fmt.Sprintf("returned %d rows, the specification gives %d", len(got), len(want)), got, want)
				} else {
					seen := map[int]bool{}
					for j := range got {
						if got[j] < 1 || got[j] > n || seen[got[j]] {
							viol("cut:keys-dup", q, "duplicate or foreign id in the output", got, want)
							break
						}
						seen[got[j]] = true
						if rowCmp(keys, rowByID(got[j]), rowByID(want[j])) != 0 {
							viol("cut:keys-rows"+cutSig(c.percent, c.ties, c.off != ""), q, fmt.Sprintf("position %d holds a row whose sort keys differ from those of the specified slice", j), got, want)
							break
						}
					}
				}
			}
		case 2: // no ORDER BY: table order, WITH TIES ignored
			q := "SELECT id FROM t" + clause
			if v := run(q); v != nil {
				var want []int
				for j := off; j < end; j++ {
					want = append(want, j+1)
				}
				if got := idsOf(v); !eqInts(got, want) {
					viol("cut:unordered"+cutSig(c.percent, c.ties, c.off != ""), q, "is not the specified slice of the table order", got, want)
				}
			}
		}
	}
	if i < 40 {
		w.Sample(map[string]interface{}{"table": t.Dump(6), "order_by": orderBy, "cpu": cpu, "queries": evaluated})
	}
	if big {
		w.Count("cases_parallel_path", 1)
	}
	w.Count("queries_evaluated", int64(evaluated))
	w.Case(core.Digest(t.CSV(), orderBy), n >= 3 && evaluated >= 16)
}

func cutSig(percent, ties, off bool) string {
	s := ""
	if percent {
		s += "+percent"
	}
	if ties {
		s += "+ties"
	}
	if off {
		s += "+offset"
	}
	return s
}

func fmtRow(r []*string) string {
	var p []string
	for _, c := range r {
		p = append(p, cellStr(c))
	}
	return "[" + strings.Join(p, ",") + "]"
}

func eqInts(a, b []int) bool {
	if len(a) != len(b) {
		return false
	}
	for i := range a {
		if a[i] != b[i] {
			return false
		}
	}
	return true
}
