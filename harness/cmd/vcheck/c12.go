package main

import (
	"fmt"
	"os"
	"path/filepath"
	"strings"
	"time"

	"verif/internal/core"
)

func init() {
	core.Register(&core.Spec{
		ID: "C12", Level: "exploration",
		Rule: "one case = one generated program (filters, joins, GROUP BY with/without ORDER BY, DISTINCT, set operators, LISTAGG/JSON_AGG, analytic functions, ORDER BY with ties + LIMIT, and DML whose result is committed: INSERT..SELECT, UPDATE, DELETE, REPLACE, CREATE TABLE AS, ALTER ADD) over tables whose sizes straddle the goroutine-split thresholds; " +
			"it is executed by the real binary once with --cpu 1 and then again with --cpu 1 and with --cpu 2,3,4,8,16, twice each, with seeded scheduling jitter in the worker goroutines; stdout bytes and every file in the directory must be identical. " +
			"non-trivial = at least one cpu>1 execution really ran a section on >1 worker goroutine (observed through the hook trace); distinct = program digest.",
		Quick: 96, Thorough: 6000, FloorQuick: 60, FloorThorough: 3700,
		CaseTimeout: 10 * time.Minute,
		Assumptions: []string{"programs run with --quiet: operation-log lines ('N records updated on ...') are not query results", "no RAND/NOW-like functions and no assignments inside queries are generated (excluded by the statement)"},
		Fn:          c12Case,
	})
}

type c12Replay struct {
	Program string            `json:"program"`
	Files   map[string]string `json:"files"`
	CPU     int               `json:"cpu"`
	Jitter  uint64            `json:"jitter"`
	Diff    string            `json:"diff"`
}

func genC12(r *core.Rng) (files map[string]string, program string, class string) {
	n := bigSizes[r.Intn(len(bigSizes))]
	if r.P(15) {
		n = []int{1280, 2560, 4000}[r.Intn(3)]
	}
	keys := []string{"a", "b", "c", "d", "e", "f", "g", "h", "i", "j", "k", "l", "m", "n", "o", "p", "q", "r", "s"}
	nk := r.Range(2, len(keys))
	// f: amounts whose partial sums are inexact in binary — the digits of a sum then depend on the order of the additions
	inexact := []string{"19.99", "0.1", "0.7", "1.005", "33.33", "0.3", "1e-3", "2.675", "1234.56", "0.07", "99.9", "-0.1", "1e10", "7.1"}
	t := genTable(r, "t", n, []colProfile{{Kind: "k", Vals: keys[:nk]}, {Kind: "ints", NullPct: 5}, {Kind: "text", NullPct: 5}, {Kind: "f", Vals: inexact, NullPct: 3}}, []string{"k", "v", "s", "f"})
	if r.P(30) {
		// the file consists of k equally long runs, each sorted by id (two sorted exports appended to each other): every
		// worker's share of the records may then be in order while the table is not
		k := []int{2, 3, 4, 8}[r.Intn(4)]
		n = 80 * k * r.Range(1, 3)
		t = genTable(r, "t", n, []colProfile{{Kind: "k", Vals: keys[:nk]}, {Kind: "ints", NullPct: 5}, {Kind: "text", NullPct: 5}, {Kind: "f", Vals: inexact, NullPct: 3}}, []string{"k", "v", "s", "f"})
		var rows [][]*string
		for j := 0; j < k; j++ {
			for x := j; x < n; x += k {
				rows = append(rows, t.Rows[x])
			}
		}
		t.Rows = rows
	}
	m := r.Range(3, 200)
	u := genTable(r, "u", m, []colProfile{{Kind: "k", Vals: keys[:nk]}, {Kind: "ints"}}, []string{"k", "w"})
	files = map[string]string{"t.csv": t.CSV(), "u.csv": u.CSV()}
	var parts []string
	if r.P(40) {
		class = "dml"
		parts = append(parts, c12Dml[r.Intn(len(c12Dml))])
		if r.P(50) {
			parts = append(parts, c12Sel[r.Intn(len(c12Sel))])
		}
	} else {
		class = "select"
		for k := r.Range(1, 3); k > 0; k-- {
			parts = append(parts, c12Sel[r.Intn(len(c12Sel))])
		}
	}
	return files, strings.Join(parts, ";\n") + ";", class
}

func c12Case(w *core.Worker, i int) {
	r := w.Rng(i, "")
	files, prog, class := genC12(r)
	type outcome struct {
		res  core.ProcResult
		snap core.Snap
	}
	exec := func(cpu int, jitter uint64, trace string) outcome {
		d := core.FreshDir(w.Work, "run")
		core.WriteFiles(d, files)
		env := []string{}
		if jitter != 0 {
			env = append(env, fmt.Sprintf("VERIF_JITTER=%d", jitter))
		}
		if trace != "" {
			_ = os.Remove(trace)
			env = append(env, "VERIF_TRACE="+trace)
		}
		res := core.RunProc(core.ProcOpts{Dir: d, Args: csvqArgs("-q", "-f", "CSV", "--cpu", fmt.Sprint(cpu), prog), Env: env, Timeout: 120 * time.Second})
		return outcome{res, core.TakeSnap(d)}
	}
	if w.Replay {
		fmt.Println("program:", prog)
	}
	ref := exec(1, 0, "")
	if ref.res.Code != 0 {
		w.Violation("program-failed", fmt.Sprintf("reference run failed: %s\n%s", ref.res, prog), c12Replay{Program: prog, Files: small(files), CPU: 1})
		return
	}
	parallel := false
	runs := 0
	tracePath := filepath.Join(w.Work, "trace.log")
	for _, cpu := range []int{1, 2, 3, 4, 8, 16} { // cpu 1 again: map-iteration order must not show either
		for rep := 0; rep < 2; rep++ {
			jit := r.U64() | 1
			o := exec(cpu, jit, tracePath)
			runs++
			evs := core.ReadTrace(tracePath)
			var sig []string
			for _, e := range evs {
				if strings.HasPrefix(e.Name, "worker.") {
					parallel = true
					sig = append(sig, e.Name[7:]+":"+e.Detail)
				}
			}
			if len(sig) > 0 {
				w.Note("interleaving_signatures", core.Digest(sig...))
				w.Count("parallel_worker_starts", int64(len(sig)))
			}
			diff := ""
			if o.res.Code != ref.res.Code {
				diff = fmt.Sprintf("exit code %d vs %d (%s)", o.res.Code, ref.res.Code, truncateStr(o.res.Stderr, 200))
			} else if o.res.Stdout != ref.res.Stdout {
				diff = "stdout differs: " + firstDiff(ref.res.Stdout, o.res.Stdout)
			} else {
				for _, n := range ref.snap.Names() {
					if string(o.snap[n].Data) != string(ref.snap[n].Data) {
						diff = "file " + n + " differs: " + firstDiff(string(ref.snap[n].Data), string(o.snap[n].Data))
						break
					}
				}
				if diff == "" && len(o.snap) != len(ref.snap) {
					diff = fmt.Sprintf("directory differs: %v vs %v", o.snap.Names(), ref.snap.Names())
				}
			}
			if diff != "" {
				w.Violation("diverges:"+c12Class(prog), fmt.Sprintf("--cpu %d (jitter %d) differs from --cpu 1: %s\nprogram: %s", cpu, jit, diff, prog),
					c12Replay{Program: prog, Files: small(files), CPU: cpu, Jitter: jit, Diff: diff})
				goto done
			}
		}
	}
done:
	w.Count("executions", int64(runs+1))
	if i < 4 {
		w.Sample(map[string]interface{}{"program": prog, "class": class, "rows_t": strings.Count(files["t.csv"], "\n") - 1, "executions": runs + 1})
	}
	w.Case(core.Digest(prog, files["t.csv"]), parallel)
}

func c12Class(prog string) string {
	for _, k := range []string{"GROUP BY", "DISTINCT", "REPLACE", "UNION", "EXCEPT", "INTERSECT", "OVER", "JOIN", "ORDER BY", "UPDATE", "DELETE", "INSERT", "ALTER", "CREATE"} {
		if strings.Contains(prog, k) {
			return strings.ToLower(strings.ReplaceAll(k, " ", "-"))
		}
	}
	return "select"
}

func truncateStr(s string, n int) string {
	if len(s) > n {
		return s[:n] + "…"
	}
	return s
}

func firstDiff(a, b string) string {
	la, lb := strings.Split(a, "\n"), strings.Split(b, "\n")
	for i := 0; i < len(la) || i < len(lb); i++ {
		x, y := "<eof>", "<eof>"
		if i < len(la) {
			x = la[i]
		}
		if i < len(lb) {
			y = lb[i]
		}
		if x != y {
			return fmt.Sprintf("line %d: %q vs %q (%d vs %d lines)", i+1, truncateStr(x, 120), truncateStr(y, 120), len(la), len(lb))
		}
	}
	return "(no line difference)"
}

var c12Sel = []string{
	// partition keys that are the same value object in neighbouring records (NULL, a boolean, cells of one joined record)
	"SELECT id, ROW_NUMBER() OVER (PARTITION BY NULLIF(k, k) ORDER BY id) AS rn, COUNT(*) OVER (PARTITION BY v IS NULL) AS c, SUM(v) OVER (PARTITION BY CASE WHEN v > 100000 THEN 'x' END) AS sv FROM t",
	"SELECT t.id, u.id AS uid, COUNT(*) OVER (PARTITION BY u.k, u.w) AS c, ROW_NUMBER() OVER (PARTITION BY u.id ORDER BY t.id) AS rn FROM u JOIN t ON t.k = u.k",
	"SELECT id, v FROM t ORDER BY id",
	"SELECT id, ROW_NUMBER() OVER (ORDER BY id) AS rn, SUM(v) OVER (ORDER BY id) AS rs FROM t",
	"SELECT id, k FROM t ORDER BY id DESC LIMIT 7",
	"SELECT SUM(f) AS s, AVG(f) AS a, STDEV(f) AS sd, VAR(f) AS va, MEDIAN(f) AS md, COUNT(f) AS c FROM t",
	"SELECT k, SUM(f) AS s, AVG(f) AS a, SUM(f * v) AS sp, STDEVP(f) AS sd FROM t GROUP BY k",
	"SELECT id, SUM(f) OVER (PARTITION BY k) AS s, AVG(f) OVER () AS a, SUM(f) OVER (ORDER BY id ROWS BETWEEN 90 PRECEDING AND CURRENT ROW) AS w FROM t",
	"SELECT s, SUM(f) AS sf, AVG(f) AS a FROM t GROUP BY s HAVING SUM(f) > 0",
	"SELECT id, k, v, s FROM t WHERE v > 2 OR s IS NULL",
	"SELECT id, v * 2 AS dbl, UPPER(s) AS us FROM t WHERE id % 3 <> 0",
	"SELECT t.id, u.id AS uid, t.k, u.w FROM t INNER JOIN u ON t.k = u.k AND t.v = u.w",
	"SELECT t.id, u.id AS uid FROM t LEFT JOIN u ON t.k = u.k AND u.w > 5 WHERE t.id % 7 = 0",
	"SELECT u.id, t.id AS tid FROM u RIGHT JOIN t ON t.k = u.k AND t.id = u.id",
	"SELECT t.id, z.w FROM t, LATERAL (SELECT w FROM u WHERE u.k = t.k AND u.id <= 3) z",
	"SELECT t.id, z.c FROM t LEFT JOIN LATERAL (SELECT COUNT(*) AS c FROM u WHERE u.k = t.k) z ON 1 = 1",
	"SELECT t.id, t.v, z.id AS uid FROM t INNER JOIN LATERAL (SELECT id FROM u WHERE u.id = t.id % 7) z ON 1 = 1",
	"SELECT t.id, u.id AS uid FROM t FULL JOIN u ON t.id = u.id",
	"SELECT COUNT(*) FROM t FULL JOIN u ON t.k = u.k",
	"SELECT t.id, u.id AS uid FROM t FULL JOIN u ON t.k = u.k AND t.v < u.w",
	"SELECT t.id, u.id AS uid FROM u RIGHT JOIN t ON t.k = u.k WHERE u.w > 3",
	"SELECT t.id, u.id AS uid FROM t LEFT JOIN u ON t.k = u.k WHERE t.id % 3 = 0",
	"SELECT k, t.id, u.id AS uid FROM t JOIN u USING (k) WHERE t.v = u.w",
	"SELECT id, k, v, w FROM t NATURAL JOIN u",
	"SELECT t.id, x.id AS xid FROM t CROSS JOIN (SELECT id FROM u WHERE id <= 3) x WHERE t.id % 11 = 0",
	"SELECT k, COUNT(*) AS c, SUM(v) AS sv, MIN(s) AS mn, MAX(id) AS mx FROM t GROUP BY k",
	"SELECT k, v, COUNT(*) AS c FROM t GROUP BY k, v",
	"SELECT k, LISTAGG(id, ' ') AS ids FROM t GROUP BY k",
	"SELECT k, JSON_AGG(v) AS vs FROM t GROUP BY k",
	"SELECT s, COUNT(*) AS c, AVG(v) AS a FROM t GROUP BY s HAVING COUNT(*) > 1",
	"SELECT k, COUNT(*) AS c FROM t GROUP BY k ORDER BY c DESC, k",
	"SELECT DISTINCT k, v FROM t",
	"SELECT DISTINCT s FROM t",
	"SELECT k, v FROM t UNION SELECT k, w FROM u",
	"SELECT k, v FROM t EXCEPT SELECT k, w FROM u",
	"SELECT k, v FROM t INTERSECT SELECT k, w FROM u",
	"SELECT id, k, ROW_NUMBER() OVER (PARTITION BY k ORDER BY v, id) AS rn, RANK() OVER (PARTITION BY k ORDER BY v) AS rk FROM t",
	"SELECT id, SUM(v) OVER (PARTITION BY k) AS sv, COUNT(*) OVER (PARTITION BY k, v) AS c FROM t",
	"SELECT id, LAG(v) OVER (PARTITION BY k ORDER BY id) AS pv, FIRST_VALUE(s) OVER (PARTITION BY k ORDER BY id) AS fs FROM t",
	"SELECT id, LISTAGG(id, ',') OVER (PARTITION BY v) AS peers FROM t WHERE id % 5 = 0",
	"SELECT id, k, v FROM t ORDER BY v, k LIMIT 50",
	"SELECT id, k, v FROM t ORDER BY k DESC LIMIT 10 PERCENT WITH TIES",
	"SELECT id, (SELECT COUNT(*) FROM u WHERE u.k = t.k) AS cnt FROM t WHERE id % 13 = 0",
	"SELECT id FROM t WHERE v IN (SELECT w FROM u) AND EXISTS (SELECT 1 FROM u WHERE u.k = t.k)",
	"SELECT k, MEDIAN(v) AS md, STDEV(v) AS sd FROM t GROUP BY k",
}
var c12Dml = []string{
	"PREPARE p FROM 'SELECT COUNT(*) FROM t WHERE v > ? AND k <> ?'; EXECUTE p USING 1, 'zz'; EXECUTE p USING 1 + 1, 'a' || 'b'; PREPARE q FROM 'SELECT id, v + :inc FROM t WHERE v >= :lo ORDER BY id'; EXECUTE q USING 1 AS inc, 0 AS lo",
	"CREATE TABLE `totals.csv` AS SELECT k, SUM(f) AS s, AVG(f) AS a FROM t GROUP BY k; SELECT SUM(s) FROM totals",
	"UPDATE t SET f = (SELECT SUM(x.f) FROM t x) WHERE id % 400 = 1; SELECT AVG(f) FROM t",
	"INSERT INTO u (id, k, w) SELECT MAX(id) + 100000, k, SUM(f) FROM t GROUP BY k; SELECT SUM(w) FROM u",
	"DECLARE pick AGGREGATE (c, @k) AS BEGIN VAR @n := 0; VAR @x; WHILE @x IN c DO @n := @n + 1; END WHILE; RETURN @k * 1000 + @n; END; SELECT id, pick(v, id) OVER (PARTITION BY k) FROM t; SELECT k, pick(v, 7) FROM t GROUP BY k",
	"DECLARE wsum AGGREGATE (c, @w) AS BEGIN VAR @s := 0; VAR @x; WHILE @x IN c DO IF @x IS NOT NULL THEN @s := @s + @x * @w; END IF; END WHILE; RETURN @s; END; SELECT id, wsum(v, id % 3) OVER (PARTITION BY k ORDER BY id) FROM t",
	"REPLACE INTO t (k, s) USING (k) VALUES ('a', 'ra'), ('b', 'rb'), ('zz', 'new1'), ('c', 'rc'), ('yy', 'new2'); SELECT k, s, COUNT(*) FROM t GROUP BY k, s",
	"INSERT INTO u (id, k, w) SELECT id + 100000, k, v FROM t WHERE v > 3; SELECT COUNT(*) FROM u",
	"UPDATE t SET s = k || '-' || v WHERE v % 2 = 0; SELECT COUNT(*) FROM t WHERE s LIKE '%-%'",
	"UPDATE t SET v = u.w FROM t JOIN u ON t.id = u.id; SELECT SUM(v) FROM t",
	"DELETE FROM t WHERE v < 3 OR s IS NULL; SELECT COUNT(*) FROM t",
	"REPLACE INTO u (id, k, w) USING (id) SELECT id, k, v FROM t WHERE id % 2 = 0; SELECT COUNT(*) FROM u",
	"CREATE TABLE `g.csv` (k, c, ids) AS SELECT k, COUNT(*), LISTAGG(id, ' ') FROM t GROUP BY k",
	"CREATE TABLE `d.csv` AS SELECT DISTINCT k, v FROM t",
	"ALTER TABLE t ADD (z DEFAULT v * 2, y DEFAULT k || s) AFTER k; SELECT COUNT(*) FROM t",
	"INSERT INTO u SELECT id + 200000, k, COUNT(*) OVER (PARTITION BY k) FROM t WHERE id % 4 = 0",
	"CREATE TABLE `j.csv` AS SELECT t.id, u.id AS uid FROM t JOIN u ON t.k = u.k WHERE t.id % 9 = 0",
}
