package main

import (
	"fmt"
	"github.com/mithrandie/csvq/lib/verifhook"
	"os"
	"path/filepath"
	"sort"
	"strconv"
	"strings"
	"sync/atomic"
	"time"

	"verif/internal/core"
)

func init() {
	core.Register(&core.Spec{
		ID: "C20", Level: "exploration",
		Rule: "one case = one history of 3..9 statements of a transaction A (plain SELECT, SELECT through a sub-query / CTE / self-join, SELECT FOR UPDATE, INSERT, UPDATE, DELETE, COMMIT, ROLLBACK on one table) executed statement by statement by an in-process processor without auto-commit (what the interactive shell does), and for EVERY subset of at most two gaps between A's statements a second, real csvq process B rewrites a version stamp in every row of the file and commits (wait-timeout 0.2 s) in exactly those gaps. " +
			"Oracle: a model of A's working copy (loaded at the first access from the disk version of that moment; re-loaded only at the first data-changing or FOR UPDATE access after a plain SELECT, and after COMMIT/ROLLBACK; A's own changes on top) must equal every result A reads; while A holds the table for update B must fail with the lock-timeout exit status and leave the file unchanged; after A's COMMIT the file must equal A's copy. non-trivial = B committed in at least one gap while A had the table loaded and A read it afterwards; distinct = (history, gap set).",
		Quick: 180, Thorough: 3000, FloorQuick: 500, FloorThorough: 12000,
		CaseTimeout: 10 * time.Minute,
		Assumptions: []string{"B runs to completion inside a gap (no overlap in time with a statement of A): the property is about what A sees between its own statements", "the version seen after a failed lock upgrade is not specified and cannot occur here (B never holds the lock across a gap)"},
		Setup:       func(w *core.Worker) { core.HermeticProcess(w.Work) },
		Fn:          c20Case,
	})
}

type c20Row struct{ id, ver, note string }

type c20Replay struct {
	History []string `json:"history_of_A"`
	Gaps    []int    `json:"gaps_with_a_commit_of_B"`
	Step    int      `json:"step"`
	Detail  string   `json:"detail"`
}

// c20RenderJSON spells the table as csvq writes a JSON file (initial ids are texts, inserted ids numbers).
func c20RenderJSON(rows []c20Row) string {
	var parts []string
	for _, r := range rows {
		id := `"` + r.id + `"`
		if len(r.id) >= 3 {
			id = r.id
		}
		parts = append(parts, fmt.Sprintf(`{"id":%s,"ver":"%s","note":"%s"}`, id, r.ver, r.note))
	}
	return "[" + strings.Join(parts, ",") + "]\n"
}

func c20Render(rows []c20Row) string {
	var sb strings.Builder
	sb.WriteString("id,ver,note\n")
	for _, r := range rows {
		sb.WriteString(r.id + "," + r.ver + "," + r.note + "\n")
	}
	return sb.String()
}

func c20Text(rows []c20Row) string {
	var p []string
	for _, r := range rows {
		p = append(p, r.id+":"+r.ver+":"+r.note)
	}
	return strings.Join(p, " ")
}

// c20Parallel: a statement whose rows are evaluated by several goroutines reads, through a sub-query, a table the transaction
// has not loaded yet. The table is loaded once: should the statement start to load it again, B commits at that very moment
// (a monitor at the load hook runs B to completion), so that a second load becomes visible as rows of one statement — and later
// statements — showing two versions.
func c20Parallel(w *core.Worker, i int) {
	r := w.Rng(i, "parallel")
	dir := core.FreshDir(w.Work, "par")
	n := []int{160, 240, 320, 480, 640}[r.Intn(5)]
	var sb strings.Builder
	sb.WriteString("id\n")
	for k := 1; k <= n; k++ {
		fmt.Fprintf(&sb, "%d\n", k)
	}
	core.WriteFiles(dir, map[string]string{"o.csv": sb.String(), "t.csv": c20Render([]c20Row{{"1", "v0", "n"}, {"2", "v0", "n"}, {"3", "v0", "n"}}), "p.csv": "id\n1\n"})
	s, err := core.NewSess(core.SessOpts{Dir: dir, Quiet: true, WaitTimeout: 10, CPU: r.Range(2, 8)})
	if err != nil {
		w.Inconclusive(err.Error())
		return
	}
	defer s.Close()
	stmt := []string{
		"SELECT o.id, (SELECT x.ver FROM t x WHERE x.id = o.id % 3 + 1) AS v FROM o;",
		"SELECT o.id, (SELECT MIN(ver) FROM t) AS v FROM o;",
		"SELECT o.id, 'v0' AS v FROM o WHERE EXISTS (SELECT 1 FROM t WHERE t.ver = 'v0' AND t.id = o.id % 3 + 1);",
		"SELECT o.id, (SELECT MAX(x.ver) FROM t x JOIN p ON 1 = 1 WHERE x.id <= o.id) AS v FROM o;",
		"SELECT o.id, CASE WHEN o.id % 3 + 1 IN (SELECT id FROM t WHERE ver = 'v0') THEN 'v0' ELSE 'other' END AS v FROM o;",
	}[r.Intn(5)]
	var loads, bRuns int64
	var bRes core.ProcResult
	expected := int64(2)
	if strings.Contains(stmt, "JOIN p ") {
		expected = 3
	}
	verifhook.SetCallback(func(point string, hit int64) {
		// (the first step of a read acquisition: nothing of the table is held yet, B can run to completion here)
		if point != "rlock.checked" {
			return
		}
		// loads of this statement: o, t (and p) once each; one more is a table loaded again
		if k := atomic.AddInt64(&loads, 1); k == expected+1 && atomic.AddInt64(&bRuns, 1) == 1 {
			bRes = core.RunProc(core.ProcOpts{Dir: dir, Args: csvqArgs("-q", "--wait-timeout", "3", "UPDATE t SET ver = 'B1';"), Timeout: 60 * time.Second})
		}
	})
	res := s.Exec(stmt)
	verifhook.SetCallback(nil)
	viol := func(sig, what string) {
		w.Violation(sig, fmt.Sprintf("%s (outer table of %d rows): %s", stmt, n, what), c20Replay{History: []string{stmt}, Detail: what})
	}
	if res.Err != nil || len(res.Views) != 1 {
		viol("a-error", fmt.Sprint(res.Err))
		return
	}
	other := 0
	for _, row := range res.Views[0].Rows {
		if row[1].S != "v0" {
			other++
		}
	}
	if len(res.Views[0].Rows) != n || other > 0 {
		viol("stale-or-foreign-data:parallel-subquery", fmt.Sprintf("%d of %d rows of one statement do not show the version the transaction loaded (loads started during the statement: %d; B ran at the extra load: exit %d)", other+n-len(res.Views[0].Rows), n, atomic.LoadInt64(&loads), bRes.Code))
		return
	}
	// the next read of the same transaction still sees what was loaded, whatever B does now
	b2 := core.RunProc(core.ProcOpts{Dir: dir, Args: csvqArgs("-q", "--wait-timeout", "10", "UPDATE t SET ver = 'B2';"), Timeout: 60 * time.Second})
	again := s.Exec("SELECT ver FROM t;")
	if again.Err != nil || len(again.Views) != 1 {
		viol("a-error", fmt.Sprint(again.Err))
		return
	}
	for _, row := range again.Views[0].Rows {
		if row[0].S != "v0" {
			viol("stale-or-foreign-data:parallel-subquery", fmt.Sprintf("after the statement the transaction reads version %s of the table it had loaded as v0 (B committed meanwhile: exit %d)", row[0].S, b2.Code))
			return
		}
	}
	w.Count("parallel_statements_loading_a_table_in_a_sub-query", 1)
	w.Count("loads_started_by_those_statements", atomic.LoadInt64(&loads))
	w.Case(core.Digest("parallel", stmt, fmt.Sprint(n, i)), b2.Code == 0)
}

func c20Case(w *core.Worker, i int) {
	if i%6 == 1 {
		c20Parallel(w, i)
	}
	r := w.Rng(i, "")
	// A's history
	type stmt struct {
		kind string
		sql  string
	}
	n := r.Range(3, 9)
	var hist []stmt
	insN := 0
	for k := 0; k < n; k++ {
		switch c := r.Intn(17); {
		case c == 16 && i%4 != 3:
			// a table attribute set to the value it has: nothing changes, but the statement is a data-changing one — the table is
			// held from here on like after an UPDATE that matches no row
			hist = append(hist, stmt{"noopalter", []string{"ALTER TABLE t SET DELIMITER TO ',';", "ALTER TABLE t SET HEADER TO TRUE;", "ALTER TABLE t SET LINE_BREAK TO LF;", "ALTER TABLE t SET ENCLOSE_ALL TO FALSE;", "UPDATE t SET note = 'never' WHERE id = 999;", "DELETE FROM t WHERE id = 999;"}[r.Intn(6)]})
		case c == 16:
			hist = append(hist, stmt{"noopalter", []string{"UPDATE t SET note = 'never' WHERE id = 999;", "DELETE FROM t WHERE id = 999;"}[r.Intn(2)]})
		case c >= 14 && i%4 == 3:
			hist = append(hist, stmt{"select", "SELECT id, ver, note FROM t;"}) // (the JSON histories keep to ids whose spelling the file fixes)
		case c == 14:
			// a second row with a key the table already holds (ids are no keys to csvq)
			insN++
			hist = append(hist, stmt{"insert", fmt.Sprintf("INSERT INTO t VALUES (%d, 'A', 'dup%d');", r.Range(1, 2), k)})
		case c == 15:
			// REPLACE: every row holding a given key is overwritten, a record with a new key is added — both are changes of A's own
			hist = append(hist, stmt{"replace", fmt.Sprintf("REPLACE INTO t (id, ver, note) USING (id) VALUES (%d, 'A', 'rp%d'), (%d, 'A', 'rn%d');", r.Range(1, 3), k, 200+k, k)})
		case c <= 2 && r.P(30):
			// a command that only describes the table: it loads the table if the transaction has not yet, and changes nothing
			hist = append(hist, stmt{"describe", []string{"SHOW FIELDS FROM t;", "SHOW FIELDS FROM `t.csv`;", "SHOW TABLES;", "SHOW FIELDS FROM t; SHOW TABLES;"}[r.Intn(4)]})
		case c <= 2:
			hist = append(hist, stmt{"select", "SELECT id, ver, note FROM t;"})
		case c == 3:
			hist = append(hist, stmt{"select", "SELECT id, ver, note FROM (SELECT * FROM t) s;"})
		case c == 4:
			hist = append(hist, stmt{"select", "WITH w AS (SELECT * FROM t) SELECT id, ver, note FROM w;"})
		case c == 5 && r.Bool():
			// the same file under another spelling of its path ({DIR} = the repository directory)
			hist = append(hist, stmt{"select", "SELECT id, ver, note FROM `" + []string{"{DIR}/./t", "{DIR}//t.csv", "{DIR}/sub/../t", "./t.csv", "sub/../t", "{DIR}/t"}[r.Intn(6)] + "`;"})
		case c == 5:
			hist = append(hist, stmt{"select", "SELECT a.id, b.ver, a.note FROM t a JOIN t b ON a.id = b.id;"})
		case c == 6:
			// FOR UPDATE holds every table of the query, also one that is only joined
			hist = append(hist, stmt{"forupdate", []string{"SELECT id, ver, note FROM t FOR UPDATE;", "SELECT t.id, t.ver, t.note FROM u JOIN t ON u.id = t.id FOR UPDATE;", "SELECT t.id, t.ver, t.note FROM u, t WHERE u.id = t.id FOR UPDATE;"}[r.Intn(3)]})
		case c <= 8:
			hist = append(hist, stmt{"update", fmt.Sprintf("UPDATE t SET note = 'A%d' WHERE id = %d;", k, r.Range(1, 3))})
		case c == 9:
			insN++
			hist = append(hist, stmt{"insert", fmt.Sprintf("INSERT INTO t VALUES (%d, 'A', 'ins%d');", 100+insN, k)})
		case c == 10:
			hist = append(hist, stmt{"delete", fmt.Sprintf("DELETE FROM t WHERE id = %d;", []int{3, 101, 102}[r.Intn(3)])})
		case c <= 12:
			hist = append(hist, stmt{"commit", "COMMIT;"})
		default:
			hist = append(hist, stmt{"rollback", "ROLLBACK;"})
		}
	}
	hist = append(hist, stmt{"select", "SELECT id, ver, note FROM t;"})
	// every fourth history runs on a JSON file, read through several JSON queries (the query is an import option, not another table)
	jsonMode := i%4 == 3
	var hsql []string
	for k, h := range hist {
		if jsonMode {
			h.sql = strings.ReplaceAll(h.sql, "t.csv", "t.json")
			if h.kind == "select" && h.sql == "SELECT id, ver, note FROM t;" {
				h.sql = []string{"SELECT id, ver, note FROM t;", "SELECT id, ver, note FROM JSON('{id, ver, note}', `t.json`);", "SELECT id, ver, note FROM JSON('', `t.json`) x;", "SELECT id, ver, note FROM JSON('{id, ver, note}', `t.json`) y;"}[r.Intn(4)] // queries that keep the table's shape: the first query used becomes part of what the cached table is
			}
			hist[k] = h
		}
		hsql = append(hsql, h.sql)
	}
	// gap sets: {}, every single gap, every pair
	var gapSets [][]int
	gapSets = append(gapSets, []int{})
	for a := 0; a < len(hist); a++ {
		gapSets = append(gapSets, []int{a})
		for b := a + 1; b < len(hist); b++ {
			gapSets = append(gapSets, []int{a, b})
		}
	}
	for _, gaps := range gapSets {
		c20Run(w, i, hsql, func(k int) string { return hist[k].kind }, gaps, jsonMode)
	}
	if i < 4 {
		w.Sample(map[string]interface{}{"history_of_A": hsql, "interleavings": len(gapSets)})
	}
}

func c20Run(w *core.Worker, ci int, hsql []string, kind func(int) string, gaps []int, jsonMode bool) {
	fname, render := "t.csv", c20Render
	if jsonMode {
		fname, render = "t.json", c20RenderJSON
	}
	dir := core.FreshDir(w.Work, "repo")
	disk := []c20Row{{"1", "v0", "n"}, {"2", "v0", "n"}, {"3", "v0", "n"}}
	_ = os.WriteFile(filepath.Join(dir, fname), []byte(render(disk)), 0644)
	_ = os.MkdirAll(filepath.Join(dir, "sub"), 0755)
	orig := hsql
	hsql = append([]string{}, hsql...)
	for k := range hsql {
		hsql[k] = strings.ReplaceAll(hsql[k], "{DIR}", dir)
	}
	_ = os.WriteFile(filepath.Join(dir, "u.csv"), []byte("id\n1\n2\n3\n101\n102\n103\n104\n105\n106\n107\n108\n109\n"), 0644)
	s, err := core.NewSess(core.SessOpts{Dir: dir, Quiet: true, WaitTimeout: 10})
	if err != nil {
		w.Inconclusive(err.Error())
		return
	}
	defer s.Close()
	var work []c20Row // A's working copy (nil = not loaded)
	loaded, exclusive := false, false
	bCommittedWhileLoaded, readAfter := false, false
	bN := 0
	isGap := func(k int) bool {
		for _, g := range gaps {
			if g == k {
				return true
			}
		}
		return false
	}
	viol := func(step int, sig, what string) {
		w.Violation(sig, fmt.Sprintf("A = %v, B commits before statements %v; at step %d (%s): %s", hsql, gaps, step, hsql[step], what), c20Replay{History: hsql, Gaps: gaps, Step: step, Detail: what})
	}
	cp := func(rows []c20Row) []c20Row { return append([]c20Row{}, rows...) }
	for k := range hsql {
		var slowB chan core.ProcResult
		if isGap(k) && !exclusive && (ci*7+k)%5 == 0 {
			// B arrives first and is slow: it holds the table for update (0.4 s between its change and its COMMIT) at the moment A's
			// statement starts. Whatever A's statement needs from the file it gets after B's COMMIT — a cached copy that was
			// judged current before the wait is stale after it. For the model this is B committing in the gap.
			bN++
			stamp := fmt.Sprintf("B%d", bN)
			slowB = make(chan core.ProcResult, 1)
			go func() {
				slowB <- core.RunProc(core.ProcOpts{Dir: dir, Args: csvqArgs("-q", "--wait-timeout", "10", fmt.Sprintf("UPDATE t SET ver = '%s';", stamp)), Env: []string{"VERIF_DELAY=txcommit.begin=400"}, Timeout: 60 * time.Second})
			}()
			held := false
			for n := 0; n < 2000 && !held; n++ {
				if _, err := os.Stat(filepath.Join(dir, "."+fname+".lock")); err == nil {
					held = true
				} else {
					time.Sleep(5 * time.Millisecond)
				}
			}
			if !held {
				<-slowB
				w.Inconclusive("the slow process B never showed its lock file")
				return
			}
			for j := range disk {
				disk[j].ver = stamp
			}
			if loaded {
				bCommittedWhileLoaded = true
			}
			w.Count("commits_of_a_slow_B_that_held_the_table_when_the_statement_of_A_started", 1)
		} else if isGap(k) {
			bN++
			stamp := fmt.Sprintf("B%d", bN)
			res := core.RunProc(core.ProcOpts{Dir: dir, Args: csvqArgs("-q", "--wait-timeout", "0.2", fmt.Sprintf("UPDATE t SET ver = '%s';", stamp)), Timeout: 60 * time.Second})
			if res.KilledFromOutside() {
				w.Inconclusive(fmt.Sprintf("process B was ended by signal %d from outside the case", res.Signal))
				return
			}
			switch {
			case exclusive:
				if res.Code != 8 {
					viol(k, "writer-not-excluded", fmt.Sprintf("B ended with exit %d although A holds the table for update (%s)", res.Code, truncateStr(res.Stderr, 100)))
				}
				if b, _ := os.ReadFile(filepath.Join(dir, fname)); string(b) != render(disk) {
					viol(k, "file-changed-under-lock", "the file changed while A holds it for update")
				}
			case res.Code == 0:
				for j := range disk {
					disk[j].ver = stamp
				}
				if loaded {
					bCommittedWhileLoaded = true
				}
			default:
				// a 0.2 s deadline also runs out on a loaded machine with nobody holding the file: B is given ten seconds once more —
				// with no lock held it ends at once, against a lock A should not hold it still fails
				res = core.RunProc(core.ProcOpts{Dir: dir, Args: csvqArgs("-q", "--wait-timeout", "10", fmt.Sprintf("UPDATE t SET ver = '%s';", stamp)), Timeout: 60 * time.Second})
				if res.KilledFromOutside() {
					w.Inconclusive(fmt.Sprintf("process B was ended by signal %d from outside the case", res.Signal))
					return
				}
				if res.Code != 0 {
					viol(k, "b-failed", fmt.Sprintf("B failed with exit %d although A holds no lock: %s", res.Code, truncateStr(res.Stderr, 150)))
					return
				}
				w.Count("commits_of_B_repeated_with_a_longer_deadline", 1)
				for j := range disk {
					disk[j].ver = stamp
				}
				if loaded {
					bCommittedWhileLoaded = true
				}
			}
		}
		res := s.Exec(hsql[k])
		if slowB != nil {
			br := <-slowB
			if br.KilledFromOutside() {
				w.Inconclusive(fmt.Sprintf("process B was ended by signal %d from outside the case", br.Signal))
				return
			}
			if br.Code != 0 {
				viol(k, "b-failed", fmt.Sprintf("the slow B, which held the table before A's statement started, failed with exit %d: %s", br.Code, truncateStr(br.Stderr, 150)))
				return
			}
		}
		if res.Err != nil {
			viol(k, "a-error", res.Err.Error())
			return
		}
		switch kind(k) {
		case "describe":
			if strings.Contains(hsql[k], "SHOW FIELDS") && !loaded {
				work, loaded = cp(disk), true
			}
		case "select", "forupdate":
			if kind(k) == "forupdate" && !exclusive {
				// first FOR UPDATE access: (re)load the current file and hold it
				work, loaded, exclusive = cp(disk), true, true
			}
			if !loaded {
				work, loaded = cp(disk), true
			}
			if len(res.Views) != 1 {
				viol(k, "a-error", "no result")
				return
			}
			var got []c20Row
			for _, row := range res.Views[0].Rows {
				got = append(got, c20Row{row[0].S, row[1].S, row[2].S})
			}
			if bCommittedWhileLoaded {
				readAfter = true
			}
			expect := work
			if strings.Contains(hsql[k], " JOIN t b ") || strings.Contains(hsql[k], "FROM u") {
				// joins: a key held by two rows pairs each with both (self-join); u lists the ids 1..3 and 101..109 once each.
				// The order of a join's rows is no part of this property: both sides are compared as bags
				expect = nil
				for _, a := range work {
					if strings.Contains(hsql[k], "FROM u") {
						if n, _ := strconv.Atoi(a.id); (n >= 1 && n <= 3) || (n >= 101 && n <= 109) {
							expect = append(expect, a)
						}
						continue
					}
					for _, b := range work {
						if a.id == b.id {
							expect = append(expect, c20Row{a.id, b.ver, a.note})
						}
					}
				}
				byText := func(rows []c20Row) {
					sort.SliceStable(rows, func(x, y int) bool {
						return rows[x].id+":"+rows[x].ver+":"+rows[x].note < rows[y].id+":"+rows[y].ver+":"+rows[y].note
					})
				}
				got = append([]c20Row{}, got...)
				byText(got)
				byText(expect)
			}
			if c20Text(got) != c20Text(expect) {
				viol(k, "stale-or-foreign-data:"+kind(k), fmt.Sprintf("A read [%s], its transaction must see [%s] (file now: [%s])", c20Text(got), c20Text(expect), c20Text(disk)))
				return
			}
		case "update", "insert", "delete", "replace", "noopalter":
			if !exclusive {
				// first data-changing access: the documented reload
				work, loaded, exclusive = cp(disk), true, true
			}
			f := strings.Fields(strings.TrimSuffix(hsql[k], ";"))
			switch kind(k) {
			case "update":
				id := f[len(f)-1]
				val := strings.Trim(f[5], "'")
				for j := range work {
					if work[j].id == id {
						work[j].note = val
					}
				}
			case "insert":
				var id, note string
				fmt.Sscanf(hsql[k], "INSERT INTO t VALUES (%s", &id)
				id = strings.TrimSuffix(id, ",")
				note = strings.TrimSuffix(strings.Trim(f[len(f)-1], "');"), "'")
				work = append(work, c20Row{id, "A", note})
			case "replace":
				var id1, id2, k1, k2 int
				fmt.Sscanf(hsql[k], "REPLACE INTO t (id, ver, note) USING (id) VALUES (%d, 'A', 'rp%d'), (%d, 'A', 'rn%d');", &id1, &k1, &id2, &k2)
				for _, g := range []c20Row{{fmt.Sprint(id1), "A", fmt.Sprintf("rp%d", k1)}, {fmt.Sprint(id2), "A", fmt.Sprintf("rn%d", k2)}} {
					hit := false
					for j := range work {
						if work[j].id == g.id {
							work[j], hit = g, true
						}
					}
					if !hit {
						work = append(work, g)
					}
				}
			case "delete":
				id := f[len(f)-1]
				var nw []c20Row
				for _, x := range work {
					if x.id != id {
						nw = append(nw, x)
					}
				}
				work = nw
			}
		case "commit":
			if exclusive {
				disk = cp(work)
				if b, _ := os.ReadFile(filepath.Join(dir, fname)); string(b) != render(disk) {
					viol(k, "commit-differs", fmt.Sprintf("after COMMIT the file is %q, A's copy was [%s]", truncateStr(string(b), 200), c20Text(work)))
					return
				}
			}
			work, loaded, exclusive = nil, false, false
			bCommittedWhileLoaded = false
		case "rollback":
			work, loaded, exclusive = nil, false, false
			bCommittedWhileLoaded = false
		}
	}
	w.Count("interleavings_run", 1)
	w.Count("commits_of_B", int64(bN))
	w.Case(core.Digest(strings.Join(orig, "|"), fmt.Sprint(gaps)), readAfter)
}
