package main

import (
	"encoding/json"
	"os"
	"path/filepath"
	"strings"

	"verif/internal/core"
)

// renderFile writes a generated table in one of csvq's file formats.
// Cell texts must be representable in the format (callers choose benign texts
// for LTSV/TSV); nil = NULL.
func renderFile(format string, t *GTable) string {
	switch format {
	case "tsv":
		var sb strings.Builder
		sb.WriteString(strings.Join(t.Cols, "\t") + "\n")
		for _, r := range t.Rows {
			for j, c := range r {
				if j > 0 {
					sb.WriteString("\t")
				}
				if c != nil {
					sb.WriteString(`"` + strings.ReplaceAll(*c, `"`, `""`) + `"`)
				}
			}
			sb.WriteString("\n")
		}
		return sb.String()
	case "ltsv":
		var sb strings.Builder
		for _, r := range t.Rows {
			for j, c := range r {
				if j > 0 {
					sb.WriteString("\t")
				}
				sb.WriteString(t.Cols[j] + ":")
				if c != nil {
					sb.WriteString(*c)
				}
			}
			sb.WriteString("\n")
		}
		return sb.String()
	case "json", "jsonl":
		var rows []string
		for _, r := range t.Rows {
			var fs []string
			for j, c := range r {
				k, _ := json.Marshal(t.Cols[j])
				v := []byte("null")
				if c != nil {
					v, _ = json.Marshal(*c)
				}
				fs = append(fs, string(k)+":"+string(v))
			}
			rows = append(rows, "{"+strings.Join(fs, ",")+"}")
		}
		if format == "jsonl" {
			return strings.Join(rows, "\n") + "\n"
		}
		return "[" + strings.Join(rows, ",\n") + "]\n"
	}
	return t.CSV()
}

func copyDir(src, dst string) {
	_ = os.MkdirAll(dst, 0755)
	ents, _ := os.ReadDir(src)
	for _, e := range ents {
		if e.IsDir() {
			copyDir(filepath.Join(src, e.Name()), filepath.Join(dst, e.Name()))
			continue
		}
		if e.Type()&os.ModeSymlink != 0 {
			if target, err := os.Readlink(filepath.Join(src, e.Name())); err == nil {
				_ = os.Symlink(target, filepath.Join(dst, e.Name()))
			}
			continue
		}
		b, err := os.ReadFile(filepath.Join(src, e.Name()))
		if err == nil {
			_ = os.WriteFile(filepath.Join(dst, e.Name()), b, 0644)
		}
	}
}

func removeControlFiles(dir string) []string {
	var removed []string
	ents, _ := os.ReadDir(dir)
	for _, e := range ents {
		if core.IsControlFile(e.Name()) {
			_ = os.Remove(filepath.Join(dir, e.Name()))
			removed = append(removed, e.Name())
		}
	}
	return removed
}

func csvqArgs(extra ...string) []string {
	return append([]string{"--timezone", "UTC"}, extra...)
}
