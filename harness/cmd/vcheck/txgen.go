package main

import (
	"encoding/json"
	"fmt"
	"sort"
	"strings"

	"verif/internal/core"
)

// ---- procedure generator shared by C01 and C11 ------------------------------
//
// A procedure is a list of top-level "units"; the units that precede a COMMIT
// (explicit or the implicit one at a normal end) start with a dump of every
// table that exists at that moment (PRINT markers + SELECT * in JSONL), so the
// state "the procedure last saw" is observed, not modelled.

type txTable struct {
	Name string // SQL name (file name without extension for files in the repository)
	File string // file name on disk, "" for temporary tables
	Cols []string
}

type txState struct {
	Tables []txTable
	NextID int
}

func (s txState) clone() txState {
	c := txState{NextID: s.NextID}
	for _, t := range s.Tables {
		c.Tables = append(c.Tables, txTable{t.Name, t.File, append([]string{}, t.Cols...)})
	}
	return c
}

type txProc struct {
	Files    map[string]string
	Units    []string // top-level statements (a unit may be a block)
	Initial  []txTable
	ReadOnly bool
}

func (p *txProc) Text() string { return strings.Join(p.Units, "\n") }

func dumpUnit(st txState, tag string) string {
	var sb strings.Builder
	sb.WriteString("PRINT '##DUMP " + tag + "';\n")
	for _, t := range st.Tables {
		sb.WriteString(fmt.Sprintf("PRINT '##T %s';\nSELECT * FROM `%s`;\n", t.Name, t.Name))
	}
	sb.WriteString("PRINT '##END';")
	return sb.String()
}

func genTxProc(r *core.Rng, nstmts int) *txProc {
	p := &txProc{Files: map[string]string{}}
	st := txState{NextID: 1000}
	formats := []string{"csv", "csv", "tsv", "json", "jsonl", "ltsv", "ltsv"}
	nfiles := r.Range(2, 3)
	vals := []string{"alpha", "beta", "gamma", "x", "yy", "7", "42", "3.5"}
	for k := 0; k < nfiles; k++ {
		f := formats[r.Intn(len(formats))]
		if k == 0 {
			f = "csv"
		}
		if k == 1 && r.Bool() {
			f = []string{"json", "jsonl"}[r.Intn(2)]
		}
		n := []int{0, 2, 5, 9, 200}[r.Intn(5)]
		if (f == "ltsv" || f == "json" || f == "jsonl") && n == 0 {
			n = 3 // these formats carry the column names in the records: an empty file has no columns
		}
		t := genTable(r, "t", n, []colProfile{{Kind: "v", Vals: vals}, {Kind: "v", Vals: vals}}, []string{"c1", "c2"})
		name := fmt.Sprintf("f%d", k+1)
		p.Files[name+"."+f] = renderFile(f, t)
		st.Tables = append(st.Tables, txTable{name, name + "." + f, []string{"id", "c1", "c2"}})
	}
	// spelled as csvq itself would not write it (needless quotes, no line break after the last record):
	// any rewrite of this file, even with the same cells, changes its bytes
	p.Files["untouched.csv"] = "id,v\n1,\"keep me\"\n2,\"as, is\""
	p.Initial = st.clone().Tables
	committed := st.clone()
	ntemp := r.Intn(3)
	for k := 0; k < ntemp; k++ {
		name := fmt.Sprintf("tmp%d", k+1)
		if r.Bool() {
			p.Units = append(p.Units, fmt.Sprintf("DECLARE %s VIEW (id, c1);", name), fmt.Sprintf("INSERT INTO %s VALUES (1, 'one'), (2, 'two');", name))
		} else {
			p.Units = append(p.Units, fmt.Sprintf("DECLARE %s VIEW (id, c1) AS SELECT id, c1 FROM f1 WHERE id <= 3;", name))
		}
		st.Tables = append(st.Tables, txTable{name, "", []string{"id", "c1"}})
	}
	if ntemp > 0 {
		p.Units = append(p.Units, dumpUnit(st, "c"), "COMMIT;")
		committed = st.clone()
	}
	created, noCreate := 0, false
	if nstmts > 0 && r.P(40) {
		// options of the session's own output (how query results are printed) are no part of how an EXISTING table file is
		// written (a table created by the session takes them as its attributes, by design: none is created then)
		p.Units = append(p.Units, []string{"SET @@WITHOUT_HEADER TO TRUE;", "SET @@WITHOUT_HEADER TO TRUE;", "SET @@ENCLOSE_ALL TO TRUE;", "SET @@WRITE_DELIMITER TO ';';"}[r.Intn(4)])
		created, noCreate = 2, true
	}
	dml := func(inLoop bool) string {
		t := &st.Tables[r.Intn(len(st.Tables))]
		tn := "`" + t.Name + "`"
		second := t.Cols[1]
		switch r.Intn(11) {
		case 10:
			// every record goes: a format without a header line then has nothing to write (COMMIT must fail or write it, not skip it)
			return fmt.Sprintf("DELETE FROM %s;", tn)
		case 9:
			// names the untouched file as a target but changes no record of it
			return []string{"UPDATE untouched SET v = 'x' WHERE id > 100000;", "DELETE FROM untouched WHERE id < 0;", "UPDATE untouched SET v = 'x' FROM untouched JOIN f1 ON untouched.id = f1.id + 900000;"}[r.Intn(3)]
		case 0:
			st.NextID += 2
			vals := func(id int) string {
				v := []string{fmt.Sprint(id)}
				for range t.Cols[1:] {
					v = append(v, core.SQLStr(fmt.Sprintf("ins%d", id)))
				}
				return "(" + strings.Join(v, ", ") + ")"
			}
			return fmt.Sprintf("INSERT INTO %s VALUES %s, %s;", tn, vals(st.NextID-2), vals(st.NextID-1))
		case 1:
			src := st.Tables[r.Intn(len(st.Tables))]
			return fmt.Sprintf("INSERT INTO %s (id, %s) SELECT id + 5000, %s FROM `%s` WHERE id %% 2 = 1;", tn, second, src.Cols[1], src.Name)
		case 2:
			return fmt.Sprintf("UPDATE %s SET %s = %s || '-u' WHERE id %% 3 = 0;", tn, second, second)
		case 3:
			return fmt.Sprintf("UPDATE %s SET %s = 'all';", tn, second)
		case 4:
			return fmt.Sprintf("DELETE FROM %s WHERE id %% 4 = 1;", tn)
		case 5:
			return fmt.Sprintf("REPLACE INTO %s (id, %s) USING (id) VALUES (1, 'rep1'), (77777, 'rep-new');", tn, second)
		case 6:
			if inLoop || len(t.Cols) > 4 {
				return fmt.Sprintf("DELETE FROM %s WHERE id > 100000;", tn)
			}
			nc := fmt.Sprintf("x%d", len(t.Cols))
			t.Cols = append(t.Cols, nc)
			return fmt.Sprintf("ALTER TABLE %s ADD %s DEFAULT 'd';", tn, nc)
		case 7:
			if inLoop || len(t.Cols) < 3 {
				return fmt.Sprintf("UPDATE %s SET %s = NULL WHERE id = 2;", tn, second)
			}
			last := t.Cols[len(t.Cols)-1]
			if r.Bool() {
				t.Cols = t.Cols[:len(t.Cols)-1]
				return fmt.Sprintf("ALTER TABLE %s DROP %s;", tn, last)
			}
			t.Cols[len(t.Cols)-1] = last + "r"
			return fmt.Sprintf("ALTER TABLE %s RENAME %s TO %sr;", tn, last, last)
		default:
			if inLoop || created >= 2 {
				return fmt.Sprintf("UPDATE %s SET %s = 'z' WHERE id = 1;", tn, second)
			}
			created++
			name := fmt.Sprintf("n%d", created)
			if r.Bool() {
				st.Tables = append(st.Tables, txTable{name, name + ".csv", []string{"id", "b"}})
				return fmt.Sprintf("CREATE TABLE `%s.csv` (id, b);\nINSERT INTO `%s` VALUES (1, 'created');", name, name)
			}
			src := st.Tables[0]
			st.Tables = append(st.Tables, txTable{name, name + ".csv", []string{"id", src.Cols[1]}})
			return fmt.Sprintf("CREATE TABLE `%s.csv` AS SELECT id, %s FROM `%s` WHERE id <= 4;", name, src.Cols[1], src.Name)
		}
	}
	for k := 0; k < nstmts; k++ {
		if r.P(20) {
			// a plain read of a file table in the middle of the transaction (the table is then cached read-only and has to be
			// taken for update by the next statement that changes it)
			ft := st.Tables[r.Intn(len(st.Tables))]
			if ft.File != "" {
				p.Units = append(p.Units, fmt.Sprintf("VAR @rd%d := (SELECT COUNT(*) FROM `%s`);\nDISPOSE @rd%d;", k, ft.Name, k))
			}
		}
		if r.P(25) {
			// statements that run other program text but change nothing: the transaction goes on as if they were not there
			p.Units = append(p.Units, []string{"EXECUTE 'PRINT ''executed'';';", "SOURCE `../noop.sql`;", "EXECUTE 'VAR @e%d := %s; DISPOSE @e%d;' USING 7, 7;", "IF 1 = 1 THEN EXECUTE 'SELECT 1 INTO @nowhere FROM `untouched` WHERE 1 = 0;'; END IF;"}[r.Intn(2)])
		}
		switch r.Intn(12) {
		case 0:
			p.Units = append(p.Units, dumpUnit(st, "c"), "COMMIT;")
			committed = st.clone()
		case 1:
			p.Units = append(p.Units, "ROLLBACK;", dumpUnit(committed, "r"))
			st = committed.clone()
			// tables created since the last commit no longer exist; allow their names to be created again
			created = 0
			for _, t := range st.Tables {
				if strings.HasPrefix(t.Name, "n") {
					created++
				}
			}
			if noCreate {
				created = 2
			}
		case 2:
			p.Units = append(p.Units, "IF 1 = 1 THEN\n  "+dml(false)+"\nELSE\n  DELETE FROM f1;\nEND IF;")
		case 3:
			p.Units = append(p.Units, "VAR @i := 0;\nWHILE @i < 2 DO\n  @i := @i + 1;\n  "+dml(true)+"\nEND WHILE;\nDISPOSE @i;")
		case 4:
			p.Units = append(p.Units, "IF 1 = 1 THEN\n  "+dml(false)+"\n  "+dumpUnit(st, "c")+"\n  COMMIT;\nEND IF;")
			committed = st.clone()
		default:
			p.Units = append(p.Units, dml(false))
		}
	}
	// read a file table, change it, and name it as the target of one more statement before the end
	if nstmts > 0 && r.P(50) {
		ft := st.Tables[0]
		p.Units = append(p.Units, fmt.Sprintf("VAR @rdz := (SELECT COUNT(*) FROM `%s`);\nDISPOSE @rdz;", ft.Name), fmt.Sprintf("UPDATE `%s` SET %s = 'rw1' WHERE id <= 2;", ft.Name, ft.Cols[1]), fmt.Sprintf("DELETE FROM `%s` WHERE id > 100000;", ft.Name))
	}
	// a table created and another one updated shortly before the end: the final COMMIT has a created and an updated file to write
	if nstmts > 0 && created < 2 && r.P(50) {
		created++
		name := fmt.Sprintf("n%d", created)
		st.Tables = append(st.Tables, txTable{name, name + ".csv", []string{"id", "b"}})
		p.Units = append(p.Units, fmt.Sprintf("CREATE TABLE `%s.csv` (id, b);\nINSERT INTO `%s` VALUES (1, 'late'), (2, 'table');", name, name), fmt.Sprintf("UPDATE `%s` SET %s = 'w' WHERE id = 1;", st.Tables[0].Name, st.Tables[0].Cols[1]))
	}
	// a temporary table changed, committed, changed again and rolled back: ROLLBACK returns it to the committed state
	if nstmts > 0 && r.P(50) {
		for _, t := range st.Tables {
			if t.File == "" && len(t.Cols) > 1 {
				p.Units = append(p.Units, fmt.Sprintf("UPDATE `%s` SET %s = 'kept';", t.Name, t.Cols[1]), dumpUnit(st, "c"), "COMMIT;")
				committed = st.clone()
				p.Units = append(p.Units, fmt.Sprintf("UPDATE `%s` SET %s = 'dropped';", t.Name, t.Cols[1]), fmt.Sprintf("DELETE FROM `%s` WHERE id = 1;", t.Name),
					fmt.Sprintf("ALTER TABLE `%s` RENAME %s TO %sz;", t.Name, t.Cols[1], t.Cols[1]), "ROLLBACK;", dumpUnit(committed, "r"))
				st = committed.clone()
				break
			}
		}
	}
	// with an output option set, the CSV table with a header line is among the files of the last COMMITs
	if noCreate {
		ft := st.Tables[0]
		st.NextID++
		v := []string{fmt.Sprint(st.NextID)}
		for range ft.Cols[1:] {
			v = append(v, "'opt'")
		}
		p.Units = append(p.Units, fmt.Sprintf("INSERT INTO `%s` VALUES (%s);", ft.Name, strings.Join(v, ", ")))
	}
	// after a COMMIT, the only change of the last transaction is a REPLACE that gives every existing key its own values in
	// another spelling (upper case, a blank behind them): values that compare equal are still other values to be written
	if nstmts > 0 && r.P(40) {
		ft := st.Tables[0]
		p.Units = append(p.Units, dumpUnit(st, "c"), "COMMIT;")
		committed = st.clone()
		p.Units = append(p.Units, fmt.Sprintf("REPLACE INTO `%s` (id, %s) USING (id) SELECT id, %s FROM `%s`;", ft.Name, ft.Cols[1], []string{"UPPER(%s)", "%s || ' '", "UPPER(%s) || ' '"}[r.Intn(3)], ft.Name))
		p.Units[len(p.Units)-1] = strings.ReplaceAll(p.Units[len(p.Units)-1], "%s)", ft.Cols[1]+")")
		p.Units[len(p.Units)-1] = strings.ReplaceAll(p.Units[len(p.Units)-1], "%s ||", ft.Cols[1]+" ||")
	}
	// a table in a format without a header line loses all its records shortly before the end (about every other
	// procedure that has one): the final COMMIT then has nothing to write for it and must either write that or fail as a whole
	if nstmts > 0 {
		for _, t := range st.Tables {
			if strings.HasSuffix(t.File, ".ltsv") && r.P(60) {
				p.Units = append(p.Units, fmt.Sprintf("DELETE FROM `%s`;", t.Name))
				break
			}
		}
	}
	p.Units = append(p.Units, dumpUnit(st, "c"))
	return p
}

// readOnlyProc builds a procedure that only reads.
func genReadOnlyProc(r *core.Rng) *txProc {
	p := genTxProc(r, 0)
	p.Units = nil
	p.ReadOnly = true
	qs := []string{
		"SELECT * FROM f1;", "SELECT COUNT(*) FROM f2;", "SELECT a.id, b.c1 FROM f1 a LEFT JOIN f2 b ON a.id = b.id;",
		"DECLARE c CURSOR FOR SELECT id FROM f1; OPEN c; VAR @x; FETCH c INTO @x; CLOSE c; DISPOSE CURSOR c; PRINT @x;",
		"SELECT c1, COUNT(*) FROM f2 GROUP BY c1;", "SHOW TABLES;", "SHOW FIELDS FROM f1;", "PRINT 'hello';",
		"SELECT * FROM (SELECT id FROM f1) s WHERE id IN (SELECT id FROM f2);", "SELECT * FROM untouched;",
		"DECLARE tv VIEW (a) AS SELECT id FROM f1; INSERT INTO tv VALUES (9); SELECT COUNT(*) FROM tv;",
		"WITH w AS (SELECT id FROM f1) SELECT COUNT(*) FROM w;", "SELECT * FROM f1 ORDER BY c1 LIMIT 3;",
	}
	used := map[int]bool{}
	for k := r.Range(2, 6); k > 0; k-- {
		q := r.Intn(len(qs))
		if used[q] {
			continue
		}
		used[q] = true
		p.Units = append(p.Units, qs[q])
	}
	return p
}

// ---- parsing of dumps and of on-disk state ------------------------------------

type txDump struct {
	Tag    string
	Tables map[string][][]string // table → rows of normalised cell texts (header as first row)
	Done   bool                  // ##END seen
}

// normCell: JSON value → text; NULL and "" coincide (CSV/TSV/LTSV spell both the same).
func normJSONRow(line string) ([]string, []string, bool) {
	dec := json.NewDecoder(strings.NewReader(line))
	dec.UseNumber()
	tok, err := dec.Token()
	if err != nil || tok != json.Delim('{') {
		return nil, nil, false
	}
	var keys, vals []string
	for dec.More() {
		k, err := dec.Token()
		if err != nil {
			return nil, nil, false
		}
		var v interface{}
		if err := dec.Decode(&v); err != nil {
			return nil, nil, false
		}
		keys = append(keys, fmt.Sprint(k))
		switch x := v.(type) {
		case nil:
			vals = append(vals, "")
		case json.Number:
			vals = append(vals, x.String())
		case string:
			vals = append(vals, x)
		case bool:
			vals = append(vals, fmt.Sprint(x))
		default:
			b, _ := json.Marshal(x)
			vals = append(vals, string(b))
		}
	}
	return keys, vals, true
}

func parseDumps(stdout string) []txDump {
	var dumps []txDump
	var cur *txDump
	table := ""
	for _, l := range strings.Split(stdout, "\n") {
		l = strings.TrimRight(l, "\r")
		switch {
		case strings.HasPrefix(l, "'##DUMP "):
			dumps = append(dumps, txDump{Tag: strings.Trim(l[8:], "'"), Tables: map[string][][]string{}})
			cur = &dumps[len(dumps)-1]
			table = ""
		case strings.HasPrefix(l, "'##T ") && cur != nil:
			table = strings.Trim(l[5:], "'")
			cur.Tables[table] = [][]string{}
		case l == "'##END'" && cur != nil:
			cur.Done = true
			cur = nil
		case strings.HasPrefix(l, "{") && cur != nil && table != "":
			if k, v, ok := normJSONRow(l); ok {
				if len(cur.Tables[table]) == 0 {
					cur.Tables[table] = append(cur.Tables[table], k)
				}
				cur.Tables[table] = append(cur.Tables[table], v)
			}
		}
	}
	return dumps
}

// readDisk loads a table file with a fresh csvq process and returns header+rows as normalised texts.
func readDisk(dir, file string) ([][]string, error) {
	res := core.RunProc(core.ProcOpts{Dir: dir, Args: csvqArgs("-q", "-f", "JSONL", "--wait-timeout", "2", fmt.Sprintf("SELECT * FROM `%s`", file))})
	if res.Code != 0 {
		return nil, fmt.Errorf("reading %s back failed: %s", file, res)
	}
	var rows [][]string
	for _, l := range strings.Split(res.Stdout, "\n") {
		if strings.HasPrefix(l, "{") {
			if k, v, ok := normJSONRow(l); ok {
				if len(rows) == 0 {
					rows = append(rows, k)
				}
				rows = append(rows, v)
			}
		}
	}
	return rows, nil
}

func rowsEqual(a, b [][]string) bool {
	// an empty table has no JSONL rows and therefore no observable header
	if len(a) <= 1 && len(b) <= 1 {
		return true
	}
	if len(a) != len(b) {
		return false
	}
	for i := range a {
		if len(a[i]) != len(b[i]) {
			return false
		}
		for j := range a[i] {
			if a[i][j] != b[i][j] {
				return false
			}
		}
	}
	return true
}

func rowsText(a [][]string, max int) string {
	var sb strings.Builder
	for i, r := range a {
		if i >= max {
			sb.WriteString(fmt.Sprintf("…(%d rows)", len(a)-1))
			break
		}
		sb.WriteString("[" + strings.Join(r, "|") + "] ")
	}
	return sb.String()
}

func sortedKeys(m map[string][][]string) []string {
	k := make([]string, 0, len(m))
	for n := range m {
		k = append(k, n)
	}
	sort.Strings(k)
	return k
}
