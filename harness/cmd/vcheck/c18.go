package main

import (
	"context"
	"fmt"
	"os"
	"path/filepath"
	"reflect"
	"regexp"
	"strconv"
	"strings"
	"sync"
	"time"

	"github.com/mithrandie/csvq/lib/parser"
	"github.com/mithrandie/csvq/lib/query"

	"verif/internal/core"
)

func init() {
	core.Register(&core.Spec{
		ID: "C18", Level: "exploration",
		Rule: "one case = a batch of 500 program texts: random byte strings, token soups from the parser's own keyword table, and seeds mined at run time from the repository (SQL code fences of docs/_posts, Input literals of parser_test.go, testdata/*.sql) and from the C03/C05/C15 generators, mutated by byte-, token- and slice-level operations; each is parsed under ansiQuotes x forPrepared (4 modes). " +
			"Monitors: Parse must return (no panic, no hang); a syntax error must carry a line in [1, lines+1] and a column in [0, length of that line + 2]; for every input that parses, every value expression found in the tree by reflection is printed with String(), re-parsed as 'SELECT <text>', printed again (must be identical), and closed expressions are evaluated in both forms (must give the same value). non-trivial = the input parsed or produced a positioned syntax error; distinct = input digest.",
		Quick: 300, Thorough: 12000, FloorQuick: 50000, FloorThorough: 1500000,
		HangIsViol:  true,
		CaseTimeout: 180 * time.Second,
		Assumptions: []string{"the seeded mutator is deterministic; coverage-guided fuzzing is deliberately not used (its corpus would make runs depend on history)"},
		Setup:       func(w *core.Worker) { core.HermeticProcess(w.Work); c18LoadSeeds() },
		Fn:          c18Case,
	})
}

var (
	c18Seeds    []string
	c18Keywords []string
	c18Once     sync.Once
)

func c18LoadSeeds() {
	c18Once.Do(func() {
		fence := regexp.MustCompile("(?s)```sql\n(.*?)```")
		docs, _ := filepath.Glob("/repo/docs/_posts/*.md")
		for _, f := range docs {
			b, _ := os.ReadFile(f)
			for _, m := range fence.FindAllStringSubmatch(string(b), -1) {
				if len(m[1]) < 1500 {
					c18Seeds = append(c18Seeds, m[1])
				}
			}
		}
		if b, err := os.ReadFile("/repo/lib/parser/parser_test.go"); err == nil {
			re := regexp.MustCompile(`(?m)^\s*Input:\s+("(?:[^"\\]|\\.)*"|` + "`[^`]*`" + `)`)
			for _, m := range re.FindAllStringSubmatch(string(b), -1) {
				if s, err := strconv.Unquote(m[1]); err == nil && len(s) < 1500 {
					c18Seeds = append(c18Seeds, s)
				}
			}
		}
		sqls, _ := filepath.Glob("/repo/testdata/*.sql")
		for _, f := range sqls {
			if b, err := os.ReadFile(f); err == nil {
				c18Seeds = append(c18Seeds, string(b))
			}
		}
		for t := parser.TokenFrom; t <= parser.TokenTo; t++ {
			if l := parser.TokenLiteral(t); l != "" {
				c18Keywords = append(c18Keywords, l)
			}
		}
		c18Keywords = append(c18Keywords, "(", ")", ",", ";", "'", "\"", "`", "@", "@@", "@%", "@#", "::", ":=", "?", ":a", "*", "/", "%", "+", "-", "||", "=", "==", "<>", "!=", "<=", ">=", "!", ".", "1", "1.5", "1e3", "'s'", "`i`", "--", "/*", "*/", "\n", "\\")
	})
}

// c18LiteralSeed: string literals and quoted identifiers over a hostile alphabet (backslashes, quotes, control characters)
func c18LiteralSeed(r *core.Rng) string {
	// (white space of every kind, also in runs: a printed literal keeps each of its blanks)
	alpha := []string{"\\\\", "\\\\", "a", "b", "t", "n", "0", " ", "\\'", "''", "\"", "`", "\\t", "\\n", "%", "_", "é", ":", "C:", "dir", "  ", "   ", "\u3000", "\u00a0", " \u3000", "\t", "\n"}
	lit := func() string {
		var sb strings.Builder
		for k := r.Range(0, 6); k > 0; k-- {
			sb.WriteString(alpha[r.Intn(len(alpha))])
		}
		return "'" + strings.ReplaceAll(sb.String(), "`", "x") + "'"
	}
	ident := func() string {
		var sb strings.Builder
		for k := r.Range(1, 5); k > 0; k-- {
			c := alpha[r.Intn(len(alpha))]
			if c == "`" || c == "''" || c == "\\'" {
				c = "q"
			}
			sb.WriteString(c)
		}
		return "`" + sb.String() + "`"
	}
	switch r.Intn(9) {
	case 8:
		// literals inside composite expressions without a field reference (they are evaluated both ways)
		return "SELECT " + lit() + " = " + lit() + ", LEN(" + lit() + ") + 0, " + lit() + " < " + lit() + ", CASE WHEN " + lit() + " = " + lit() + " THEN " + lit() + " ELSE " + lit() + " END, " + lit() + " IN (" + lit() + ", " + lit() + "), " + lit() + " BETWEEN " + lit() + " AND " + lit() + ", NOT " + lit() + " <> " + lit()
	case 7:
		// quoted names behind the variable sigils (only @% takes one)
		sig := []string{"@", "@@", "@#", "@%"}[r.Intn(4)]
		nm := []string{"`a b`", "`a - 1`", "`HOME`", "`x`", "`1`", "``", "`a``b`", "`né`"}[r.Intn(8)]
		return "SELECT " + sig + nm + ", (" + sig + nm + ") + 1, " + lit()
	case 6:
		// function names that are quoted identifiers (user-defined functions may be called anything)
		fns := []string{"`a^b`", "`v[1]`", "`sq]`", "`back\\slash`", "`my f`", "`my-f`", "`2f`", "`select`", "`né`", "`a.b`", "`x_1`", "`UPPER`", ident()}
		f := fns[r.Intn(len(fns))]
		return "SELECT " + f + "(" + lit() + "), " + f + "(1, c1) + 1, " + f + "() OVER (), " + f + "(DISTINCT c1) FROM t"
	case 5:
		// column references qualified by a table name that needs its quotes
		qs := []string{"`my-t`", "`my t`", "`2019`", "`order`", "`a.b`", "`select`", "`t`", "`né`", "`x y`.`z w`", ident()}
		q := qs[r.Intn(len(qs))]
		return "SELECT " + q + ".c1, " + q + "." + ident() + " + 1, COUNT(" + q + ".c2) FROM " + q + " WHERE " + q + ".c1 = " + lit() + " ORDER BY " + q + ".c1"
	case 4:
		// chains of unary signs and NOTs
		ops := []string{"-", "+", "- -", "-+", "+ -", "!", "NOT ", "! ", "! ! ", "NOT ! "}
		e := []string{"1", "0.25", "(-3)", "@v", "1e2", "c1"}[r.Intn(6)]
		for k := r.Range(1, 3); k > 0; k-- {
			e = ops[r.Intn(len(ops))] + e
		}
		return "SELECT " + e + " * 2, 3 - " + e
	case 0:
		return "SELECT " + lit() + " || " + lit()
	case 1:
		return "SELECT " + lit() + " AS " + ident()
	case 2:
		return "SELECT " + ident() + " + 1 FROM t WHERE " + ident() + " = " + lit()
	}
	return "SELECT UPPER(" + lit() + "), " + lit() + " LIKE " + lit()
}

// c18SubquerySeed: a sub-query used as a value (its text is derived from the tree for the column label), assembled
// from every clause form of the SELECT grammar.
func c18SubquerySeed(r *core.Rng) string {
	pick := func(xs ...string) string { return xs[r.Intn(len(xs))] }
	if r.P(25) {
		// analytic functions with a windowing clause, every frame form (offsets from zero upwards); the values of all rows are
		// gathered into one, so that the printed sub-query is compared over the whole column
		pos := func(lo bool) string {
			if lo {
				return pick("UNBOUNDED PRECEDING", "0 PRECEDING", "1 PRECEDING", "2 PRECEDING", "CURRENT ROW", "0 FOLLOWING", "1 FOLLOWING")
			}
			return pick("UNBOUNDED FOLLOWING", "0 FOLLOWING", "1 FOLLOWING", "2 FOLLOWING", "CURRENT ROW", "0 PRECEDING", "1 PRECEDING")
		}
		frame := "ROWS " + pick("UNBOUNDED PRECEDING", "0 PRECEDING", "1 PRECEDING", "3 PRECEDING", "CURRENT ROW")
		if r.P(70) {
			frame = "ROWS BETWEEN " + pos(true) + " AND " + pos(false)
		}
		fn := pick("SUM(id)", "COUNT(*)", "MAX(id)", "LISTAGG(c1, '/')", "FIRST_VALUE(id)", "LAST_VALUE(c1)", "NTH_VALUE(id, 2)", "JSON_AGG(id)", "AVG(id)")
		over := pick("", "PARTITION BY c1 ") + "ORDER BY " + pick("id", "id DESC", "c1 NULLS LAST, id") + " " + frame
		return "SELECT (SELECT LISTAGG(x, ';') FROM (SELECT " + fn + " OVER (" + over + ") AS x FROM t1) s)" + pick("", " AS y", ", 1")
	}
	join := func() string {
		switch r.Intn(9) {
		case 0:
			return "t1 " + pick("", "INNER ", "LEFT ", "RIGHT ", "FULL ", "LEFT OUTER ", "RIGHT OUTER ", "FULL OUTER ") + "JOIN t2 ON t1.id = t2.id"
		case 1:
			return "t1 NATURAL " + pick("", "INNER ", "LEFT ", "RIGHT ", "FULL ", "LEFT OUTER ", "RIGHT OUTER ", "FULL OUTER ") + "JOIN t2"
		case 2:
			return "t1 " + pick("", "INNER ", "LEFT ", "RIGHT ", "FULL OUTER ") + "JOIN t2 USING (id" + pick("", ", c1") + ")"
		case 3:
			return "t1 CROSS JOIN t2" + pick("", " CROSS JOIN t1 x")
		case 4:
			return "t1, t2" + pick("", ", LATERAL (SELECT * FROM t2 y WHERE y.id = t1.id) z")
		case 5:
			return "t1 " + pick("LEFT ", "INNER ", "LEFT OUTER ", "") + "JOIN LATERAL (SELECT c1 FROM t2 WHERE t2.id = t1.id) z ON " + pick("TRUE", "1 = 1")
		case 6:
			return "(SELECT id FROM t1) a " + pick("LEFT ", "") + "JOIN (t2 b " + pick("NATURAL ", "") + "JOIN t1 c" + pick(" ON b.id = c.id", "") + ") ON a.id = b.id"
		case 7:
			return pick("CSV(',', `t1.csv`)", "FIXED('spaces', `t.txt`)", "JSON('{}', `t.json`)", "LTSV(`t.ltsv`, 'UTF8')", "`t1.csv`", "STDIN", "DUAL") + pick("", " x", " AS x")
		}
		return "t1" + pick("", " a", " AS a")
	}
	sel := pick("COUNT(*)", "DISTINCT c1", "MAX(t1.id)", "c1", "LISTAGG(c1, ',') WITHIN GROUP (ORDER BY c1 DESC NULLS LAST)", "id", "RANK() OVER (PARTITION BY c1 ORDER BY id DESC NULLS FIRST)", "SUM(id) OVER (ORDER BY id ROWS BETWEEN 1 PRECEDING AND UNBOUNDED FOLLOWING)", "*")
	gather := r.P(45)
	if gather {
		// the whole column of the query is gathered into one value, so that a clause lost in print (ties, an offset, a sort
		// direction, a set operator) shows when the printed sub-query is evaluated
		sel = pick("t1.id AS x", "t1.c1 AS x", "COUNT(*) AS x", "MAX(t1.id) AS x", "t1.id + 1 AS x", "DISTINCT t1.c1 AS x")
	}
	q := "SELECT " + sel + " FROM " + join()
	if r.P(40) {
		q += " WHERE " + pick("id > 1", "c1 IS NOT NULL", "id IN (SELECT id FROM t2)", "EXISTS (SELECT 1 FROM t2)", "id BETWEEN 1 AND 2", "c1 LIKE 'a%'", "NOT id = ANY (SELECT id FROM t2)")
	}
	if r.P(30) {
		q += " GROUP BY " + pick("c1", "c1, id") + pick("", " HAVING COUNT(*) > 1")
	}
	ordered := r.P(40)
	if gather && r.P(50) {
		// ties at the cut: a sort key that several rows share, a row count with WITH TIES written without a unit / with one
		q += " ORDER BY " + pick("c1", "c1 DESC", "t1.c1 NULLS LAST", "1") + " " + pick("LIMIT 1 WITH TIES", "LIMIT 2 WITH TIES", "LIMIT 1 ROW WITH TIES", "LIMIT 3 ROWS WITH TIES", "LIMIT 30 PERCENT WITH TIES", "LIMIT 1 WITH TIES OFFSET 1", "FETCH FIRST 1 ROW WITH TIES", "OFFSET 1 ROWS FETCH NEXT 1 ROW WITH TIES", "LIMIT 2", "LIMIT 1 ROW ONLY")
		return "SELECT (SELECT LISTAGG(x, ';') FROM (" + q + ") s)" + pick("", " AS y", ", 1")
	}
	if ordered {
		q += " ORDER BY " + pick("id", "id DESC", "id ASC NULLS LAST", "c1 DESC NULLS FIRST, id", "1", "c1", "c1 DESC", "1 DESC", "id DESC NULLS FIRST", "c1 ASC NULLS LAST, id DESC NULLS FIRST", "id NULLS LAST")
	}
	if r.P(40) {
		q += " " + pick("LIMIT 1", "LIMIT 50 PERCENT", "LIMIT 1 WITH TIES", "LIMIT 2 WITH TIES", "LIMIT 2 ROWS WITH TIES", "LIMIT 2 ROWS ONLY", "LIMIT 10 PERCENT WITH TIES", "LIMIT 1 OFFSET 1", "LIMIT 1 WITH TIES OFFSET 1", "OFFSET 1", "OFFSET 2 ROWS", "FETCH FIRST 1 ROW ONLY", "OFFSET 1 ROW FETCH NEXT 2 ROWS WITH TIES", "FETCH FIRST 10 PERCENT ROWS ONLY")
	}
	if r.P(20) {
		q = q + " " + pick("UNION", "UNION ALL", "EXCEPT", "EXCEPT ALL", "INTERSECT", "INTERSECT ALL") + " SELECT " + pick("1", "id FROM t2", "c1 FROM t1 NATURAL LEFT JOIN t2")
	}
	if gather {
		return "SELECT (SELECT LISTAGG(x, ';') FROM (" + q + ") s)" + pick("", " AS y", ", 1")
	}
	if r.P(15) {
		q = "WITH " + pick("", "RECURSIVE ") + "w (n) AS (SELECT 1" + pick("", " UNION ALL SELECT n + 1 FROM w WHERE n < 3") + ") " + q
	}
	return "SELECT (" + q + ")" + pick("", " AS x", ", 1", " + 1", " IS NULL") + pick("", " FROM t1")
}

func c18GenSeed(r *core.Rng) string {
	if r.P(12) {
		return c18LiteralSeed(r)
	}
	if r.P(8) {
		return c18SubquerySeed(r)
	}
	if r.P(3) {
		// a bare character whose code point equals one of the generated parser's token numbers, where a value,
		// a clause or a statement may start
		pua := string(rune(0xE000 + r.Intn(0x130)))
		tails := []string{"", " = 1", " FROM t", "(1)", " 1", "::x", " AS a", ", 2"}
		heads := []string{"SELECT ", "SELECT 1 WHERE ", "", "SELECT 1 FROM t ORDER BY ", "PREPARE p FROM 'SELECT 1'; EXECUTE p USING ", "VAR @a := "}
		return heads[r.Intn(len(heads))] + pua + tails[r.Intn(len(tails))]
	}
	switch r.Intn(8) {
	case 0:
		return genQueryC03(r).SQL()
	case 1:
		g := &pGen{r: r, features: map[string]bool{}, globals: []string{"@g1"}}
		return renderStmts(g.block([]string{"@g1"}, map[string]bool{}, 0, false, false, r.Range(3, 8)), "")
	case 2:
		return genTxProc(r, r.Range(2, 5)).Text()
	case 3:
		e, _, _ := c14Expr(r, r.Intn(400))
		return "SELECT " + e + ";"
	}
	if len(c18Seeds) == 0 {
		return "SELECT 1"
	}
	return c18Seeds[r.Intn(len(c18Seeds))]
}

// c18Layout spreads a statement over lines and puts comments between its tokens (never inside a quoted text). It returns the
// text and the same text with every comment character other than CR / LF replaced by a blank.
func c18Layout(r *core.Rng, src string) (laid, blank string) {
	var a, b strings.Builder
	quote := rune(0)
	words := []string{"note", "x", "日本語", "a 'quoted' word", "SELECT", "-- not a line comment here", "*", "é", "t\tab"}
	brk := func() string { return []string{"\n", "\r\n", "\r", "\n\n", "\r\n\r\n"}[r.Intn(5)] }
	emit := func(c string, isComment bool) {
		a.WriteString(c)
		if !isComment {
			b.WriteString(c)
			return
		}
		for _, ch := range c {
			if ch == '\r' || ch == '\n' {
				b.WriteRune(ch)
			} else {
				b.WriteByte(' ')
			}
		}
	}
	rs := []rune(src)
	for i := 0; i < len(rs); i++ {
		ch := rs[i]
		if quote != 0 {
			emit(string(ch), false)
			if ch == '\\' && i+1 < len(rs) {
				i++
				emit(string(rs[i]), false)
			} else if ch == quote {
				quote = 0
			}
			continue
		}
		if ch == '\'' || ch == '"' || ch == '`' {
			quote = ch
			emit(string(ch), false)
			continue
		}
		// comments the statement brings along are copied as they are
		if ch == '/' && i+1 < len(rs) && rs[i+1] == '*' {
			j := i + 2
			for j+1 < len(rs) && !(rs[j] == '*' && rs[j+1] == '/') {
				j++
			}
			if j+1 < len(rs) {
				j += 2
			} else {
				j = len(rs)
			}
			emit(string(rs[i:j]), false)
			i = j - 1
			continue
		}
		if ch == '-' && i+1 < len(rs) && rs[i+1] == '-' {
			j := i
			for j < len(rs) && rs[j] != '\n' && rs[j] != '\r' {
				j++
			}
			emit(string(rs[i:j]), false)
			i = j - 1
			continue
		}
		if ch == ' ' && r.P(35) {
			switch r.Intn(5) {
			case 0:
				emit(brk(), false)
			case 1:
				emit(" ", false)
				emit("/* "+words[r.Intn(len(words))]+brk()+words[r.Intn(len(words))]+" */", true)
				emit(" ", false)
			case 2:
				emit(" ", false)
				emit("/*"+brk()+words[r.Intn(len(words))]+brk()+brk()+"*/", true)
				emit(brk(), false)
			case 3:
				emit(" ", false)
				emit("-- "+words[r.Intn(len(words))], true)
				emit(brk(), false)
			default:
				emit(" ", false)
				emit("/* "+words[r.Intn(len(words))]+" */", true)
				emit(" ", false)
			}
			continue
		}
		emit(string(ch), false)
	}
	return a.String(), b.String()
}

func c18Mutate(r *core.Rng, s string) string {
	b := []byte(s)
	for n := r.Range(1, 4); n > 0; n-- {
		switch r.Intn(9) {
		case 0: // flip a byte
			if len(b) > 0 {
				b[r.Intn(len(b))] = byte(r.Intn(256))
			}
		case 1: // delete a slice
			if len(b) > 1 {
				i := r.Intn(len(b))
				j := i + r.Intn(minInt(len(b)-i, 12))
				b = append(b[:i], b[j:]...)
			}
		case 2: // duplicate a slice
			if len(b) > 1 {
				i := r.Intn(len(b))
				j := i + r.Intn(minInt(len(b)-i, 20))
				b = append(b[:j], append(append([]byte{}, b[i:j]...), b[j:]...)...)
			}
		case 3: // insert a keyword / symbol
			i := r.Intn(len(b) + 1)
			k := " " + c18Keywords[r.Intn(len(c18Keywords))] + " "
			b = append(b[:i], append([]byte(k), b[i:]...)...)
		case 4: // truncate
			if len(b) > 0 {
				b = b[:r.Intn(len(b))]
			}
		case 5: // token-level swap
			f := strings.Fields(string(b))
			if len(f) > 2 {
				i, j := r.Intn(len(f)), r.Intn(len(f))
				f[i], f[j] = f[j], f[i]
				b = []byte(strings.Join(f, " "))
			}
		case 6: // insert special runes
			sp := []string{"\x00", "\ufeff", "\u3000", "🙂", "\xff\xfe", "\\'", "''", "\"\"", "``", "\r\n", "\t"}
			ins := sp[r.Intn(len(sp))]
			if r.P(40) {
				// code points in the range a generated parser uses for its token numbers (the private-use area from U+E000),
				// plus a few neighbours of other planes: a character that reaches the grammar as if it were a token
				ins = string(rune([]int{0xE000, 0xE002, 0xE100, 0xF000, 0x10FFFF, 0xD7FF, 0x80, 0x100}[r.Intn(8)] + r.Intn(0x130)))
				if r.P(50) {
					ins = " " + ins + " "
				}
			}
			i := r.Intn(len(b) + 1)
			b = append(b[:i], append([]byte(ins), b[i:]...)...)
		case 7: // splice with another seed
			o := []byte(c18GenSeed(r))
			if len(o) > 0 && len(b) > 0 {
				b = append(b[:r.Intn(len(b))], o[r.Intn(len(o)):]...)
			}
		case 8: // deep nesting
			d := r.Range(5, 60)
			b = []byte("SELECT " + strings.Repeat("(", d) + "1" + strings.Repeat(")", d) + " " + string(b))
		}
	}
	if len(b) > 4000 {
		b = b[:4000]
	}
	return string(b)
}

var c18ValueKinds = map[string]bool{
	"PrimitiveType": true, "FieldReference": true, "Arithmetic": true, "UnaryArithmetic": true, "Concat": true, "Comparison": true, "Is": true, "Between": true, "In": true, "Like": true,
	"Logic": true, "UnaryLogic": true, "Function": true, "CaseExpr": true, "Parentheses": true, "Variable": true, "AggregateFunction": true, "ListFunction": true, "AnalyticFunction": true,
	"Subquery": true, "Exists": true, "Any": true, "All": true, "EnvironmentVariable": true, "RuntimeInformation": true, "Constant": true, "Flag": true, "CursorStatus": true, "VariableSubstitution": true,
	"ColumnNumber": true,
}

var c18OpenKinds = map[string]bool{"FieldReference": true, "Variable": true, "AggregateFunction": true, "ListFunction": true, "AnalyticFunction": true, "Subquery": true, "Exists": true, "EnvironmentVariable": true,
	"RuntimeInformation": true, "Flag": true, "CursorStatus": true, "VariableSubstitution": true, "ColumnNumber": true, "Placeholder": true, "AllColumns": true, "Function": true, "JsonQuery": true, "Identifier": true}

// collectExprs walks a syntax tree by reflection and returns the value expressions in it.
func collectExprs(v reflect.Value, out *[]parser.QueryExpression, depth int) {
	if depth > 40 || !v.IsValid() {
		return
	}
	switch v.Kind() {
	case reflect.Interface, reflect.Ptr:
		if !v.IsNil() {
			collectExprs(v.Elem(), out, depth+1)
		}
	case reflect.Struct:
		if v.CanInterface() {
			if qe, ok := v.Interface().(parser.QueryExpression); ok && c18ValueKinds[v.Type().Name()] && !c18TableParens(v) {
				*out = append(*out, qe)
			}
		}
		for i := 0; i < v.NumField(); i++ {
			if v.Type().Field(i).PkgPath == "" { // exported only: unexported ones cannot be interfaced
				collectExprs(v.Field(i), out, depth+1)
			}
		}
	case reflect.Slice:
		for i := 0; i < v.Len() && i < 50; i++ {
			collectExprs(v.Index(i), out, depth+1)
		}
	}
}

// c18TableParens: parentheses that group joined tables in a FROM clause are not value expressions.
func c18TableParens(v reflect.Value) bool {
	if v.Type().Name() != "Parentheses" {
		return false
	}
	f := v.FieldByName("Expr")
	if !f.IsValid() || f.IsNil() {
		return false
	}
	n := f.Elem().Type().Name()
	return n == "Table" || n == "Join"
}

func isClosedExpr(v reflect.Value, depth int) bool {
	if depth > 40 || !v.IsValid() {
		return true
	}
	switch v.Kind() {
	case reflect.Interface, reflect.Ptr:
		if v.IsNil() {
			return true
		}
		return isClosedExpr(v.Elem(), depth+1)
	case reflect.Struct:
		if c18OpenKinds[v.Type().Name()] {
			return false
		}
		for i := 0; i < v.NumField(); i++ {
			if v.Type().Field(i).PkgPath == "" && !isClosedExpr(v.Field(i), depth+1) {
				return false
			}
		}
	case reflect.Slice:
		for i := 0; i < v.Len(); i++ {
			if !isClosedExpr(v.Index(i), depth+1) {
				return false
			}
		}
	}
	return true
}

type c18Replay struct {
	Input       string `json:"input"`
	AnsiQuotes  bool   `json:"ansi_quotes"`
	ForPrepared bool   `json:"for_prepared"`
	Printed     string `json:"printed,omitempty"`
	Detail      string `json:"detail"`
}

func c18Case(w *core.Worker, i int) {
	r := w.Rng(i, "")
	cur := filepath.Join(w.Work, "current-input.txt")
	core.WriteFiles(w.Work, map[string]string{
		"t1.csv": "id,c1\n1,b\n2,\n3,a\n4,b\n5,\n6,c\n,a\n",
		"t2.csv": "id,c1\n2,x\n3,\n3,a\n7,b\n,\n",
	})
	subN := 0
	sess, _ := core.NewSess(core.SessOpts{Dir: w.Work, Quiet: true})
	defer sess.Close()
	parsedN, errN, exprN, evalN := 0, 0, 0, 0
	for k := 0; k < 500; k++ {
		var in string
		switch r.Intn(10) {
		case 0:
			b := make([]byte, r.Range(0, 60))
			for j := range b {
				b[j] = byte(r.Intn(256))
			}
			in = string(b)
		case 1:
			var t []string
			for j := r.Range(1, 25); j > 0; j-- {
				t = append(t, c18Keywords[r.Intn(len(c18Keywords))])
			}
			in = strings.Join(t, " ")
		case 2, 3:
			in = c18GenSeed(r)
		case 4:
			// a statement laid out over several lines with comments, and a syntax error planted behind them: the reported
			// position lies inside the input and is the one reported for the same text with every comment blanked out
			// (comments are white space; blanking keeps their line breaks)
			laid, blank := c18Layout(r, c18GenSeed(r))
			tail := []string{" FROM FROM", " )", " SELECT SELECT ,", " 'unterminated", " ;; WHERE", " @", " 1 +"}[r.Intn(7)]
			lb := []string{"\n", "\r\n", "\r", " "}[r.Intn(4)]
			in = laid + lb + tail
			in2 := blank + lb + tail
			_, e1, p1 := c18Parse(in, false, false)
			_, e2, p2 := c18Parse(in2, false, false)
			if p1 == "" && p2 == "" {
				s1, ok1 := e1.(*parser.SyntaxError)
				s2, ok2 := e2.(*parser.SyntaxError)
				switch {
				case (e1 == nil) != (e2 == nil):
					w.Violation("comment-changes-parse", fmt.Sprintf("the text parses (%v) with its comments and (%v) with the comments blanked out\ninput: %q", e1, e2, truncateStr(in, 400)), c18Replay{Input: in, Detail: "comments blanked: " + in2})
				case ok1 && ok2 && (s1.Line != s2.Line || s1.Char != s2.Char):
					w.Violation("error-position:comment", fmt.Sprintf("syntax error reported at line %d column %d; with the comments blanked out (same line breaks) at line %d column %d: %s\ninput: %q", s1.Line, s1.Char, s2.Line, s2.Char, s1.Message, truncateStr(in, 400)), c18Replay{Input: in, Detail: "comments blanked: " + in2})
				}
				w.Count("layouts_with_comments_compared", 1)
			}
		default:
			in = c18Mutate(r, c18GenSeed(r))
		}
		ansi, prep := r.Bool(), r.P(25)
		_ = os.WriteFile(cur, []byte(fmt.Sprintf("ansi=%v prepared=%v\n%s", ansi, prep, in)), 0644)
		viol := func(sig, what, printed string) {
			w.Violation(sig, fmt.Sprintf("%s\ninput: %q", what, truncateStr(in, 400)), c18Replay{Input: in, AnsiQuotes: ansi, ForPrepared: prep, Printed: printed, Detail: what})
		}
		stmts, perr, pan := c18Parse(in, prep, ansi)
		if pan != "" {
			viol("parser-panic", "parser.Parse panicked: "+pan, "")
			continue
		}
		if perr != nil {
			errN++
			se, ok := perr.(*parser.SyntaxError)
			if !ok {
				viol("error-type", fmt.Sprintf("Parse returned a %T instead of a syntax error", perr), "")
				continue
			}
			lines := strings.Split(strings.ReplaceAll(strings.ReplaceAll(in, "\r\n", "\n"), "\r", "\n"), "\n") // csvq counts CRLF, LF and a lone CR as line breaks
			if se.Line < 1 || se.Line > len(lines)+1 {
				viol("error-position:line", fmt.Sprintf("syntax error at line %d but the input has %d lines: %s", se.Line, len(lines), se.Message), "")
			} else if se.Line <= len(lines) {
				if n := len([]rune(lines[se.Line-1])); se.Char < 0 || se.Char > n+2 {
					viol("error-position:column", fmt.Sprintf("syntax error at line %d column %d but that line has %d characters: %s", se.Line, se.Char, n, se.Message), "")
				}
			}
			w.Case(core.Digest(in, fmt.Sprint(ansi, prep)), true)
			continue
		}
		parsedN++
		w.Case(core.Digest(in, fmt.Sprint(ansi, prep)), true)
		if prep {
			continue // placeholders print as '?', which only parses in prepared mode: round trip checked in the other modes
		}
		// print / re-parse round trip of every value expression
		var exprs []parser.QueryExpression
		collectExprs(reflect.ValueOf(stmts), &exprs, 0)
		if len(exprs) > 40 {
			exprs = exprs[:40]
		}
		for _, e := range exprs {
			s1, pn := c18String(e)
			if pn != "" {
				viol("string-panic", "String() panicked: "+pn, "")
				continue
			}
			exprN++
			st2, err2, pan2 := c18Parse("SELECT "+s1, false, ansi)
			if pan2 != "" {
				viol("parser-panic", "parsing printed text panicked: "+pan2, s1)
				continue
			}
			if err2 != nil {
				sub := ""
				if strings.Contains(s1, " IGNORE NULLS)") || strings.Contains(s1, "(IGNORE NULLS)") { // the latter: no argument before it
					sub = ":ignore-nulls-printed-inside-the-argument-list"
				}
				viol("reparse-fails:"+reflect.TypeOf(e).Name()+sub, fmt.Sprintf("the text csvq prints for a %s does not parse: %q -> %v", reflect.TypeOf(e).Name(), s1, err2), s1)
				continue
			}
			e2 := c18FirstField(st2)
			if e2 == nil {
				viol("reparse-shape", fmt.Sprintf("printed text %q did not re-parse to a single select field", s1), s1)
				continue
			}
			s2, _ := c18String(e2)
			if s2 != s1 {
				viol("reprint-differs:"+reflect.TypeOf(e).Name(), fmt.Sprintf("printed %q, re-parsed and printed again %q", s1, s2), s1)
				continue
			}
			_, isSub := e.(parser.Subquery)
			if isSub && len(s1) < 600 {
				// a sub-query used as a value carries its own tables: evaluated both ways over t1 / t2 (NULLs, duplicates)
				v1, ok1 := c18Eval(sess, e)
				v2, ok2 := c18Eval(sess, e2)
				if ok1 && ok2 {
					subN++
					if v1 != v2 {
						viol("reparse-value-differs:Subquery", fmt.Sprintf("the sub-query evaluates to %s, its printed form %q to %s", v1, s1, v2), s1)
					}
				}
				_ = sess.Exec("ROLLBACK;")
			}
			if isClosedExpr(reflect.ValueOf(e), 0) && len(s1) < 300 {
				v1, ok1 := c18Eval(sess, e)
				v2, ok2 := c18Eval(sess, e2)
				if ok1 && ok2 {
					evalN++
					if v1 != v2 {
						viol("reparse-value-differs:"+reflect.TypeOf(e).Name(), fmt.Sprintf("the expression evaluates to %s, its printed form %q to %s", v1, s1, v2), s1)
					}
				}
			}
		}
	}
	w.Count("inputs_parsed", int64(parsedN))
	w.Count("inputs_rejected_with_position", int64(errN))
	w.Count("expressions_round_tripped", int64(exprN))
	w.Count("closed_expressions_evaluated_both_ways", int64(evalN))
	w.Count("subqueries_evaluated_both_ways", int64(subN))
	if i < 3 {
		w.Sample(map[string]interface{}{"example_seed": truncateStr(c18GenSeed(r), 200), "example_mutant": truncateStr(c18Mutate(r, c18GenSeed(r)), 200)})
	}
}

func c18Parse(in string, prep, ansi bool) (st []parser.Statement, err error, pan string) {
	defer func() {
		if r := recover(); r != nil {
			pan = fmt.Sprint(r)
		}
	}()
	st, _, err = parser.Parse(in, "", prep, ansi)
	return
}

func c18String(e parser.QueryExpression) (s string, pan string) {
	defer func() {
		if r := recover(); r != nil {
			pan = fmt.Sprint(r)
		}
	}()
	return e.String(), ""
}

func c18FirstField(st []parser.Statement) parser.QueryExpression {
	if len(st) != 1 {
		return nil
	}
	q, ok := st[0].(parser.SelectQuery)
	if !ok {
		return nil
	}
	ent, ok := q.SelectEntity.(parser.SelectEntity)
	if !ok {
		return nil
	}
	sc, ok := ent.SelectClause.(parser.SelectClause)
	if !ok || len(sc.Fields) != 1 {
		return nil
	}
	f, ok := sc.Fields[0].(parser.Field)
	if !ok {
		return nil
	}
	return f.Object
}

func c18Eval(s *core.Sess, e parser.QueryExpression) (res string, ok bool) {
	defer func() {
		if r := recover(); r != nil {
			ok = false
		}
	}()
	ctx, cancel := context.WithTimeout(s.Ctx, 5*time.Second)
	defer cancel()
	p, err := query.Evaluate(ctx, s.Proc.ReferenceScope, e)
	if err != nil || p == nil {
		return "", false
	}
	return core.FromPrimary(p).String(), true
}
