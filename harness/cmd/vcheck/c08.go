package main

import (
	"bytes"
	"context"
	"fmt"
	"os"
	"path/filepath"
	"strconv"
	"strings"
	"sync/atomic"

	"github.com/mithrandie/csvq/lib/verifhook"

	"verif/internal/core"
)

func init() {
	core.Register(&core.Spec{
		ID: "C08", Level: "fault_enumeration",
		Rule: "the case list is the product statement kind {INSERT values, INSERT select, UPDATE, multi-table UPDATE, DELETE, REPLACE values, REPLACE select, CREATE TABLE AS, ALTER ADD DEFAULT, UPDATE with a user function} x failure kind {integer division by zero in row k, wrong row length in the k-th VALUES row, sub-query returning two rows from row k on, user function TRIGGERing ERROR at its k-th call, ambiguous joined update, unknown field, context cancellation at the k-th worker-hook hit, context cancellation at the N-th poll of the context (first, second, middle and the last polls of the statement)} x k in {first, second, middle, last-1, last} x table state {never loaded, loaded by SELECT, loaded by SELECT under import attributes of its own, loaded FOR UPDATE, already dirty, temporary table} x size {5, 200 rows with --cpu 4}, walked completely (invalid combinations are skipped). " +
			"Each case runs in one real in-process transaction: snapshot (typed SELECT * of every table + directory listing), the failing statement (must return an error, else the case is trivial), SELECT * again == snapshot, no new file or control file, then COMMIT and reload from disk in a fresh session == snapshot (bytes identical when nothing had been changed before). non-trivial = the statement really failed; distinct = the combination.",
		Quick: 4800, Thorough: 144000, FloorQuick: 500, FloorThorough: 15000, Exhaustive: true,
		Assumptions: []string{"cancellation is injected through the worker hook (cancel the statement's context at the k-th hit) and through a context that cancels itself at its N-th poll; other failures are produced by the data", "thorough = the same product at thirty seeds (table contents differ)"},
		Setup:       func(w *core.Worker) { core.HermeticProcess(w.Work) },
		Fn:          c08Case,
	})
}

var (
	c08Stmts  = []string{"insert-values", "insert-select", "update", "update-multi", "delete", "replace-values", "replace-select", "create-as", "alter-add", "update-udf"}
	c08Fails  = []string{"divzero", "rowlen", "subquery2", "udf-trigger", "ambiguous", "unknown-field", "cancel", "cancel-poll"}
	c08Ks     = []string{"first", "second", "middle", "last-1", "last"}
	c08States = []string{"unloaded", "selected", "for-update", "dirty", "temp", "selected-noheader"}
	c08Sizes  = []int{5, 200}
)

type c08Replay struct {
	Files  map[string]string `json:"files"`
	Setup  []string          `json:"setup"`
	Stmt   string            `json:"statement"`
	Combo  string            `json:"combination"`
	Detail string            `json:"detail"`
}

func c08Case(w *core.Worker, i int) {
	if i%8 == 5 {
		c08FileAttrs(w, i)
	}
	total := len(c08Stmts) * len(c08Fails) * len(c08Ks) * len(c08States) * len(c08Sizes)
	round := i / total
	x := i % total
	size := c08Sizes[x%len(c08Sizes)]
	x /= len(c08Sizes)
	state := c08States[x%len(c08States)]
	x /= len(c08States)
	kname := c08Ks[x%len(c08Ks)]
	x /= len(c08Ks)
	fail := c08Fails[x%len(c08Fails)]
	x /= len(c08Fails)
	stmt := c08Stmts[x%len(c08Stmts)]
	if size == 200 && (stmt == "update" || stmt == "replace-select" || stmt == "update-multi" || stmt == "delete") && (x+i/7)%3 == 0 {
		// tables of thousands of rows (not a multiple of any block size): copies of large tables may be made block by block
		size = []int{8193, 9000, 12289}[(i/3)%3]
	}
	combo := fmt.Sprintf("%s/%s/%s/%s/%d", stmt, fail, kname, state, size)
	r := core.Derive(w.Seed, "c08", round*7919+i%31)
	k := map[string]int{"first": 1, "second": 2, "middle": size / 2, "last-1": size - 1, "last": size}[kname]
	tn := "t"
	if state == "temp" {
		tn = "tmp"
	}
	// build the failing statement ("cancel-poll" runs the same statements as "cancel")
	realFail := fail
	if fail == "cancel-poll" {
		fail = "cancel"
	}
	div := fmt.Sprintf("10 / (id - %d)", k)
	sub := fmt.Sprintf("(SELECT u.id FROM u WHERE u.id <= %s.id - %d + 1)", tn, k)
	udf := "f(id)"
	var sql string
	valid := true
	setAttr := false
	switch stmt {
	case "insert-values":
		if fail != "rowlen" && fail != "divzero" && fail != "unknown-field" {
			valid = false
		}
		var rows []string
		nrows := 5
		kk := map[string]int{"first": 1, "second": 2, "middle": 3, "last-1": 4, "last": 5}[kname]
		for j := 1; j <= nrows; j++ {
			row := fmt.Sprintf("(%d, 'n%d', 'm%d')", 1000+j, j, j)
			if j == kk {
				switch fail {
				case "rowlen":
					// the rejected row holds values that live elsewhere: a cell of another table and a variable
					if kk%2 == 0 {
						row = fmt.Sprintf("(%d, (SELECT u.c1 FROM u WHERE u.id = 2))", 1000+j)
					} else {
						row = fmt.Sprintf("(%d, @keep, (SELECT u.c1 FROM u WHERE u.id = 1), 'n%d')", 1000+j, j)
					}
				case "divzero":
					row = fmt.Sprintf("(%d, 10 / 0, 'm%d')", 1000+j, j)
				case "unknown-field":
					row = fmt.Sprintf("(%d, nofield, 'm%d')", 1000+j, j)
				}
			}
			rows = append(rows, row)
		}
		sql = fmt.Sprintf("INSERT INTO %s VALUES %s;", tn, strings.Join(rows, ", "))
	case "insert-select":
		e := map[string]string{"divzero": div, "subquery2": strings.ReplaceAll(sub, tn+".id", "s.id"), "udf-trigger": udf, "unknown-field": "nofield", "cancel": "c1"}[fail]
		if e == "" {
			valid = false
		}
		sql = fmt.Sprintf("INSERT INTO %s SELECT id + 5000, %s, c2 FROM t s;", tn, e)
		if fail == "rowlen" {
			valid, sql = true, fmt.Sprintf("INSERT INTO %s SELECT id + 5000, c1 FROM t s;", tn)
		}
	case "update", "update-udf":
		e := map[string]string{"divzero": div, "subquery2": sub, "udf-trigger": udf, "unknown-field": "nofield", "cancel": "c1 || 'x'"}[fail]
		if e == "" || (stmt == "update-udf" && fail != "udf-trigger") || (stmt == "update" && fail == "udf-trigger") {
			valid = false
		}
		sql = fmt.Sprintf("UPDATE %s SET c2 = 'touched', c1 = %s;", tn, e)
	case "update-multi":
		switch fail {
		case "ambiguous":
			sql = fmt.Sprintf("UPDATE %s SET %s.c1 = d.c1 FROM %s JOIN d ON %s.id = d.id;", tn, tn, tn, tn)
		case "unknown-field":
			// a table whose path differs from the held one only in letter case cannot be registered next to it:
			// the failing CREATE must leave the held table (and its handler) alone
			if state == "for-update" || state == "dirty" {
				sql = []string{"CREATE TABLE `T.csv` (a, b);", "CREATE TABLE `T.CSV` (a) AS SELECT 1;", "CREATE TABLE `t.CSV` (a, b);"}[k%3]
			} else {
				valid = false
			}
		case "subquery2":
			// the FROM clause names the table twice under one name: rejected while (or after) the table is loaded for the update —
			// whatever the transaction did to the table before stays
			sql = []string{fmt.Sprintf("UPDATE %s SET c2 = 'x' FROM %s CROSS JOIN %s;", tn, tn, tn), fmt.Sprintf("DELETE %s FROM %s JOIN %s ON 1 = 1;", tn, tn, tn),
				fmt.Sprintf("UPDATE %s SET c2 = 'x' FROM %s JOIN u %s ON 1 = 1;", tn, tn, tn), fmt.Sprintf("DELETE %s FROM u %s, %s;", tn, tn, tn)}[(k+size)%4]
		case "cancel":
			// two targets: the statement publishes one table after the other
			sql = []string{fmt.Sprintf("UPDATE %s, u SET %s.c2 = 'both', u.c1 = 'both' FROM %s JOIN u ON %s.id = u.id;", tn, tn, tn, tn), fmt.Sprintf("DELETE %s, u FROM %s JOIN u ON %s.id = u.id;", tn, tn, tn),
				fmt.Sprintf("UPDATE u, %s SET %s.c2 = 'both', u.c1 = 'both' FROM u JOIN %s ON %s.id = u.id;", tn, tn, tn, tn), fmt.Sprintf("DELETE u, %s FROM u JOIN %s ON %s.id = u.id;", tn, tn, tn)}[(map[string]int{"unloaded": 0, "selected": 1, "for-update": 2, "dirty": 3, "temp": 0}[state]+len(kname)+round)%4]
		case "divzero":
			sql = fmt.Sprintf("UPDATE %s SET %s.c1 = 10 / (%s.id - %d) FROM %s JOIN u ON %s.id >= u.id;", tn, tn, tn, k, tn, tn)
			sql = fmt.Sprintf("UPDATE %s SET %s.c1 = 10 / (%s.id - %d) FROM %s JOIN one ON 1 = 1;", tn, tn, tn, k, tn)
		default:
			valid = false
		}
	case "delete":
		e := map[string]string{"divzero": div + " > 100", "subquery2": sub + " = 0", "udf-trigger": udf + " < 0", "unknown-field": "nofield = 1", "cancel": "id % 2 = 0"}[fail]
		if e == "" {
			valid = false
		}
		sql = fmt.Sprintf("DELETE FROM %s WHERE id %% 2 = 1 OR %s;", tn, e)
	case "replace-values":
		if fail != "rowlen" && fail != "divzero" {
			valid = false
		}
		bad := "(2, (SELECT u.c1 FROM u WHERE u.id = 2), @keep)"
		if fail == "divzero" {
			bad = "(2, 10 / 0)"
		}
		rows := []string{"(1, 'r1')", "(7777, 'r-new')", "(3, 'r3')"}
		kk := map[string]int{"first": 0, "second": 1, "middle": 1, "last-1": 2, "last": 3}[kname]
		rows = append(rows[:kk], append([]string{bad}, rows[kk:]...)...)
		sql = fmt.Sprintf("REPLACE INTO %s (id, c1) USING (id) VALUES %s;", tn, strings.Join(rows, ", "))
	case "replace-select":
		e := map[string]string{"divzero": div, "udf-trigger": udf, "cancel": "c1 || 'x'"}[fail]
		if e == "" {
			valid = false
		}
		sql = fmt.Sprintf("REPLACE INTO %s (id, c1) USING (id) SELECT id, %s FROM t s;", tn, strings.ReplaceAll(e, tn+".id", "s.id"))
	case "create-as":
		e := map[string]string{"divzero": div, "udf-trigger": udf, "unknown-field": "nofield", "cancel": "c1"}[fail]
		if e == "" || state == "temp" {
			valid = false
		}
		sql = fmt.Sprintf("CREATE TABLE `created.csv` AS SELECT id, %s FROM t;", e)
		// the query succeeds and the column list is rejected afterwards
		if fail == "rowlen" && state != "temp" {
			valid, sql = true, "CREATE TABLE `created.csv` (a) AS SELECT id, c1 FROM t;"
		}
		if fail == "ambiguous" && state != "temp" {
			valid, sql = true, "CREATE TABLE `created.csv` (a, a) AS SELECT id, c1 FROM t;"
		}
		// the plain form, rejected for its column list
		if fail == "subquery2" && state != "temp" {
			valid, sql = true, []string{"CREATE TABLE `created.csv` (a, b, A);", "CREATE TABLE `created.csv` (a, a);", "CREATE TABLE `created.csv` (x, `y`, `x`);"}[k%3]
		}
	case "alter-add":
		e := map[string]string{"divzero": div, "subquery2": sub, "udf-trigger": udf, "unknown-field": "nofield"}[fail]
		if e == "" {
			valid = false
		}
		sql = fmt.Sprintf("ALTER TABLE %s ADD x DEFAULT %s;", tn, e)
		if fail == "ambiguous" {
			valid, sql = true, fmt.Sprintf("ALTER TABLE %s ADD (x, c1);", tn) // a column of that name exists
		}
		// ALTER TABLE .. SET <attribute> rejected for a JSON / CSV table: the attribute must not stick
		if fail == "rowlen" && state != "temp" && state != "selected-noheader" {
			valid, setAttr = true, true
			sql = []string{"ALTER TABLE j SET ENCODING TO 'UTF16';", "ALTER TABLE j SET ENCODING TO 'SJIS';", "ALTER TABLE j SET FORMAT TO 'NOSUCH';", "ALTER TABLE j SET LINE_BREAK TO 'XX';", "ALTER TABLE j SET JSON_ESCAPE TO 'NOSUCH';",
				"ALTER TABLE t SET DELIMITER TO 'ab';", "ALTER TABLE t SET ENCODING TO 'NOSUCH';", "ALTER TABLE t SET HEADER TO 'maybe';", "ALTER TABLE t SET ENCLOSE_ALL TO 3;", "ALTER TABLE t SET DELIMITER_POSITIONS TO 'x';"}[(k+size)%10]
		}
	}
	if state == "selected-noheader" && fail == "cancel" {
		// a cancellation may strike inside the re-load that upgrades the table's lock; a failed upgrade leaves no cached copy, and
		// the next plain read loads the file under the default attributes — the region the manual leaves open (see C20)
		valid = false
	}
	if !valid || k < 1 || k > size {
		w.Case(combo+"#"+strconv.Itoa(round), false)
		return
	}
	// tables
	tp := colProfile{Kind: "text", Vals: c05Texts, NullPct: 10}
	gt := genTable(r, "t", size, []colProfile{tp, tp}, []string{"c1", "c2"})
	files := map[string]string{"t.csv": gt.CSV(), "u.csv": "id,c1\n1,one\n2,two\n", "one.csv": "id\n1\n", "j.json": "[{\"id\":1,\"c1\":\"a\"},{\"id\":2,\"c1\":\"b\"}]",
		"d.csv": fmt.Sprintf("id,c1\n%d,dupA\n%d,dupB\n", k, k)}
	dir := core.FreshDir(w.Work, "repo")
	core.WriteFiles(dir, files)
	cpu := 1
	if size > 100 {
		cpu = 4
	}
	if size > 1000 {
		w.Count("cases_on_tables_of_thousands_of_rows", 1)
	}
	s, err := core.NewSess(core.SessOpts{Dir: dir, CPU: cpu, Quiet: true})
	if err != nil {
		w.Inconclusive(err.Error())
		return
	}
	defer func() { s.Close() }()
	var setup []string
	run := func(q string) core.ExecResult {
		setup = append(setup, q)
		return s.Exec(q)
	}
	run(fmt.Sprintf("DECLARE f FUNCTION (@x) AS BEGIN IF @x = %d THEN TRIGGER ERROR 70 'boom'; END IF; RETURN @x; END;", k))
	run("VAR @keep := 'kept';")
	// every other case runs with poison-on-discard: a value handed back to the allocator although a table cell or a
	// variable still refers to it shows up at once instead of after the next allocation
	verifhook.SetPoison(i%2 == 1)
	defer func() {
		verifhook.SetPoison(false)
		verifhook.TakeDiscardStats(true) // (the registry keeps every discarded object alive until it is reset)
	}()
	dirty := false
	switch state {
	case "selected":
		run("SELECT COUNT(*) FROM t;")
	case "selected-noheader":
		// read before under attributes of its own (no header line: the header is a record, the columns are c1, c2, c3): the
		// failing statement names the table plainly and must leave that reading of it alone
		run("SELECT COUNT(*) FROM CSV(',', `t.csv`, 'UTF8', TRUE);")
	case "for-update":
		run("SELECT COUNT(*) FROM t FOR UPDATE;")
	case "dirty":
		run("UPDATE t SET c2 = 'dirty' WHERE id % 2 = 0;")
		dirty = true
	case "temp":
		run("DECLARE tmp VIEW (id, c1, c2) AS SELECT id, c1, c2 FROM t;")
	}
	tables := []string{"t", "u", "d"}
	if state == "temp" {
		tables = append(tables, "tmp")
	}
	if stmt == "create-as" {
		tables = append(tables, "`created.csv`") // does not exist before the statement and must not exist for the following ones
	}
	snap := func() map[string]string {
		m := map[string]string{}
		for _, n := range tables {
			res := s.Exec("SELECT * FROM " + n + ";")
			if res.Err != nil || len(res.Views) != 1 {
				m[n] = "ERROR " + fmt.Sprint(res.Err)
				continue
			}
			m[n] = res.Views[0].String()
		}
		if res := s.Exec("SELECT @keep;"); res.Err == nil && len(res.Views) == 1 {
			m["@keep"] = res.Views[0].String()
		}
		return m
	}
	viol := func(sig, what string) {
		w.Violation(sig+":"+stmt+"/"+realFail, fmt.Sprintf("[%s] %s: %s", combo, sql, what), c08Replay{Files: small(files), Setup: setup, Stmt: sql, Combo: combo, Detail: what})
	}
	before := snap()
	lsBefore := core.TakeSnap(dir)
	var res core.ExecResult
	if realFail == "cancel-poll" {
		// the statement's context is cancelled at its N-th poll (Err / Done): every place at which csvq looks at the context is
		// a place where the statement can end. The polls of an undisturbed execution are counted in a scratch session first.
		total := int64(0)
		{
			d0 := core.FreshDir(w.Work, "dry")
			core.WriteFiles(d0, files)
			if s0, e0 := core.NewSess(core.SessOpts{Dir: d0, CPU: cpu, Quiet: true}); e0 == nil {
				for _, q := range setup {
					s0.Exec(q)
				}
				pc := newPollCtx(-1)
				s0.ExecCtx(pc, sql)
				total = atomic.LoadInt64(&pc.polls)
				pc.cancel()
				s0.Close()
			}
		}
		target := map[string]int64{"first": 1, "second": 2, "middle": total / 2, "last-1": total - 1, "last": total}[kname]
		if size > 100 {
			// the large tables take the polls of the sequential tail one by one instead: publication happens there
			target = total - int64(map[string]int{"first": 4, "second": 3, "middle": 2, "last-1": 1, "last": 0}[kname])
		}
		if target < 1 {
			target = 1
		}
		pc := newPollCtx(target)
		res = s.ExecCtx(pc, sql)
		pc.cancel()
		w.Count("context_polls_counted", total)
		if w.Replay {
			fmt.Printf("[%s] %s\n  polls of the undisturbed run: %d, cancelled at poll %d, polls made: %d, error: %v\n", combo, sql, total, target, atomic.LoadInt64(&pc.polls), res.Err)
		}
	} else if fail == "cancel" {
		ctx, cancel := context.WithCancel(context.Background())
		var hits int64
		// where the statement is cancelled: the number of worker-hook hits of an undisturbed execution is counted in a
		// scratch session first; first / second / middle / last-1 / last then name the hit at which the context is cancelled
		total := int64(0)
		{
			d0 := core.FreshDir(w.Work, "dry")
			core.WriteFiles(d0, files)
			if s0, e0 := core.NewSess(core.SessOpts{Dir: d0, CPU: cpu, Quiet: true}); e0 == nil {
				for _, q := range setup {
					s0.Exec(q)
				}
				verifhook.SetCallback(func(point string, hit int64) {
					if strings.HasPrefix(point, "worker.") {
						atomic.AddInt64(&total, 1)
					}
				})
				s0.Exec(sql)
				verifhook.SetCallback(nil)
				s0.Close()
			}
		}
		target := map[string]int64{"first": 0, "second": 1, "middle": total / 2, "last-1": total - 2, "last": total - 1}[kname]
		if target < 0 {
			target = 0
		}
		verifhook.SetCallback(func(point string, hit int64) {
			if strings.HasPrefix(point, "worker.") && atomic.AddInt64(&hits, 1) == target+1 {
				cancel()
			}
		})
		res = s.ExecCtx(ctx, sql)
		verifhook.SetCallback(nil)
		cancel()
	} else {
		res = s.Exec(sql)
	}
	if res.Err == nil {
		w.Count("statements_that_did_not_fail", 1)
		w.Case(combo+"#"+strconv.Itoa(round), false)
		return
	}
	if core.IsFatal(res.Err) {
		viol("internal-failure", res.Err.Error())
	}
	after := snap()
	for _, n := range append(append([]string{}, tables...), "@keep") {
		if before[n] != after[n] {
			viol("table-changed", fmt.Sprintf("table %s differs after the failed statement (error: %s)\nbefore: %s\nafter:  %s", n, truncateStr(res.Err.Error(), 120), truncateStr(before[n], 400), truncateStr(after[n], 400)))
		}
	}
	lsAfter := core.TakeSnap(dir)
	for _, n := range lsAfter.Names() {
		// lock/temp files of a table the transaction now holds for update are legitimate until it ends;
		// a failed CREATE TABLE must leave neither the new file nor its control file
		if _, ok := lsBefore[n]; !ok && (strings.Contains(n, "created.csv") || strings.Contains(strings.ToUpper(n), "T.CSV") && n != "t.csv" && n != ".t.csv.lock" && n != ".t.csv.temp") {
			viol("file-left", fmt.Sprintf("the failed CREATE TABLE left %s in the repository", n))
		}
	}
	if setAttr {
		// a successful change of both tables afterwards: what COMMIT writes must be what it writes without the rejected statement
		for _, q := range []string{"UPDATE j SET c1 = 'ok' WHERE id = 1;", "UPDATE t SET c2 = 'ok' WHERE id = 1;"} {
			if r2 := run(q); r2.Err != nil {
				viol("statement-after-failure-fails", fmt.Sprintf("%s: %v", q, r2.Err))
			}
		}
		dirty = true
		before = snap()
	}
	// a later COMMIT writes none of the partial effects
	cres := s.Exec("COMMIT;")
	if cres.Err != nil {
		viol("commit-error", cres.Err.Error())
	}
	s.Close()
	s2, _ := core.NewSess(core.SessOpts{Dir: dir, CPU: 1, Quiet: true})
	s = s2
	final := core.TakeSnap(dir)
	for _, n := range final.Names() {
		if core.IsControlFile(n) || n == "created.csv" || (strings.ToUpper(n) == "T.CSV" && n != "t.csv") {
			viol("file-left-after-commit", "after COMMIT the repository holds "+n)
		}
	}
	if setAttr {
		ctl := core.FreshDir(w.Work, "control")
		core.WriteFiles(ctl, files)
		if cs, err := core.NewSess(core.SessOpts{Dir: ctl, CPU: 1, Quiet: true}); err == nil {
			for _, q := range setup {
				if q != sql && !strings.HasPrefix(q, "DECLARE f ") {
					cs.Exec(q)
				}
			}
			cs.Exec("COMMIT;")
			cs.Close()
			for _, fn := range []string{"j.json", "t.csv"} {
				got, _ := os.ReadFile(filepath.Join(dir, fn))
				want, _ := os.ReadFile(filepath.Join(ctl, fn))
				if !bytes.Equal(got, want) {
					viol("partial-effect-committed", fmt.Sprintf("%s after COMMIT differs from what the same transaction writes without the rejected statement: %q vs %q", fn, truncateStr(string(got), 120), truncateStr(string(want), 120)))
				}
			}
		}
	}
	if !dirty {
		if b, _ := os.ReadFile(filepath.Join(dir, "t.csv")); !bytes.Equal(b, []byte(files["t.csv"])) {
			viol("partial-effect-committed", "t.csv changed although no statement succeeded on it")
		}
	} else {
		res := s2.Exec("SELECT * FROM t;")
		if res.Err != nil || len(res.Views) != 1 {
			viol("reload-error", fmt.Sprint(res.Err))
		} else {
			want := strings.ReplaceAll(before["t"], "N:", "S:")
			got := strings.ReplaceAll(res.Views[0].String(), "N:", "S:")
			if got != want {
				viol("partial-effect-committed", fmt.Sprintf("t.csv after COMMIT differs from the table before the failed statement\nwant: %s\ngot:  %s", truncateStr(want, 300), truncateStr(got, 300)))
			}
		}
	}
	if i%97 == 0 {
		w.Sample(map[string]interface{}{"combination": combo, "setup": setup, "statement": sql, "error": truncateStr(res.Err.Error(), 150)})
	}
	w.Note("failing_combinations", stmt+"/"+realFail+"/"+state)
	w.Case(combo+"#"+strconv.Itoa(round), true)
}

// pollCtx is a context that is cancelled at its N-th poll.
type pollCtx struct {
	context.Context
	cancel context.CancelFunc
	polls  int64
	target int64
}

func newPollCtx(target int64) *pollCtx {
	c, cancel := context.WithCancel(context.Background())
	return &pollCtx{Context: c, cancel: cancel, target: target}
}

func (p *pollCtx) tick() {
	if atomic.AddInt64(&p.polls, 1) == p.target {
		p.cancel()
	}
}

func (p *pollCtx) Err() error {
	p.tick()
	return p.Context.Err()
}

func (p *pollCtx) Done() <-chan struct{} {
	p.tick()
	return p.Context.Done()
}
