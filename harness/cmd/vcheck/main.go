// vcheck: runtime-monitoring checks for the csvq properties C01–C20.
package main

import (
	"os"

	"verif/internal/core"
)

func main() {
	os.Exit(core.Main(os.Args[1:]))
}
